# One row per claimed property. gen_manifest.py turns this into MANIFEST.json.
# (id, engine, category, technique, level_text, level_note, design_ref)
CHECKS = [
 ("C10", "E1-product", "exploration",
  "exhaustive enumeration of all RUV window-map pairs (3 servers, times 0..4; thorough also 0..5 and 4 servers) through the real range_diff against a decision table",
  "Every pair of consumer/supplier range maps over the stated bound (16^6 = 16.7M pairs) is run through the real ReplicationUpdateVector::range_diff and compared with a decision table written from the property text; the input space is finite and is covered completely, so within the bound this is a decision, not a sample.",
  "Trusts the decision table in harness/kv-core/src/checks/c10.rs; only order relations between window bounds matter to the code, so a 5-point time grid exercises every comparison outcome. The mapping of the status to the wire answer in supplier_provide_changes is covered by C09.",
  "DESIGN.md section 4 C10"),
]
NOT_APPLICABLE = [
]
