# One row per claimed property. gen_manifest.py turns this into MANIFEST.json.
# (id, engine, category, technique, level_text, level_note, design_ref)
CHECKS = [
 ("C10", "E1-product", "exploration",
  "exhaustive enumeration of all RUV window-map pairs (3 servers, times 0..4; thorough also 0..5 and 4 servers) through the real range_diff against a decision table",
  "Every pair of consumer/supplier range maps over the stated bound (16^6 = 16.7M pairs) is run through the real ReplicationUpdateVector::range_diff and compared with a decision table written from the property text; the input space is finite and is covered completely, so within the bound this is a decision, not a sample.",
  "Trusts the decision table in harness/kv-core/src/checks/c10.rs; only order relations between window bounds matter to the code, so a 5-point time grid exercises every comparison outcome. The mapping of the status to the wire answer in supplier_provide_changes is covered by C09.",
  "DESIGN.md section 4 C10"),
 ("C21", "E1-product", "exploration",
  "exhaustive sweep of all 2^32 supplied gids and all 2^32 generation inputs (quick: all boundary neighbourhoods) through the real gidnumber kernel",
  "The gidnumber plugin's private kernel is run on every u32 as a caller-supplied gid and on every value of the uuid bytes used for generation (thorough = the full 2^32 on both sides, i.e. the whole input space of the kernel; quick = every value within 4096 of any range boundary plus the low 2^17 and the 2^31 neighbourhood). Accepted/generated values are tested against a reserved-range table written from the property, and the real create and modify paths are shown to agree with the kernel on boundary values.",
  "Reserved set is 0-999, 60001-60577, 61184-65519, 65534, 65535 (statement + systemd UIDS-GIDS); the nspawn container range is accepted by design. Kernel reached through a verif-hooks wrapper around the private apply_gidnumber; conformance with the real plugin path is checked on 28 supplied and 8 generated boundary values on a live server.",
  "DESIGN.md section 4 C21"),
 ("C28", "E2-forkdfs", "model_checking",
  "explicit-state BFS to a fixpoint over the real CredSoftLock object (failure/check/time-advance/admin-expiry events) with history-variable invariants",
  "Breadth-first search to a fixpoint, inside a time horizon, of the state graph whose transitions are calls of the real CredSoftLock (apply_time_step / is_valid / record_failure) in the order IdmServer uses them; every reachable state is checked for: refused until unlock, lock never shortened, count resets only after reset time or admin expiry, at most 100 failures per UTC day / 3 per TOTP step. All three policies, with and without administrator expiry.",
  "The model IS the implementation (no abstraction gap); the harness adds a clock, an admin-expiry variable and history counters. Horizon: ~20 min around a UTC day boundary for passwords (long enough to reach the 100-failure cap), 3+ steps for TOTP. Clock is non-decreasing. The server paths that consult the lock (auth, unix, ldap, reauth) are exercised on a live IdmServer only in later rounds.",
  "DESIGN.md section 4 C28"),
 ("C29", "E1-product", "exploration",
  "exhaustive enumeration of secret lengths x algorithms x digits x steps x every second of several steps x candidate codes (thorough: full 10^6/10^8 code space sweeps) through the real Totp::verify against an independent python RFC 6238 oracle",
  "Every case of the product is run through the real Totp::verify and compared with an independent RFC 6238 implementation (python hmac/hashlib, self-tested on the RFC vectors at each run); thorough additionally sweeps the whole code space for 48 (secret,time) cases so the accepted set is shown to be exactly {code(c), code(c-1)}.",
  "Independent oracle = python3 stdlib hmac (OpenSSL). Secrets are two byte patterns per length in {0,1,20,32,64,65,128,129,200}; times cover every second of 2-4 consecutive steps plus instants around 2^31, 2^32.",
  "DESIGN.md section 4 C29"),
 ("C35", "E1-product", "exploration",
  "exhaustive enumeration of all ordered policy sequences (1296-policy alphabet length<=2, 256-policy alphabet length 3, per-field 5-value alphabets length<=5) through the real fold",
  "All ordered sequences (hence all permutations of every multiset) over policy alphabets that straddle every comparison in the fold are run through the real ResolvedAccountPolicy::fold_from; each result is compared with the fold of the sorted sequence (order independence) and tested for strictness against every member, CA-list containment and the single-factor minimum length.",
  "fold_from is reached through a verif-hooks wrapper that copies plain data in and out. Policy values outside the alphabets are not covered; search limits are only required to be order independent (the statement does not list them as strictness fields).",
  "DESIGN.md section 4 C35"),
]
NOT_APPLICABLE = [
]
