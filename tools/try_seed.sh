#!/bin/bash
# Apply a seeded change to /repo, run the named checks against it, undo it straight afterwards.
# usage: try_seed.sh <patch.diff> <tier> <Cnn> [<Cnn> ...]
P="$1"; TIER="$2"; shift 2
cd /repo || exit 2
if [ -n "$(git status --porcelain --untracked-files=no)" ]; then echo "REPO-DIRTY: refusing"; git status --short | head; exit 2; fi
git apply "$P" || { echo "PATCH-DOES-NOT-APPLY"; exit 2; }
for c in "$@"; do
  out=$(cd /verif && timeout 3000 ./check "$c" --tier "$TIER" 2>&1)
  rc=$?
  echo "== $c rc=$rc"
  echo "$out" | grep -E "^(VIOLATION|KNOWN-FINDING|OK|MACHINERY|  key=)" | cut -c1-300 | head -8
done
git -C /repo checkout -- . 
git -C /repo status --short | head -3
