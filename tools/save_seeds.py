#!/usr/bin/env python3
"""Copy confirmed seeded changes from a scratch directory into /verif/seeded/<ID>/ and write
meta.json (property, what it needs to manifest, how it was confirmed, which check catches it).
usage: save_seeds.py <srcdir> [ID...]   (default: every ID with a confirm.json that says ok)
Also (re)writes /verif/seeded/INDEX.md and prints the table for DESIGN.md."""
import json, os, re, shutil, sys

SRC = sys.argv[1]
IDS = sys.argv[2:] or sorted(d for d in os.listdir(SRC) if re.fullmatch(r"C\d\d", d))
DST = "/verif/seeded"
props = {json.loads(l)["id"]: json.loads(l) for l in open("/verif/properties.jsonl")}
rows = []
for i in IDS:
    d = os.path.join(SRC, i)
    cj = os.path.join(d, "confirm.json")
    if not os.path.exists(cj):
        print(i, "no confirm.json - skipped"); continue
    c = json.load(open(cj))
    if not c.get("ok"):
        print(i, "not confirmed - skipped"); continue
    out = os.path.join(DST, i)
    os.makedirs(out, exist_ok=True)
    for f in ("patch.diff", "demo.diff", "notes.md"):
        shutil.copy(os.path.join(d, f), os.path.join(out, f))
    notes = open(os.path.join(d, "notes.md")).read()
    m = re.search(r"(?is)##\s*what (?:is|it) need[^\n]*\n(.*?)(?:\n## |\Z)", notes)
    needs = (m.group(1).strip() if m else "")[:1200]
    patch = open(os.path.join(d, "patch.diff")).read()
    files = sorted(set(re.findall(r"^diff --git a/(\S+) ", patch, re.M)))
    evals = []
    for tier in ("quick", "thorough"):
        ej = os.path.join(d, f"eval_{tier}.json")
        if os.path.exists(ej):
            e = json.load(open(ej))
            for r in e["results"]:
                evals.append({"check": r["check"], "tier": tier, "exit": r["exit"], "violation_keys": r["keys"].split(), "harness_at_repo_head": e.get("repo_head", "")[:7]})
    caught = [e for e in evals if e["exit"] == 1]
    meta = {
        "property": i,
        "title": props[i]["title"],
        "files_changed": files,
        "needs_to_manifest": needs,
        "confirmed": {
            "how": "tools/confirm_seeded.py in a scratch worktree of /repo: (1) HEAD + demo.diff: the demonstration passes; (2) HEAD + patch.diff + demo.diff: the whole suite of every touched crate runs, compiles, and ONLY the demonstration fails",
            "repo_head": c.get("repo_head", "")[:7],
            "crates": c.get("crates"),
            "features": c.get("features", ""),
            "demonstration_tests": c.get("demo_tests"),
            "clean_plus_demo": c.get("clean_plus_demo", {}).get("summary"),
            "patched_plus_demo": c.get("patched_plus_demo", {}).get("summary"),
            "failing_with_patch": c.get("patched_plus_demo", {}).get("failing"),
        },
        "checks_run_against_it": evals,
        "caught_by": sorted({f"{e['check']} ({e['tier']})" for e in caught}),
        "how_to_rerun": f"tools/try_seed.sh /verif/seeded/{i}/patch.diff quick {i}   (applies to /repo, runs the check, reverts)",
    }
    json.dump(meta, open(os.path.join(out, "meta.json"), "w"), indent=1)
    first = ""
    m2 = re.search(r"(?is)##\s*change[^\n]*\n(.*?)(?:\n## |\Z)", notes)
    if m2:
        first = re.sub(r"\s+", " ", m2.group(1).strip())[:260]
    rows.append((i, ", ".join(os.path.basename(f) for f in files), first, ", ".join(meta["caught_by"]) or "NOT CAUGHT", "; ".join(sorted({k for e in caught for k in e["violation_keys"][:2]}))[:160]))
    print(i, "saved; caught by:", meta["caught_by"] or "NOT CAUGHT")
table = "| property | file(s) | the seeded change | caught by | violation reported |\n|---|---|---|---|---|\n" + "\n".join(f"| {a} | {b} | {c} | {d} | `{e}` |" for a, b, c, d, e in rows) + "\n"
open(os.path.join(DST, "INDEX.md"), "w").write("# Seeded property-breaking changes (each compiles and passes the repository's own suite)\n\n" + table)
print(table)
