#!/usr/bin/env python3
"""Confirm seeded changes in a scratch worktree (never in /repo).

For each id under <srcdir>/<ID>/ with patch.diff and demo.diff:
  1. clean tree + demo:   the demo's new tests must PASS
  2. tree + patch + demo: the full suite of every touched crate must fail ONLY in the demo's tests
     (i.e. the change compiles and every pre-existing test still passes)
Writes <srcdir>/<ID>/confirm.json.  usage: confirm_seeded.py <srcdir> <ID>...
"""
import json, os, re, subprocess, sys

SRC = sys.argv[1]
IDS = sys.argv[2:]
WT = os.environ.get("KV_CONFIRM_WT", "/tmp/wt_confirm")
ENV = dict(os.environ, RUSTUP_TOOLCHAIN="1.96.0", CARGO_NET_OFFLINE="true")

CRATES = [
    ("server/lib/", "kanidmd_lib"), ("server/core/", "kanidmd_core"), ("proto/", "kanidm_proto"),
    ("libs/crypto/", "kanidm_lib_crypto"), ("libs/actors/", "kanidm_actors"), ("libs/scim_proto/", "scim_proto"),
    ("unix_integration/pam_sparkle_common/", "pam_sparkle_common"), ("unix_integration/common/", "sparkle_unix_common"),
    ("unix_integration/resolver_common/", "sparkle_resolver_common"), ("unix_integration/resolver/", "kanidm_unix_resolver"),
    ("rlm_kanidm/module/", "rlm_kanidm"), ("rlm_kanidm/shared/", "rlm_kanidm_shared"),
]


def sh(cmd, **kw):
    return subprocess.run(cmd, shell=True, cwd=WT, env=ENV, text=True, capture_output=True, **kw)


def crates_of(diff):
    out = set()
    for m in re.finditer(r"^diff --git a/(\S+) ", open(diff).read(), re.M):
        for pre, name in CRATES:
            if m.group(1).startswith(pre):
                out.add(name)
    return sorted(out)


def new_tests(diff):
    names = []
    for line in open(diff).read().splitlines():
        m = re.match(r"^\+\s*(?:pub(?:\([a-z]+\))?\s+)?(?:async\s+)?fn\s+(\w+)\s*[(<]", line)
        if m:
            names.append(m.group(1))
    return names


def reset():
    sh("git checkout -q -- . ; git clean -fdq -e target")


FEATURES = ""


def nextest(crates, extra=""):
    pargs = " ".join(f"-p {c}" for c in crates) + FEATURES
    # the resolver's integration tests hand out ports from a per-process counter: run them serially
    threads = 1 if "sparkle_resolver_common" in crates else 8
    r = sh(f"nice -n 10 cargo nextest run {pargs} --offline --no-fail-fast --test-threads {threads} {extra} 2>&1")
    txt = r.stdout
    fails = sorted(set(re.findall(r"^\s+FAIL \[[^\]]*\]\s*(?:\([^)]*\))?\s*(\S+ \S+)", txt, re.M)))
    summ = re.findall(r"Summary.*", txt)
    berr = len(re.findall(r"^error(\[E|: could not compile)", txt, re.M))
    return fails, (summ[-1].strip() if summ else ""), berr, txt


if not os.path.isdir(WT):
    subprocess.run(f"git -C /repo worktree add --detach {WT} HEAD >/dev/null 2>&1 && cp -a /repo/target {WT}/target", shell=True, check=True)
head = subprocess.check_output("git -C /repo rev-parse HEAD", shell=True, text=True).strip()
reset()
sh(f"git checkout -q --detach {head}")

for id in IDS:
    global_features = None
    d = os.path.join(SRC, id)
    res = {"id": id, "repo_head": head}
    try:
        patch, demo = os.path.join(d, "patch.diff"), os.path.join(d, "demo.diff")
        crates = sorted(set(crates_of(patch) + crates_of(demo)))
        tests = new_tests(demo)
        # demonstrations of storage-fault / crash / schedule defects need the feature-gated hook points
        FEATURES = " --features verif-hooks" if "verif_hooks" in open(demo).read() or "verif-hooks" in open(demo).read() else ""
        res["features"] = FEATURES.strip()
        res["crates"], res["demo_tests"] = crates, tests
        reset()
        if sh(f"git apply {demo}").returncode != 0:
            res["ok"], res["why"] = False, "demo does not apply"
            raise StopIteration
        # 1. demo alone: its tests pass
        filt = " ".join(tests) if tests else ""
        fails, summ, berr, _ = nextest(crates_of(demo), filt)
        res["clean_plus_demo"] = {"failing": fails, "summary": summ, "build_errors": berr}
        # 2. patch + demo: only the demo fails
        if sh(f"git apply {patch}").returncode != 0:
            res["ok"], res["why"] = False, "patch does not apply"
            raise StopIteration
        fails2, summ2, berr2, txt = nextest(crates)
        open(os.path.join(d, "confirm_mut.log"), "w").write(txt[-20000:])
        res["patched_plus_demo"] = {"failing": fails2, "summary": summ2, "build_errors": berr2}
        only_demo = bool(fails2) and all(any(t in f for t in tests) for f in fails2) if tests else False
        res["ok"] = (not fails) and berr == 0 and berr2 == 0 and only_demo
        if not res["ok"]:
            res["why"] = "see fields"
    except StopIteration:
        pass
    except Exception as e:  # noqa
        res["ok"], res["why"] = False, f"exception {e}"
    json.dump(res, open(os.path.join(d, "confirm.json"), "w"), indent=1)
    print(id, "OK" if res.get("ok") else "NOT-CONFIRMED", res.get("why", ""), flush=True)
reset()
print("CONFIRM-DONE")
