#!/usr/bin/env python3-vt
"""Regenerate /verif/MANIFEST.json from tools/checks_table.py and validate it."""
import json, os, subprocess, sys
HERE = os.path.dirname(os.path.abspath(__file__))
VERIF = os.path.dirname(HERE)
sys.path.insert(0, HERE)
from checks_table import CHECKS, NOT_APPLICABLE

props = [json.loads(l) for l in open(os.path.join(VERIF, "properties.jsonl"))]
ids = [p["id"] for p in props]

def hook_commits():
    try:
        out = subprocess.check_output(["git", "-C", "/repo", "log", "--format=%H %s"], text=True)
    except Exception:
        return []
    return [l.split()[0] for l in out.splitlines() if l.split(" ", 1)[1].startswith("verif-hooks:")][::-1]

claimed = [c[0] for c in CHECKS]
na = {n[0]: n[1] for n in NOT_APPLICABLE}
for i in ids:
    if i not in claimed and i not in na:
        na[i] = "check not built yet in this round (planned in DESIGN.md section 4); not claimed rather than claimed weakly"
for c in claimed:
    assert c in ids, c
    assert c not in na or True

engines = {}
checks = []
for (cid, engine, cat, tech, text, note, ref) in CHECKS:
    engines.setdefault(engine, []).append(cid)
    checks.append({
        "property_id": cid,
        "quick_cmd": f"./check {cid} --tier quick",
        "thorough_cmd": f"./check {cid} --tier thorough",
        "evidence_file": f"/verif/evidence/{cid}.json",
        "replay_cmd_template": f"./check {cid} --replay {{path}}",
        "engine": engine,
        "level_claimed": {"category": cat, "text": text, "design_ref": ref},
        "level_note": note,
        "technique": tech,
    })

ENGINE_TEXT = {
 "E1-product": ("harness/kv-engine/src/product.rs", "exhaustive enumeration of a finite input/configuration product through the real code against an independent reference"),
 "E2-forkdfs": ("harness/kv-engine/src/forkdfs.rs", "explicit-state depth-first search over operation sequences; every state is a fork()ed copy of a process holding the real server on an in-memory database; depth-aware visited table in shared memory"),
 "E3-sched": ("harness/kv-core/src/checks/c06.rs", "stateless exploration of schedules of real code: threads stopped at named points by a controller (preemption-bounded, C06), or tasks of a single-threaded executor whose yield points are enumerated (delay-bounded, C47)"),
 "E4-fault": ("harness/kv-core/src/checks/c04.rs", "enumeration of every hit of every named storage point as an injected error (C04) or as the point at which the process dies (C05), each case on its own copy of a database file"),
 "E5-peer": ("harness/kv-core/src/checks/c43.rs, harness/kv-core/src/edge.rs", "enumeration of every scripted reply / operation sequence of the peer the subject talks to, over a real socket pair (C43) or a real TCP connection to a scripted HTTP identity server (C44, C45)"),
 "E6-model": ("harness/kv-core/src/checks", "explicit-state BFS of a small model that calls the real pure function, plus replay of every model trace against the real server"),
}
manifest = {
    "version": 1,
    "setup_cmd": "cd /verif/harness && ( [ -f Cargo.lock ] || cp /repo/Cargo.lock Cargo.lock ) && CARGO_NET_OFFLINE=true cargo build --release --offline",
    "hooks": {
        "guard": "cargo feature `verif-hooks` (kanidmd_lib and the other crates that carry hooks); off by default, never enabled inside the /repo workspace",
        "enable": "the harness workspace /verif/harness depends on the /repo crates by path with features = [\"verif-hooks\"]; ./check rebuilds it (cargo build --release --offline) before every run, so checks always build /repo's current working tree",
        "baseline_off_cmd": "cd /repo && RUSTUP_TOOLCHAIN=1.96.0 cargo nextest run --workspace --no-fail-fast --tool-config-file pb:/w/lib/nextest.toml --profile pb --test-threads 8 --offline",
        "source_commits": hook_commits(),
        "add_only": True,
    },
    "engines": [
        {"name": n, "path": ENGINE_TEXT[n][0], "serves_properties": sorted(ps), "kind_free_text": ENGINE_TEXT[n][1]}
        for n, ps in sorted(engines.items())
    ],
    "checks": checks,
    "notes": "All checks are bounded exhaustive explorations (model checking family): ./check <id> rebuilds the harness against /repo and runs the explorer; exit 0/1/2 = held / VIOLATION / machinery failure. known_findings.json lists genuine defects that are recorded rather than repaired.",
    "not_applicable": [{"property_id": i, "reason": na[i]} for i in ids if i in na and i not in claimed],
}
path = os.path.join(VERIF, "MANIFEST.json")
json.dump(manifest, open(path, "w"), indent=1)
open(path, "a").write("\n")
try:
    import jsonschema
    jsonschema.validate(manifest, json.load(open("/root/.vp/MANIFEST.schema.json")))
    print("MANIFEST.json valid;", len(checks), "checks,", len(manifest["not_applicable"]), "not claimed")
except ImportError:
    print("jsonschema not available; wrote MANIFEST.json unvalidated")
