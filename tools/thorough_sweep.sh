#!/bin/bash
# Run the thorough tier of every claimed check one after the other (optionally with scaled
# search budgets: KV_DEADLINE_SCALE=0.2) and record exit code and wall time.
# usage: thorough_sweep.sh [ids...]   (default: every check in MANIFEST.json)
cd /verif || exit 2
IDS="$@"
[ -z "$IDS" ] && IDS=$(python3 -c "import json;print(' '.join(c['property_id'] for c in json.load(open('/verif/MANIFEST.json'))['checks']))")
for id in $IDS; do
  s=$(date +%s)
  out=$(timeout 2400 ./check $id --tier thorough 2>&1); rc=$?
  e=$(date +%s)
  echo "$id rc=$rc wall=$((e-s))s $(echo "$out" | grep -E '^(VIOLATION|MACHINERY|  key=)' | head -3 | cut -c1-200 | tr '\n' ' ')"
done
