#!/bin/bash
# Confirm seeded changes in a scratch worktree (never in /repo):
#   1. all demo tests, without any mutation: must pass
#   2. per id: mutation + all demos: the touched crate's full test suite must fail ONLY in that id's demo
# usage: confirm_seeded.sh <outdir-with-<ID>/patch.diff,demo.diff> <ID>...
# results: <outdir>/<ID>/confirm.json
set -u
SRC="$1"; shift
IDS="$@"
WT=/tmp/wt_confirm
export RUSTUP_TOOLCHAIN=1.96.0 CARGO_NET_OFFLINE=true
if [ ! -d "$WT" ]; then
  git -C /repo worktree add --detach "$WT" HEAD >/dev/null 2>&1 || exit 2
  cp -a /repo/target "$WT/target"
fi
cd "$WT" || exit 2
git checkout -q --detach "$(git -C /repo rev-parse HEAD)" 2>/dev/null
git checkout -q -- . ; git clean -fdq -e target
crate_of() { # crate(s) touched by a diff
  grep '^diff --git' "$1" | sed -E 's#diff --git a/([^ ]+) .*#\1#' | while read f; do
    case "$f" in
      server/lib/*) echo kanidmd_lib;; server/core/*) echo kanidmd_core;; proto/*) echo kanidm_proto;;
      libs/crypto/*) echo kanidm_lib_crypto;; libs/actors/*) echo kanidm_actors;; libs/scim_proto/*) echo scim_proto;;
      unix_integration/pam_sparkle_common/*) echo pam_sparkle_common;; unix_integration/common/*) echo kanidm_unix_common;;
      unix_integration/resolver_common/*) echo kanidm_unix_resolver_common;; rlm_kanidm/module/*) echo rlm_kanidm_module;;
      rlm_kanidm/shared/*) echo rlm_kanidm_shared;; *) echo UNKNOWN:$f;;
    esac
  done | sort -u
}
# step 1: all demos on the clean tree
for id in $IDS; do git apply "$SRC/$id/demo.diff" || { echo "demo for $id does not apply"; exit 2; }; done
for id in $IDS; do
  crates="$(crate_of "$SRC/$id/patch.diff"; crate_of "$SRC/$id/demo.diff")"
  echo "$id: $crates" | tr '\n' ' '; echo
done
ALLCRATES=$(for id in $IDS; do crate_of "$SRC/$id/patch.diff"; crate_of "$SRC/$id/demo.diff"; done | sort -u | grep -v UNKNOWN)
PARGS=$(for c in $ALLCRATES; do printf -- "-p %s " "$c"; done)
nice -n 10 cargo nextest run $PARGS --offline --no-fail-fast --test-threads 6 -j 6 > "$SRC/_clean_with_demos.log" 2>&1
CLEAN_FAILS=$(grep -E '^\s+FAIL ' "$SRC/_clean_with_demos.log" | sed -E 's/^\s+FAIL \[[^]]*\] *(\([^)]*\))? *//' | sort -u)
echo "clean+demos failures: [$CLEAN_FAILS]"
# step 2: per mutation
for id in $IDS; do
  git apply "$SRC/$id/patch.diff" || { echo "{\"id\":\"$id\",\"ok\":false,\"why\":\"patch does not apply\"}" > "$SRC/$id/confirm.json"; continue; }
  crates="$(crate_of "$SRC/$id/patch.diff"; crate_of "$SRC/$id/demo.diff" | sort -u)"
  pargs=$(for c in $(echo "$crates" | sort -u | grep -v UNKNOWN); do printf -- "-p %s " "$c"; done)
  nice -n 10 cargo nextest run $pargs --offline --no-fail-fast --test-threads 6 -j 6 > "$SRC/$id/confirm_mut.log" 2>&1
  fails=$(grep -E '^\s+FAIL ' "$SRC/$id/confirm_mut.log" | sed -E 's/^\s+FAIL \[[^]]*\] *(\([^)]*\))? *//' | sort -u | tr '\n' ';')
  summary=$(grep -E 'Summary' "$SRC/$id/confirm_mut.log" | tail -1)
  builderr=$(grep -c '^error' "$SRC/$id/confirm_mut.log")
  python3 - "$id" "$fails" "$summary" "$builderr" "$CLEAN_FAILS" > "$SRC/$id/confirm.json" <<'PY'
import sys,json
id,fails,summary,builderr,clean=sys.argv[1:6]
print(json.dumps({"id":id,"failing_tests_with_mutation":[f for f in fails.split(';') if f],"summary":summary.strip(),"build_errors":int(builderr),"failing_tests_on_clean_tree_with_all_demos":[c for c in clean.split('\n') if c]},indent=1))
PY
  git apply -R "$SRC/$id/patch.diff"
done
git checkout -q -- . ; git clean -fdq -e target
echo CONFIRM-DONE
