#!/bin/bash
# Run the repository's own test suite on /repo's HEAD + working-tree diff, in a scratch worktree
# (/tmp/wt_test, own target dir) so that /repo itself stays free for the harness builds.
# usage: run_suite.sh [-p crate ...]   (no args = whole workspace, the BASELINE command)
set -u
export RUSTUP_TOOLCHAIN=1.96.0 CARGO_NET_OFFLINE=true
WT=/tmp/wt_test
if [ ! -d "$WT" ]; then
  git -C /repo worktree add --detach "$WT" HEAD >/dev/null 2>&1 || exit 2
  cp -a /repo/target "$WT/target"
fi
git -C /repo diff HEAD > /tmp/wt_test.patch
cd "$WT" || exit 2
git checkout -q -- . ; git clean -fdq -e target
git checkout -q --detach "$(git -C /repo rev-parse HEAD)" || exit 2
if [ -s /tmp/wt_test.patch ]; then git apply /tmp/wt_test.patch || exit 2; fi
if [ $# -eq 0 ]; then set -- --workspace; fi
cargo nextest run "$@" --no-fail-fast --tool-config-file pb:/w/lib/nextest.toml --profile pb --test-threads 8 --offline 2>&1 | tail -40
