#!/bin/bash
# Evaluate seeded changes against the checks WITHOUT touching /repo: a scratch worktree of /repo
# (HEAD + the seeded patch) and a scratch copy of the harness that depends on that worktree.
# (The documented way - git -C /repo apply, ./check, git checkout - is tools/try_seed.sh; this
# script is the bulk variant that can run while /repo is in use.)
# usage: seed_eval.sh <srcdir> <tier> <ID>[:<check>[,<check>...]] ...
#   result: <srcdir>/<ID>/eval.json
set -u
SRC="$1"; TIER="$2"; shift 2
ROOT=/tmp/seedrun
export RUSTUP_TOOLCHAIN=1.96.0 CARGO_NET_OFFLINE=true
mkdir -p $ROOT/verif
if [ ! -d $ROOT/repo ]; then git -C /repo worktree add --detach $ROOT/repo HEAD >/dev/null 2>&1 || exit 2; fi
for spec in "$@"; do
  HEAD=$(git -C /repo rev-parse HEAD)
  ID=${spec%%:*}; CHECKS=${spec#*:}; [ "$CHECKS" = "$spec" ] && CHECKS=$ID
  ( cd $ROOT/repo && git checkout -q -- . && git clean -fdq && git checkout -q --detach $HEAD ) || exit 2
  if ! git -C $ROOT/repo apply "$SRC/$ID/patch.diff"; then echo "$ID PATCH-DOES-NOT-APPLY"; continue; fi
  # harness sources (never the build output), path dependencies redirected to the worktree
  rsync -a --delete --exclude target --exclude Cargo.lock /verif/harness/ $ROOT/harness/
  sed -i "s#\"/repo/#\"$ROOT/repo/#g" $ROOT/harness/*/Cargo.toml $(grep -rl "\"/repo/" $ROOT/harness/kv-core/src $ROOT/harness/kv-engine/src)
  [ -f $ROOT/harness/Cargo.lock ] || cp /repo/Cargo.lock $ROOT/harness/Cargo.lock
  rsync -a /verif/known_findings.json /verif/properties.jsonl /verif/oracles $ROOT/verif/
  if ! ( cd $ROOT/harness && nice -n 10 cargo build --release --offline -p kv-core > $ROOT/build.log 2>&1 ); then
    echo "$ID BUILD-FAILED"; tail -5 $ROOT/build.log; continue
  fi
  res="["
  for c in ${CHECKS//,/ }; do
    out=$(cd $ROOT/verif && VERIF_DIR=$ROOT/verif timeout 3600 $ROOT/harness/target/release/kv-core "$c" --tier "$TIER" 2>&1); rc=$?
    keys=$(echo "$out" | grep -E "^  key=" | sed 's/^  key=\([^ ]*\).*/\1/' | head -5 | tr '\n' ' ')
    echo "$ID $c tier=$TIER rc=$rc keys=[$keys]"
    res="$res{\"check\":\"$c\",\"tier\":\"$TIER\",\"exit\":$rc,\"keys\":\"$keys\"},"
  done
  res="${res%,}]"
  echo "{\"id\":\"$ID\",\"repo_head\":\"$HEAD\",\"results\":$res}" > "$SRC/$ID/eval_$TIER.json"
done
( cd $ROOT/repo && git checkout -q -- . && git clean -fdq )
