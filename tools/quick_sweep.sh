#!/bin/bash
# Run the quick tier of every claimed check one after the other; record exit code and wall time.
cd /verif || exit 2
IDS="$@"
[ -z "$IDS" ] && IDS=$(python3 -c "import json;print(' '.join(c['property_id'] for c in json.load(open('/verif/MANIFEST.json'))['checks']))")
for id in $IDS; do
  s=$(date +%s.%N)
  out=$(timeout 900 ./check $id --tier quick 2>&1); rc=$?
  e=$(date +%s.%N)
  echo "$id rc=$rc wall=$(python3 -c "print(round($e-$s,1))")s $(echo "$out" | grep -E '^(VIOLATION|MACHINERY|KNOWN-FINDING|  key=)' | head -3 | cut -c1-160 | tr '\n' ' ')"
done
