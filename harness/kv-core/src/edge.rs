//! Client-side resolver fixtures (C44 / C45): a real `Resolver` with a real `KanidmProvider`
//! (software TPM, its own machine key, its own cache database), talking over a real TCP
//! connection to a scripted identity server that speaks just enough of the HTTP API
//! (`/v1/self`, `/v1/account/{id}/_unix/_token`, `/v1/account/{id}/_unix/_auth`).

use kanidm_client::KanidmClientBuilder;
use kanidm_hsm_crypto::{
    provider::{BoxedDynTpm, SoftTpm, Tpm},
    AuthValue,
};
use kanidm_proto::v1::{UnixGroupToken, UnixUserToken};
use sparkle_resolver_common::db::{Cache, Db};
use sparkle_resolver_common::idprovider::interface::{Id, IdProvider, UserToken};
use sparkle_resolver_common::idprovider::kanidm::KanidmProvider;
use sparkle_resolver_common::idprovider::system::SystemProvider;
use sparkle_resolver_common::resolver::Resolver;
use sparkle_unix_common::constants::{DEFAULT_CACHE_TIMEOUT, DEFAULT_GID_ATTR_MAP, DEFAULT_HOME_ALIAS, DEFAULT_HOME_ATTR, DEFAULT_HOME_PREFIX, DEFAULT_SHELL, DEFAULT_UID_ATTR_MAP};
use sparkle_unix_common::unix_config::KanidmConfig;
use std::io::{Read, Write};
use std::net::{TcpListener, TcpStream};
use std::sync::{Arc, Mutex};
use std::time::SystemTime;
use uuid::Uuid;

pub const USER: &str = "tuser";

pub fn group(i: u128, name: &str) -> UnixGroupToken {
    UnixGroupToken { name: name.to_string(), spn: format!("{name}@example.com"), uuid: Uuid::from_u128(0x4500_0000_0000_0000_0000_0000_0000_1000 + i), gidnumber: 30000 + i as u32 }
}

pub fn user_token(groups: Vec<UnixGroupToken>, valid: bool) -> UnixUserToken {
    UnixUserToken {
        name: USER.to_string(),
        spn: format!("{USER}@example.com"),
        displayname: "Test User".to_string(),
        gidnumber: 20001,
        uuid: Uuid::from_u128(0x4500_0000_0000_0000_0000_0000_0000_0001),
        shell: None,
        groups,
        sshkeys: vec![],
        valid,
    }
}

/// what the scripted identity server currently is
pub struct PeerState {
    /// false: every connection is dropped without an answer
    pub up: bool,
    pub password: String,
    pub token: Option<UnixUserToken>,
    /// request lines seen, in order
    pub log: Vec<String>,
}

pub struct Peer {
    pub addr: String,
    pub state: Arc<Mutex<PeerState>>,
}

/// the version the client expects the server to announce: the workspace version of /repo
fn server_version() -> &'static str {
    static V: std::sync::OnceLock<String> = std::sync::OnceLock::new();
    V.get_or_init(|| {
        let t = std::fs::read_to_string("/repo/Cargo.toml").unwrap_or_default();
        t.split("[workspace.package]").nth(1).and_then(|r| r.lines().find_map(|l| l.trim().strip_prefix("version = \"").map(|v| v.trim_end_matches('"').to_string()))).unwrap_or_default()
    })
}

fn respond(s: &mut TcpStream, status: &str, body: &str) {
    let _ = write!(s, "HTTP/1.1 {status}\r\ncontent-type: application/json\r\ncontent-length: {}\r\nconnection: close\r\nx-kanidm-version: {}\r\nx-kanidm-opid: 00000000-0000-0000-0000-000000000000\r\n\r\n{body}", body.len(), server_version());
    let _ = s.flush();
}

fn serve(mut s: TcpStream, state: &Arc<Mutex<PeerState>>) {
    let _ = s.set_read_timeout(Some(std::time::Duration::from_secs(5)));
    let mut buf = Vec::new();
    let mut tmp = [0u8; 4096];
    let (head_end, clen) = loop {
        match s.read(&mut tmp) {
            Ok(0) | Err(_) => return,
            Ok(n) => buf.extend_from_slice(&tmp[..n]),
        }
        if let Some(p) = buf.windows(4).position(|w| w == b"\r\n\r\n") {
            let head = String::from_utf8_lossy(&buf[..p]).to_string();
            let clen = head.lines().find_map(|l| l.to_ascii_lowercase().strip_prefix("content-length:").map(|v| v.trim().parse::<usize>().unwrap_or(0))).unwrap_or(0);
            break (p + 4, clen);
        }
    };
    while buf.len() < head_end + clen {
        match s.read(&mut tmp) {
            Ok(0) | Err(_) => return,
            Ok(n) => buf.extend_from_slice(&tmp[..n]),
        }
    }
    let head = String::from_utf8_lossy(&buf[..head_end]).to_string();
    let body = String::from_utf8_lossy(&buf[head_end..head_end + clen]).to_string();
    let line = head.lines().next().unwrap_or("").to_string();
    let mut st = state.lock().unwrap();
    if !st.up {
        st.log.push(format!("DROPPED {line}"));
        return;
    }
    st.log.push(line.clone());
    let mut parts = line.split(' ');
    let method = parts.next().unwrap_or("");
    let path = parts.next().unwrap_or("");
    if method == "GET" && path == "/v1/self" {
        respond(&mut s, "200 OK", "{\"youare\":{\"attrs\":{}}}");
    } else if method == "GET" && path.ends_with("/_unix/_token") {
        let id = path.trim_start_matches("/v1/account/").trim_end_matches("/_unix/_token");
        match st.token.as_ref().filter(|t| t.name == id || t.spn == id || t.uuid.to_string() == id || t.gidnumber.to_string() == id) {
            Some(t) => respond(&mut s, "200 OK", &serde_json::to_string(t).unwrap_or_default()),
            None => respond(&mut s, "404 Not Found", "\"nomatchingentries\""),
        }
    } else if method == "POST" && path.ends_with("/_unix/_auth") {
        let cred = serde_json::from_str::<serde_json::Value>(&body).ok().and_then(|v| v["value"].as_str().map(|s| s.to_string())).unwrap_or_default();
        match st.token.clone() {
            Some(t) if t.valid && cred == st.password => {
                st.log.push(format!("AUTH-OK {cred}"));
                respond(&mut s, "200 OK", &serde_json::to_string(&t).unwrap_or_default())
            }
            _ => {
                st.log.push(format!("AUTH-NO {cred}"));
                respond(&mut s, "200 OK", "null")
            }
        }
    } else {
        respond(&mut s, "404 Not Found", "\"nomatchingentries\"");
    }
}

impl Peer {
    pub fn start(password: &str, token: Option<UnixUserToken>) -> Result<Peer, String> {
        let l = TcpListener::bind("127.0.0.1:0").map_err(|e| format!("bind: {e}"))?;
        let addr = format!("http://{}", l.local_addr().map_err(|e| format!("{e}"))?);
        let state = Arc::new(Mutex::new(PeerState { up: true, password: password.to_string(), token, log: vec![] }));
        let st = state.clone();
        std::thread::spawn(move || {
            for c in l.incoming() {
                match c {
                    Ok(s) => serve(s, &st),
                    Err(_) => break,
                }
            }
        });
        Ok(Peer { addr, state })
    }
    pub fn with<T>(&self, f: impl FnOnce(&mut PeerState) -> T) -> T {
        f(&mut self.state.lock().unwrap())
    }
    pub fn log_len(&self) -> usize {
        self.with(|s| s.log.len())
    }
    pub fn log_since(&self, n: usize) -> Vec<String> {
        self.with(|s| s.log[n..].to_vec())
    }
}

pub fn client(addr: &str) -> Result<kanidm_client::KanidmClient, String> {
    KanidmClientBuilder::new().address(addr.to_string()).enable_native_ca_roots(false).no_proxy().connect_timeout(15).request_timeout(15).build().map_err(|e| format!("client: {e:?}"))
}

pub struct Hsm {
    pub hsm: BoxedDynTpm,
    pub machine_key: kanidm_hsm_crypto::structures::StorageKey,
}

pub fn new_hsm() -> Result<Hsm, String> {
    let mut hsm = BoxedDynTpm::new(SoftTpm::default());
    let auth_value = AuthValue::ephemeral().map_err(|e| format!("{e:?}"))?;
    let lk = hsm.root_storage_key_create(&auth_value).map_err(|e| format!("{e:?}"))?;
    let machine_key = hsm.root_storage_key_load(&auth_value, &lk).map_err(|e| format!("{e:?}"))?;
    Ok(Hsm { hsm, machine_key })
}

pub fn config(allowed: &[String]) -> KanidmConfig {
    KanidmConfig { conn_timeout: 2, request_timeout: 2, pam_allowed_login_groups: allowed.to_vec(), map_group: vec![], service_account_token: Some("scripted-peer-token".to_string()) }
}

/// a provider alone (C45 part A): returns it with the TPM it was made with
pub async fn provider(addr: &str, allowed: &[String]) -> Result<(KanidmProvider, Hsm), String> {
    let db = Db::new("").map_err(|e| format!("db: {e:?}"))?;
    let mut txn = db.write().await;
    txn.migrate().map_err(|e| format!("migrate: {e:?}"))?;
    let mut h = new_hsm()?;
    let p = KanidmProvider::new(client(addr)?, &config(allowed), SystemTime::now(), &mut (&mut txn).into(), &mut h.hsm, &h.machine_key).await.map_err(|e| format!("provider: {e:?}"))?;
    txn.commit().map_err(|e| format!("commit: {e:?}"))?;
    Ok((p, h))
}

/// one machine: resolver + provider + software TPM with its own machine key + cache database
pub struct Machine {
    pub resolver: Resolver,
    #[allow(dead_code)]
    pub db_path: String,
    _rx: tokio::sync::mpsc::Receiver<Id>,
}

pub async fn machine(db_path: &str, addr: &str, allowed: &[String]) -> Result<Machine, String> {
    let db = Db::new(db_path).map_err(|e| format!("db: {e:?}"))?;
    let mut txn = db.write().await;
    txn.migrate().map_err(|e| format!("migrate: {e:?}"))?;
    let mut h = new_hsm()?;
    let p = KanidmProvider::new(client(addr)?, &config(allowed), SystemTime::now(), &mut (&mut txn).into(), &mut h.hsm, &h.machine_key).await.map_err(|e| format!("provider: {e:?}"))?;
    txn.commit().map_err(|e| format!("commit: {e:?}"))?;
    let sys = SystemProvider::new().map_err(|e| format!("system provider: {e:?}"))?;
    let providers: Vec<Arc<dyn IdProvider + Sync + Send>> = vec![Arc::new(p)];
    let (resolver, rx) = Resolver::new(db, Arc::new(sys), providers, h.hsm, DEFAULT_CACHE_TIMEOUT, DEFAULT_SHELL.to_string(), DEFAULT_HOME_PREFIX.into(), DEFAULT_HOME_ATTR, DEFAULT_HOME_ALIAS, DEFAULT_UID_ATTR_MAP, DEFAULT_GID_ATTR_MAP)
        .await
        .map_err(|_| "resolver".to_string())?;
    Ok(Machine { resolver, db_path: db_path.to_string(), _rx: rx })
}

/// the cached record of the user in a machine's database, read through a second handle
pub async fn cached_row(db_path: &str) -> Result<Option<(UserToken, u64)>, String> {
    let db = Db::new(db_path).map_err(|e| format!("db: {e:?}"))?;
    let mut txn = db.write().await;
    let r = txn.get_account(&Id::Name(USER.to_string())).map_err(|e| format!("get_account: {e:?}"))?;
    txn.commit().map_err(|e| format!("commit: {e:?}"))?;
    Ok(r)
}

pub async fn plant_row(db_path: &str, tok: &UserToken, expire: u64) -> Result<(), String> {
    let db = Db::new(db_path).map_err(|e| format!("db: {e:?}"))?;
    let mut txn = db.write().await;
    // as the resolver does it: the groups first, then the account that refers to them
    for g in &tok.groups {
        txn.update_group(g, expire).map_err(|e| format!("update_group: {e:?}"))?;
    }
    txn.update_account(tok, expire).map_err(|e| format!("update_account: {e:?}"))?;
    txn.commit().map_err(|e| format!("commit: {e:?}"))?;
    Ok(())
}
