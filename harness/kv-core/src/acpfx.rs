//! Access-control fixtures: building access control profile entries, identities with a chosen
//! scope, and user-level (access-checked) requests, through public APIs only.

use kanidm_proto::internal::Filter as ProtoFilter;
use kanidmd_lib::schema::SchemaTransaction;
use kanidmd_lib::entry::{Entry, EntryInit, EntryNew};
use kanidmd_lib::prelude::*;

#[derive(Clone, Debug, Default)]
pub struct Acp {
    pub name: String,
    pub uuid: Uuid,
    pub receiver_group: Uuid,
    pub target: Option<ProtoFilter>,
    pub search_attrs: Vec<Attribute>,
    pub modify_present_attrs: Vec<Attribute>,
    pub modify_removed_attrs: Vec<Attribute>,
    pub modify_present_classes: Vec<String>,
    pub modify_remove_classes: Vec<String>,
    pub create_attrs: Vec<Attribute>,
    pub create_classes: Vec<String>,
    pub delete: bool,
}

impl Acp {
    pub fn kinds(&self) -> (bool, bool, bool, bool) {
        (
            !self.search_attrs.is_empty(),
            !self.modify_present_attrs.is_empty() || !self.modify_removed_attrs.is_empty() || !self.modify_present_classes.is_empty() || !self.modify_remove_classes.is_empty(),
            !self.create_attrs.is_empty() || !self.create_classes.is_empty(),
            self.delete,
        )
    }

    pub fn to_entry(&self) -> Entry<EntryInit, EntryNew> {
        let mut e: Entry<EntryInit, EntryNew> = Entry::new();
        let (s, m, c, d) = self.kinds();
        e.add_ava(Attribute::Class, EntryClass::Object.to_value());
        e.add_ava(Attribute::Class, EntryClass::AccessControlProfile.to_value());
        if s {
            e.add_ava(Attribute::Class, EntryClass::AccessControlSearch.to_value());
        }
        if m {
            e.add_ava(Attribute::Class, EntryClass::AccessControlModify.to_value());
        }
        if c {
            e.add_ava(Attribute::Class, EntryClass::AccessControlCreate.to_value());
        }
        if d {
            e.add_ava(Attribute::Class, EntryClass::AccessControlDelete.to_value());
        }
        e.add_ava(Attribute::Name, Value::new_iname(&self.name));
        e.add_ava(Attribute::Uuid, Value::Uuid(self.uuid));
        e.add_ava(Attribute::Description, Value::new_utf8s("harness generated profile"));
        e.add_ava(Attribute::Class, EntryClass::AccessControlReceiverGroup.to_value());
        e.add_ava(Attribute::AcpReceiverGroup, Value::Refer(self.receiver_group));
        e.add_ava(Attribute::Class, EntryClass::AccessControlTargetScope.to_value());
        let target = self.target.clone().unwrap_or(ProtoFilter::Pres(Attribute::Class.to_string()));
        e.add_ava(Attribute::AcpTargetScope, Value::JsonFilt(target));
        for a in &self.search_attrs {
            e.add_ava(Attribute::AcpSearchAttr, Value::from(a.clone()));
        }
        for a in &self.modify_present_attrs {
            e.add_ava(Attribute::AcpModifyPresentAttr, Value::from(a.clone()));
        }
        for a in &self.modify_removed_attrs {
            e.add_ava(Attribute::AcpModifyRemovedAttr, Value::from(a.clone()));
        }
        for c in &self.modify_present_classes {
            e.add_ava(Attribute::AcpModifyPresentClass, Value::new_iutf8(c));
        }
        for c in &self.modify_remove_classes {
            e.add_ava(Attribute::AcpModifyRemoveClass, Value::new_iutf8(c));
        }
        for a in &self.create_attrs {
            e.add_ava(Attribute::AcpCreateAttr, Value::from(a.clone()));
        }
        for c in &self.create_classes {
            e.add_ava(Attribute::AcpCreateClass, Value::new_iutf8(c));
        }
        e
    }
}

pub fn group_entry(name: &str, uuid: Uuid, members: &[Uuid]) -> Entry<EntryInit, EntryNew> {
    let mut e: Entry<EntryInit, EntryNew> = Entry::new();
    e.add_ava(Attribute::Class, EntryClass::Object.to_value());
    e.add_ava(Attribute::Class, EntryClass::Group.to_value());
    e.add_ava(Attribute::Name, Value::new_iname(name));
    e.add_ava(Attribute::Uuid, Value::Uuid(uuid));
    for m in members {
        e.add_ava(Attribute::Member, Value::Refer(*m));
    }
    e
}

/// Every attribute name known to the schema in force (for "grant everything" profiles).
pub fn all_attributes(w: &mut QueryServerWriteTransaction<'_>) -> Vec<Attribute> {
    w.get_schema().get_attributes().keys().cloned().collect()
}

pub fn all_classes(w: &mut QueryServerWriteTransaction<'_>) -> Vec<String> {
    w.get_schema().get_classes().keys().map(|k| k.to_string()).collect()
}

/// identity of a stored account entry with the given scope
pub fn ident_of(w: &mut QueryServerWriteTransaction<'_>, uuid: Uuid, scope: AccessScope) -> Result<Identity, OperationError> {
    let e = w.internal_search_uuid(uuid)?;
    Ok(Identity::from_impersonate_entry_readwrite(e).project_with_scope(scope))
}
