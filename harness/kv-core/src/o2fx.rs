//! OAuth2 fixture: clients in several configurations, users by group membership, real logins.

use crate::idmfx::{person_entry, person_uuid, Idm, PW_GOOD};
use crate::srv;
use base64::Engine;
use kanidm_proto::oauth2::{AuthorisationRequest, CodeChallengeMethod, PkceRequest, ResponseType};
use kanidmd_lib::entry::{Entry, EntryInit, EntryNew};
use kanidmd_lib::prelude::*;
use sha2::{Digest, Sha256};
use std::collections::BTreeSet;

pub const G_MAIN: u128 = 0x0a20_0000_0000_4000_8000_0000_0000_0001;
pub const G_EXTRA: u128 = 0x0a20_0000_0000_4000_8000_0000_0000_0002;
pub const G_SUP: u128 = 0x0a20_0000_0000_4000_8000_0000_0000_0003;

#[derive(Clone, Debug)]
pub struct Client {
    pub name: String,
    pub uuid: Uuid,
    pub public: bool,
    pub allow_localhost: bool,
    pub pkce_disabled: bool,
    /// G_MAIN -> these scopes
    pub main_scopes: Vec<&'static str>,
    /// G_EXTRA -> {groups} when true
    pub extra_map: bool,
    /// supplementary: G_SUP -> {supplement}
    pub sup_map: bool,
    pub redirects: Vec<&'static str>,
    pub consent_prompt: bool,
    /// also sign with RS256 (the client's "legacy crypto" switch)
    pub legacy_crypto: bool,
}

pub const VERIFIER: &str = "dBjftJeZ4CVP-mB92K27uhbUJU1p1r_wW1gFWFOEjXk";
pub const OTHER_VERIFIER: &str = "another-verifier-another-verifier-another-verifier";

pub fn challenge_of(verifier: &str) -> Vec<u8> {
    let mut h = Sha256::new();
    h.update(verifier.as_bytes());
    h.finalize().to_vec()
}

pub fn b64(v: &[u8]) -> String {
    base64::engine::general_purpose::STANDARD.encode(v)
}

impl Client {
    pub fn to_entry(&self) -> Entry<EntryInit, EntryNew> {
        let mut e: Entry<EntryInit, EntryNew> = Entry::new();
        e.add_ava(Attribute::Class, EntryClass::Object.to_value());
        e.add_ava(Attribute::Class, EntryClass::Account.to_value());
        e.add_ava(Attribute::Class, EntryClass::OAuth2ResourceServer.to_value());
        e.add_ava(Attribute::Class, if self.public { EntryClass::OAuth2ResourceServerPublic.to_value() } else { EntryClass::OAuth2ResourceServerBasic.to_value() });
        e.add_ava(Attribute::Uuid, Value::Uuid(self.uuid));
        e.add_ava(Attribute::Name, Value::new_iname(&self.name));
        e.add_ava(Attribute::DisplayName, Value::new_utf8s(&self.name));
        if let Some(u) = Value::new_url_s("https://demo.example.com") {
            e.add_ava(Attribute::OAuth2RsOriginLanding, u);
        }
        for r in &self.redirects {
            if let Some(u) = Value::new_url_s(r) {
                e.add_ava(Attribute::OAuth2RsOrigin, u);
            }
        }
        if !self.main_scopes.is_empty() {
            if let Some(v) = Value::new_oauthscopemap(Uuid::from_u128(G_MAIN), self.main_scopes.iter().map(|s| s.to_string()).collect()) {
                e.add_ava(Attribute::OAuth2RsScopeMap, v);
            }
        }
        if self.extra_map {
            if let Some(v) = Value::new_oauthscopemap(Uuid::from_u128(G_EXTRA), ["groups".to_string()].into_iter().collect()) {
                e.add_ava(Attribute::OAuth2RsScopeMap, v);
            }
        }
        if self.sup_map {
            if let Some(v) = Value::new_oauthscopemap(Uuid::from_u128(G_SUP), ["supplement".to_string()].into_iter().collect()) {
                e.add_ava(Attribute::OAuth2RsSupScopeMap, v);
            }
        }
        if self.legacy_crypto {
            e.add_ava(Attribute::OAuth2JwtLegacyCryptoEnable, Value::new_bool(true));
        }
        if self.public {
            e.add_ava(Attribute::OAuth2AllowLocalhostRedirect, Value::new_bool(self.allow_localhost));
        } else {
            e.add_ava(Attribute::OAuth2AllowInsecureClientDisablePkce, Value::new_bool(self.pkce_disabled));
            if !self.consent_prompt {
                e.add_ava(Attribute::OAuth2ConsentPromptEnable, Value::new_bool(false));
            }
        }
        e
    }

    /// the scopes a user with these memberships holds through the client's scope maps
    pub fn held(&self, in_main: bool, in_extra: bool) -> BTreeSet<String> {
        let mut s = BTreeSet::new();
        if in_main {
            s.extend(self.main_scopes.iter().map(|x| x.to_string()));
        }
        if in_extra && self.extra_map {
            s.insert("groups".to_string());
        }
        s
    }
}

/// users: index bit0 = member of G_MAIN, bit1 = member of G_EXTRA, bit2 = member of G_SUP
pub fn user_name(i: usize) -> String {
    format!("user{i}")
}

pub fn build(clients: &[Client], nusers: usize) -> Result<Idm, String> {
    let idm = Idm::new();
    let mut ents = Vec::new();
    for i in 0..nusers {
        ents.push(person_entry(&user_name(i), person_uuid(i)));
    }
    let members = |bit: usize| -> Vec<Uuid> { (0..nusers).filter(|i| i & bit != 0).map(person_uuid).collect() };
    ents.push(crate::acpfx::group_entry("o2main", Uuid::from_u128(G_MAIN), &members(1)));
    ents.push(crate::acpfx::group_entry("o2extra", Uuid::from_u128(G_EXTRA), &members(2)));
    ents.push(crate::acpfx::group_entry("o2sup", Uuid::from_u128(G_SUP), &members(4)));
    for c in clients {
        ents.push(c.to_entry());
    }
    idm.write(srv::t(10), |w| w.qs_write.internal_create(ents)).map_err(|e| format!("oauth2 fixture: {e:?}"))?;
    for i in 0..nusers {
        idm.set_primary(srv::t(20 + i as u64), person_uuid(i), PW_GOOD, false).map_err(|e| format!("password {i}: {e:?}"))?;
    }
    Ok(idm)
}

pub fn basic_secret(idm: &Idm, c: &Client) -> Option<String> {
    idm.entry(c.uuid).and_then(|e| e.get_ava_single_secret(Attribute::OAuth2RsBasicSecret).map(|s| s.to_string()))
}

#[derive(Clone, Copy, Debug, PartialEq, Eq)]
pub enum Pkce {
    Absent,
    S256,
}

pub fn auth_request(client: &str, redirect: &Url, scopes: &BTreeSet<String>, pkce: Pkce) -> AuthorisationRequest {
    AuthorisationRequest {
        response_type: ResponseType::Code,
        response_mode: None,
        client_id: client.to_string(),
        state: Some("st".to_string()),
        pkce_request: match pkce {
            Pkce::Absent => None,
            Pkce::S256 => Some(PkceRequest { code_challenge: challenge_of(VERIFIER), code_challenge_method: CodeChallengeMethod::S256 }),
        },
        redirect_uri: redirect.clone(),
        scope: scopes.clone(),
        nonce: Some("nonce".to_string()),
        oidc_ext: Default::default(),
        max_age: None,
        prompt: Default::default(),
        ui_locales: Default::default(),
        unknown_keys: Default::default(),
    }
}
