//! Shared helpers for driving a real kanidm server from the harness.
//!
//! * time is a harness counter: `T0 + n` seconds; T0 is later than the wall clock so that an
//!   accidental use of real time inside the library can never overtake harness time;
//! * servers run on in-memory SQLite unless a path is given;
//! * one current-thread tokio runtime with only the time driver (no threads, no fds), which makes
//!   the whole process image safe to `fork()` as a state snapshot.

use kanidm_proto::internal::FsType;
use kanidmd_lib::be::{Backend, BackendConfig};
use kanidmd_lib::prelude::*;
use kanidmd_lib::schema::Schema;
use std::path::Path;
use std::sync::Arc;

/// Harness epoch, seconds. 2030-03-17.
pub const T0: u64 = 1_900_000_000;

pub fn t(n: u64) -> Duration {
    Duration::from_secs(T0 + n)
}

pub fn new_rt() -> tokio::runtime::Runtime {
    tokio::runtime::Builder::new_current_thread()
        .enable_time()
        .build()
        .unwrap_or_else(|e| kv_engine::ctx::machinery_exit(&format!("tokio runtime: {e}")))
}

pub struct Srv {
    pub rt: tokio::runtime::Runtime,
    pub qs: QueryServer,
}

pub fn new_qs(path: Option<&Path>, pool: u32, level: DomainVersion, init_at: Duration, rt: &tokio::runtime::Runtime) -> Result<QueryServer, OperationError> {
    let schema_outer = Schema::new()?;
    let idxmeta = {
        let schema_txn = schema_outer.write();
        schema_txn.reload_idxmeta()
    };
    // No path = a true in-memory SQLite database (":memory:"), so that a fork()ed copy of the
    // process shares nothing with its parent (kanidm's own empty-path mode is a SQLite *temporary
    // file*, whose descriptor a forked child would share).
    let mem = Path::new(":memory:");
    let cfg = BackendConfig::new(Some(path.unwrap_or(mem)), if path.is_some() { pool } else { 1 }, FsType::Generic, Some(2048));
    let be = Backend::new(cfg, idxmeta, false)?;
    let qs = QueryServer::new(be, schema_outer, "example.com".to_string(), Duration::ZERO)?;
    rt.block_on(qs.initialise_helper(init_at, level))?;
    Ok(qs)
}

impl Srv {
    /// Fresh in-memory server at the current target domain level, initialised at `t(0)`.
    pub fn new() -> Srv {
        Self::new_at(None, 1, DOMAIN_TGT_LEVEL)
    }

    pub fn new_at(path: Option<&Path>, pool: u32, level: DomainVersion) -> Srv {
        let rt = new_rt();
        let qs = new_qs(path, pool, level, t(0), &rt)
            .unwrap_or_else(|e| kv_engine::ctx::machinery_exit(&format!("server init failed: {e:?}")));
        Srv { rt, qs }
    }

    /// Run `f` in a write transaction at time `ct`; commit iff `f` returned Ok.
    pub fn write<R>(
        &self,
        ct: Duration,
        f: impl FnOnce(&mut QueryServerWriteTransaction<'_>) -> Result<R, OperationError>,
    ) -> Result<R, OperationError> {
        self.rt.block_on(async {
            let mut w = self.qs.write(ct).await?;
            let r = f(&mut w)?;
            w.commit()?;
            Ok(r)
        })
    }

    /// Run `f` in a write transaction that is then dropped without commit.
    pub fn write_abort<R>(&self, ct: Duration, f: impl FnOnce(&mut QueryServerWriteTransaction<'_>) -> R) -> Result<R, OperationError> {
        self.rt.block_on(async {
            let mut w = self.qs.write(ct).await?;
            Ok(f(&mut w))
        })
    }

    pub fn read<R>(&self, f: impl FnOnce(&mut QueryServerReadTransaction<'_>) -> R) -> R {
        self.rt.block_on(async {
            let mut r = self
                .qs
                .read()
                .await
                .unwrap_or_else(|e| kv_engine::ctx::machinery_exit(&format!("read txn: {e:?}")));
            f(&mut r)
        })
    }
}

/// All non-builtin... helper: render an entry deterministically (attribute -> sorted proto strings).
pub fn render_entry(e: &Arc<kanidmd_lib::entry::Entry<kanidmd_lib::entry::EntrySealed, kanidmd_lib::entry::EntryCommitted>>, skip: &[Attribute]) -> String {
    let mut parts: Vec<String> = Vec::new();
    for (attr, vs) in e.get_ava_iter() {
        if skip.contains(attr) {
            continue;
        }
        let mut vals: Vec<String> = vs.to_proto_string_clone_iter().collect();
        vals.sort();
        parts.push(format!("{}={}", attr.as_str(), vals.join("|")));
    }
    parts.sort();
    parts.join(";")
}

pub fn opstr<T>(r: &Result<T, OperationError>) -> String {
    match r {
        Ok(_) => "ok".to_string(),
        Err(e) => format!("err:{e:?}"),
    }
}
