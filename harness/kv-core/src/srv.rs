//! Shared helpers for driving a real kanidm server from the harness.
