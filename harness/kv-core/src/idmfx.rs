//! IDM fixture: a real `IdmServer` on an in-memory database, the delayed-action queue pumped by
//! hand, time supplied by the harness. Safe to `fork()` (current-thread runtime, no threads).

use crate::srv::{self, new_qs, new_rt};
use compact_jwt::JwsCompact;
use kanidm_proto::v1::{AuthCredential, AuthIssueSession, AuthMech, AuthStep};
use kanidmd_lib::credential::totp::Totp;
use kanidmd_lib::entry::{Entry, EntryInit, EntryNew};
use kanidmd_lib::idm::authentication::ClientAuthInfo;
use kanidmd_lib::idm::credupdatesession::{InitCredentialUpdateEvent, MfaRegStateStatus};
use kanidmd_lib::idm::delayed::DelayedAction;
use kanidmd_lib::idm::event::{AuthEvent, AuthResult};
use kanidmd_lib::idm::server::{IdmServer, IdmServerAudit, IdmServerDelayed, IdmServerProxyReadTransaction, IdmServerProxyWriteTransaction, IdmServerTransaction};
use kanidmd_lib::idm::authentication::AuthState;
use kanidmd_lib::prelude::*;
use std::future::Future;
use std::str::FromStr;
use std::task::{Context, Poll, Waker};

pub const PW_GOOD: &str = "x7#Kp!mQ2$vL-correct-horse";
pub const PW_BAD: &str = "x7#Kp!mQ2$vL-wrong-battery";
pub const PW_NEW: &str = "Zq9&hT3@wN5^-second-staple";

pub struct Idm {
    pub rt: tokio::runtime::Runtime,
    pub idms: IdmServer,
    pub delayed: IdmServerDelayed,
    #[allow(dead_code)]
    pub audit: IdmServerAudit,
}

pub fn person_uuid(n: usize) -> Uuid {
    Uuid::from_u128(0x1d30_0000_0000_4000_8000_0000_0000_0100 + n as u128)
}

pub fn person_entry(name: &str, uuid: Uuid) -> Entry<EntryInit, EntryNew> {
    let mut e: Entry<EntryInit, EntryNew> = Entry::new();
    e.add_ava(Attribute::Class, EntryClass::Object.to_value());
    e.add_ava(Attribute::Class, EntryClass::Account.to_value());
    e.add_ava(Attribute::Class, EntryClass::Person.to_value());
    e.add_ava(Attribute::Uuid, Value::Uuid(uuid));
    e.add_ava(Attribute::Name, Value::new_iname(name));
    e.add_ava(Attribute::DisplayName, Value::new_utf8s(name));
    e
}

pub fn service_entry(name: &str, uuid: Uuid) -> Entry<EntryInit, EntryNew> {
    let mut e: Entry<EntryInit, EntryNew> = Entry::new();
    e.add_ava(Attribute::Class, EntryClass::Object.to_value());
    e.add_ava(Attribute::Class, EntryClass::Account.to_value());
    e.add_ava(Attribute::Class, EntryClass::ServiceAccount.to_value());
    e.add_ava(Attribute::Uuid, Value::Uuid(uuid));
    e.add_ava(Attribute::Name, Value::new_iname(name));
    e.add_ava(Attribute::DisplayName, Value::new_utf8s(name));
    e
}

pub struct TotpSetup {
    pub totp: Totp,
    pub backup_codes: Vec<String>,
}

impl Idm {
    pub fn new() -> Idm {
        Self::new_at(DOMAIN_TGT_LEVEL)
    }

    pub fn new_at(level: DomainVersion) -> Idm {
        let rt = new_rt();
        let qs = new_qs(None, 1, level, srv::t(0), &rt).unwrap_or_else(|e| kv_engine::ctx::machinery_exit(&format!("server init failed: {e:?}")));
        let origin = Url::from_str("https://idm.example.com").unwrap_or_else(|_| kv_engine::ctx::machinery_exit("url"));
        let (idms, delayed, audit) = rt
            .block_on(IdmServer::new(qs, &origin, true, srv::t(1)))
            .unwrap_or_else(|e| kv_engine::ctx::machinery_exit(&format!("idm init failed: {e:?}")));
        let idm = Idm { rt, idms, delayed, audit };
        // the shipped policy of idm_all_persons demands MFA; the harness needs password-only
        // accounts too, so the minimum credential type is left to each world
        let r = idm.write(srv::t(2), |w| w.qs_write.internal_modify_uuid(UUID_IDM_ALL_PERSONS, &ModifyList::new_purge(Attribute::CredentialTypeMinimum)));
        if let Err(e) = r {
            kv_engine::ctx::machinery_exit(&format!("idm fixture: cannot relax credential type minimum: {e:?}"));
        }
        idm
    }

    /// proxy write transaction at `ct`, committed iff `f` returns Ok
    pub fn write<R>(&self, ct: Duration, f: impl FnOnce(&mut IdmServerProxyWriteTransaction<'_>) -> Result<R, OperationError>) -> Result<R, OperationError> {
        self.rt.block_on(async {
            let mut w = self.idms.proxy_write(ct).await?;
            let r = f(&mut w)?;
            w.commit()?;
            Ok(r)
        })
    }

    /// proxy write transaction at `ct` that is always dropped without commit
    pub fn write_abort_result<R>(&self, ct: Duration, f: impl FnOnce(&mut IdmServerProxyWriteTransaction<'_>) -> Result<R, OperationError>) -> Result<R, OperationError> {
        self.rt.block_on(async {
            let mut w = self.idms.proxy_write(ct).await?;
            f(&mut w)
        })
    }

    pub fn read<R>(&self, f: impl FnOnce(&mut IdmServerProxyReadTransaction<'_>) -> R) -> R {
        self.rt.block_on(async {
            let mut r = self.idms.proxy_read().await.unwrap_or_else(|e| kv_engine::ctx::machinery_exit(&format!("idm read txn: {e:?}")));
            f(&mut r)
        })
    }

    /// one step of the interactive authentication protocol
    pub fn auth_step(&self, sid: Option<Uuid>, step: AuthStep, ct: Duration) -> Result<AuthResult, OperationError> {
        let ae = AuthEvent::from_message(sid, step.into())?;
        self.rt.block_on(async {
            let mut a = self.idms.auth().await?;
            let r = a.auth(&ae, ct, ClientAuthInfo::new(Source::Internal, None, None, None)).await;
            a.commit()?;
            r
        })
    }

    /// one step given as an already built event (for the credential kinds that only exist inside
    /// the server, such as the answers of an OAuth2 trust provider)
    pub fn auth_event(&self, ae: &AuthEvent, ct: Duration) -> Result<AuthResult, OperationError> {
        self.rt.block_on(async {
            let mut a = self.idms.auth().await?;
            let r = a.auth(ae, ct, ClientAuthInfo::new(Source::Internal, None, None, None)).await;
            a.commit()?;
            r
        })
    }

    /// all queued delayed actions (session records, credential upgrades, ...) applied at `ct`
    pub fn pump(&mut self, ct: Duration) -> Vec<String> {
        let mut labels = Vec::new();
        loop {
            let mut buf: Vec<DelayedAction> = Vec::with_capacity(16);
            let n = {
                let fut = self.delayed.recv_many(&mut buf);
                let mut fut = std::pin::pin!(fut);
                match fut.as_mut().poll(&mut Context::from_waker(Waker::noop())) {
                    Poll::Ready(n) => n,
                    Poll::Pending => 0,
                }
            };
            if n == 0 {
                break;
            }
            for da in buf {
                let r = self.write(ct, |w| w.process_delayedaction(&da, ct));
                labels.push(srv::opstr(&r));
            }
        }
        labels
    }

    /// drop all queued delayed actions without applying them (the session record never lands)
    pub fn discard_delayed(&mut self) -> usize {
        let mut total = 0;
        loop {
            let mut buf: Vec<DelayedAction> = Vec::with_capacity(16);
            let n = {
                let fut = self.delayed.recv_many(&mut buf);
                let mut fut = std::pin::pin!(fut);
                match fut.as_mut().poll(&mut Context::from_waker(Waker::noop())) {
                    Poll::Ready(n) => n,
                    Poll::Pending => 0,
                }
            };
            if n == 0 {
                break;
            }
            total += n;
        }
        total
    }

    pub fn entry(&self, uuid: Uuid) -> Option<std::sync::Arc<kanidmd_lib::entry::Entry<kanidmd_lib::entry::EntrySealed, kanidmd_lib::entry::EntryCommitted>>> {
        self.read(|r| r.qs_read.internal_search_uuid(uuid).ok())
    }

    pub fn create(&self, ct: Duration, e: Entry<EntryInit, EntryNew>) -> Result<(), OperationError> {
        self.write(ct, |w| w.qs_write.internal_create(vec![e]))
    }

    /// Set the primary password (and optionally TOTP + backup codes) through a real credential
    /// update session run as the account itself.
    pub fn set_primary(&self, ct: Duration, uuid: Uuid, pw: &str, with_totp: bool) -> Result<Option<TotpSetup>, OperationError> {
        let entry = self.entry(uuid).ok_or(OperationError::NoMatchingEntries)?;
        let ident = Identity::from_impersonate_entry_readwrite(entry);
        let (cust, _status) = self.write(ct, |w| w.init_credential_update(&InitCredentialUpdateEvent::new(ident, uuid), ct))?;
        let setup = self.rt.block_on(async {
            let cutxn = self.idms.cred_update_transaction().await?;
            cutxn.credential_primary_set_password(&cust, ct, pw)?;
            if !with_totp {
                return Ok::<_, OperationError>(None);
            }
            let st = cutxn.credential_primary_init_totp(&cust, ct)?;
            let totp: Totp = match st.mfaregstate() {
                MfaRegStateStatus::TotpCheck(secret) => Totp::try_from(secret.clone()).map_err(|_| OperationError::InvalidState)?,
                _ => return Err(OperationError::InvalidState),
            };
            let code = totp.do_totp_duration_from_epoch(&ct).map_err(|_| OperationError::InvalidState)?;
            cutxn.credential_primary_check_totp(&cust, ct, code, "totp")?;
            let st = cutxn.credential_primary_init_backup_codes(&cust, ct)?;
            let mut codes: Vec<String> = match st.mfaregstate() {
                MfaRegStateStatus::BackupCodes(c) => c.iter().cloned().collect(),
                _ => return Err(OperationError::InvalidState),
            };
            codes.sort();
            Ok(Some(TotpSetup { totp, backup_codes: codes }))
        })?;
        self.write(ct, |w| w.commit_credential_update(&cust, ct))?;
        Ok(setup)
    }

    /// Remove the primary credential and set a brand new password-only one, in one credential
    /// update session run as the account itself.
    pub fn replace_primary(&self, ct: Duration, uuid: Uuid, pw: &str) -> Result<(), OperationError> {
        let entry = self.entry(uuid).ok_or(OperationError::NoMatchingEntries)?;
        let ident = Identity::from_impersonate_entry_readwrite(entry);
        let (cust, _status) = self.write(ct, |w| w.init_credential_update(&InitCredentialUpdateEvent::new(ident, uuid), ct))?;
        self.rt.block_on(async {
            let cutxn = self.idms.cred_update_transaction().await?;
            cutxn.credential_primary_delete(&cust, ct)?;
            cutxn.credential_primary_set_password(&cust, ct, pw)?;
            Ok::<_, OperationError>(())
        })?;
        self.write(ct, |w| w.commit_credential_update(&cust, ct))
    }

    /// Present a bearer token; Ok(identity scope text) or Err
    pub fn present(&self, token: &JwsCompact, ct: Duration) -> Result<Identity, OperationError> {
        self.read(|r| r.validate_client_auth_info_to_ident(ClientAuthInfo::new(Source::Internal, None, Some(token.clone()), None), ct))
    }

    /// Full password login; returns the token on success.
    pub fn login_pw(&self, name: &str, pw: &str, privileged: bool, ct: Duration) -> Result<Option<JwsCompact>, OperationError> {
        let r = self.auth_step(None, AuthStep::Init2 { username: name.to_string(), issue: AuthIssueSession::Token, privileged }, ct)?;
        let sid = r.sessionid;
        if !matches!(r.state, AuthState::Choose(_)) {
            return Ok(None);
        }
        let r = self.auth_step(Some(sid), AuthStep::Begin(AuthMech::Password), ct)?;
        if !matches!(r.state, AuthState::Continue(_)) {
            return Ok(None);
        }
        let r = self.auth_step(Some(sid), AuthStep::Cred(AuthCredential::Password(pw.to_string())), ct)?;
        match r.state {
            AuthState::Success(tok, _) => Ok(Some(*tok)),
            _ => Ok(None),
        }
    }
}
