//! Backup / restore round trip oracle (C13), usable at any state of any world.

use crate::srv;
use kanidm_proto::backup::BackupCompression;
use kanidm_proto::internal::FsType;
use kanidmd_lib::be::{Backend, BackendConfig, BackendTransaction};
use kanidmd_lib::prelude::*;
use kanidmd_lib::schema::Schema;
use kanidmd_lib::verif_hooks::qs_read_verify;
use std::path::Path;

pub fn backup_bytes(r: &mut QueryServerReadTransaction<'_>, comp: BackupCompression) -> Result<Vec<u8>, String> {
    let mut buf: Vec<u8> = Vec::new();
    r.get_be_txn().backup(&mut buf, comp).map_err(|e| format!("backup: {e:?}"))?;
    Ok(buf)
}

/// everything the oracle needs from the original server, taken in one read transaction
pub struct Original {
    pub plain: Vec<u8>,
    pub gzip: Vec<u8>,
    pub answers: Vec<String>,
}

pub fn observe_original(r: &mut QueryServerReadTransaction<'_>, uuids: &[Uuid], names: &[&str]) -> Result<Original, String> {
    Ok(Original { plain: backup_bytes(r, BackupCompression::NoCompression)?, gzip: backup_bytes(r, BackupCompression::Gzip)?, answers: battery(r, uuids, names)? })
}

fn deep_sort(v: &mut serde_json::Value) {
    match v {
        serde_json::Value::Array(a) => {
            for x in a.iter_mut() {
                deep_sort(x);
            }
            a.sort_by_key(|x| x.to_string());
        }
        serde_json::Value::Object(o) => {
            for (_, x) in o.iter_mut() {
                deep_sort(x);
            }
        }
        _ => {}
    }
}

/// canonical form of an uncompressed backup: entry ids are assigned on restore and several value
/// kinds are stored from unordered collections, so every array is compared as a multiset
pub fn normalise(bytes: &[u8]) -> Result<String, String> {
    let mut v: serde_json::Value = serde_json::from_slice(bytes).map_err(|e| format!("backup is not JSON: {e}"))?;
    deep_sort(&mut v);
    Ok(v.to_string())
}

static COUNTER: std::sync::atomic::AtomicU64 = std::sync::atomic::AtomicU64::new(0);

/// a database file of our own for one restore (memory file system when there is one)
pub fn scratch_db() -> std::path::PathBuf {
    let n = COUNTER.fetch_add(1, std::sync::atomic::Ordering::SeqCst);
    let base = if Path::new("/dev/shm").is_dir() { std::path::PathBuf::from("/dev/shm") } else { std::path::PathBuf::from(std::env::var("VERIF_DIR").unwrap_or_else(|_| "/verif".into())).join("scratch") };
    let _ = std::fs::create_dir_all(&base);
    base.join(format!("kv-restore-{}-{n}.db", std::process::id()))
}

pub fn remove_db(p: &Path) {
    for suffix in ["", "-wal", "-shm"] {
        let _ = std::fs::remove_file(format!("{}{suffix}", p.display()));
    }
}

fn fresh_backend(path: &Path) -> Result<(Backend, Schema), String> {
    let schema = Schema::new().map_err(|e| format!("schema: {e:?}"))?;
    let idxmeta = {
        let s = schema.write();
        s.reload_idxmeta()
    };
    let cfg = BackendConfig::new(Some(path), 1, FsType::Generic, Some(2048));
    let be = Backend::new(cfg, idxmeta, false).map_err(|e| format!("backend: {e:?}"))?;
    Ok((be, schema))
}

/// open a backend on an existing database file (as a server start does: the replication metadata
/// is reloaded from the file and the entries) and return its uncompressed backup
pub fn reopen_backup(path: &Path) -> Result<Vec<u8>, String> {
    let (be, _schema) = fresh_backend(path)?;
    let mut r = be.read().map_err(|e| format!("be read: {e:?}"))?;
    let mut buf = Vec::new();
    r.backup(&mut buf, BackupCompression::NoCompression).map_err(|e| format!("backup of the reopened database: {e:?}"))?;
    Ok(buf)
}

/// open a bare backend on an existing database file - no query server, so none of the start-up
/// migrations (which re-index in development builds) - and report its own consistency checks and
/// a few name lookups
pub fn backend_level_check(path: &Path, names: &[&str]) -> Result<String, String> {
    let (be, _schema) = fresh_backend(path)?;
    let mut r = be.read().map_err(|e| format!("be read: {e:?}"))?;
    let mut bad: Vec<String> = r.verify().into_iter().filter_map(|x| x.err()).map(|e| format!("{e:?}")).collect();
    bad.extend(r.verify_indexes().into_iter().filter_map(|x| x.err()).map(|e| format!("{e:?}")));
    let mut out = format!("backend_verify:{}", if bad.is_empty() { "clean".to_string() } else { format!("{bad:?}") });
    for n in names {
        out.push_str(&format!("\nbackend_name_lookup:{n}={:?}", r.name2uuid(n).ok().flatten()));
    }
    Ok(out)
}

/// restore into a fresh database file the way the server's restore command does (restore,
/// commit, reindex); returns the uncompressed backup of the restored database. The backend is
/// closed afterwards: the restored server is started on the file like any server start.
pub fn restore_fresh(path: &Path, bytes: &[u8], comp: BackupCompression) -> Result<Vec<u8>, String> {
    let (be, _schema) = fresh_backend(path)?;
    {
        let mut w = be.write().map_err(|e| format!("be write: {e:?}"))?;
        w.restore(bytes, comp).map_err(|e| format!("restore refused: {e:?}"))?;
        w.commit().map_err(|e| format!("restore commit: {e:?}"))?;
    }
    {
        let mut w = be.write().map_err(|e| format!("be write: {e:?}"))?;
        w.reindex(true).map_err(|e| format!("reindex: {e:?}"))?;
        w.commit().map_err(|e| format!("reindex commit: {e:?}"))?;
    }
    let again = {
        let mut r = be.read().map_err(|e| format!("be read: {e:?}"))?;
        let mut buf = Vec::new();
        r.backup(&mut buf, BackupCompression::NoCompression).map_err(|e| format!("backup of the restored database: {e:?}"))?;
        buf
    };
    drop(be);
    Ok(again)
}

fn battery(r: &mut QueryServerReadTransaction<'_>, uuids: &[Uuid], names: &[&str]) -> Result<Vec<String>, String> {
    {
        let mut filters: Vec<(String, Filter<FilterInvalid>)> = vec![
            ("live".into(), Filter::new_ignore_hidden(f_pres(Attribute::Class))),
            ("everything".into(), Filter::new(f_pres(Attribute::Class))),
            ("recycled".into(), Filter::new_recycled(f_pres(Attribute::Class))),
            ("tombstones".into(), Filter::new(f_eq(Attribute::Class, EntryClass::Tombstone.into()))),
            ("people".into(), Filter::new_ignore_hidden(f_eq(Attribute::Class, EntryClass::Person.into()))),
            ("groups".into(), Filter::new_ignore_hidden(f_eq(Attribute::Class, EntryClass::Group.into()))),
            ("has-member".into(), Filter::new_ignore_hidden(f_pres(Attribute::Member))),
            ("has-memberof".into(), Filter::new_ignore_hidden(f_pres(Attribute::MemberOf))),
            ("accounts-not-people".into(), Filter::new_ignore_hidden(f_and(vec![f_eq(Attribute::Class, EntryClass::Account.into()), f_andnot(f_eq(Attribute::Class, EntryClass::Person.into()))]))),
        ];
        for u in uuids {
            filters.push((format!("uuid {u}"), Filter::new(f_eq(Attribute::Uuid, PartialValue::Uuid(*u)))));
            filters.push((format!("memberof {u}"), Filter::new_ignore_hidden(f_eq(Attribute::MemberOf, PartialValue::Refer(*u)))));
        }
        for n in names {
            filters.push((format!("name {n}"), Filter::new_ignore_hidden(f_eq(Attribute::Name, PartialValue::new_iname(n)))));
        }
        let mut out = Vec::new();
        for (label, f) in filters {
            let ans = match r.internal_search(f) {
                Ok(v) => {
                    let mut e: Vec<String> = v.iter().map(|e| srv::render_entry(e, &[Attribute::LastModifiedCid])).collect();
                    e.sort();
                    format!("{}:{}", e.len(), kv_engine::hash_str(&e.join("\n")))
                }
                Err(e) => format!("err:{e:?}"),
            };
            out.push(format!("{label} => {ans}"));
        }
        for n in names {
            out.push(format!("name_to_uuid {n} => {:?}", r.name_to_uuid(n).ok()));
        }
        for u in uuids {
            out.push(format!("uuid_to_spn {u} => {:?}", r.uuid_to_spn(*u).ok().flatten().map(|v| format!("{v:?}"))));
        }
        Ok(out)
    }
}

/// The oracle. `init_at` is the time at which the restored server is started.
pub fn round_trip_check(rt: &tokio::runtime::Runtime, orig: &Original, init_at: std::time::Duration, uuids: &[Uuid], names: &[&str]) -> Vec<(String, String)> {
    let mut out = Vec::new();
    let plain = &orig.plain;
    let want = match normalise(plain) {
        Ok(n) => n,
        Err(e) => return vec![("backup_unreadable".into(), e)],
    };
    let orig_answers = &orig.answers;
    for comp in [BackupCompression::NoCompression, BackupCompression::Gzip] {
        let cname = format!("{comp:?}");
        let bytes: &Vec<u8> = if comp == BackupCompression::Gzip { &orig.gzip } else { &orig.plain };
        let path = scratch_db();
        let again = match restore_fresh(&path, bytes, comp) {
            Ok(x) => x,
            Err(e) => {
                remove_db(&path);
                out.push((format!("restore_failed:{cname}"), e));
                continue;
            }
        };
        match normalise(&again) {
            Ok(got) if got == want => {}
            Ok(got) => {
                // which top-level part differs?
                let (a, b): (serde_json::Value, serde_json::Value) = (serde_json::from_str(&want).unwrap_or_default(), serde_json::from_str(&got).unwrap_or_default());
                let mut parts = Vec::new();
                for k in ["version", "db_s_uuid", "db_d_uuid", "db_ts_max", "keyhandles", "repl_meta", "entries"] {
                    if a.get(k) != b.get(k) {
                        parts.push(k);
                    }
                }
                let detail = if parts.contains(&"entries") {
                    let (ea, eb) = (a["entries"].as_array().cloned().unwrap_or_default(), b["entries"].as_array().cloned().unwrap_or_default());
                    let uuid_of = |e: &serde_json::Value| e.pointer("/ent/V3/attrs/uuid").map(|u| u.to_string()).unwrap_or_default();
                    let mut notes = Vec::new();
                    for x in ea.iter().filter(|x| !eb.contains(x)).take(3) {
                        match eb.iter().find(|y| uuid_of(y) == uuid_of(x)) {
                            Some(y) => {
                                let (ax, ay) = (x.pointer("/ent/V3/attrs").and_then(|v| v.as_object()).cloned().unwrap_or_default(), y.pointer("/ent/V3/attrs").and_then(|v| v.as_object()).cloned().unwrap_or_default());
                                let mut attrs: Vec<String> = ax.keys().chain(ay.keys()).filter(|k| ax.get(*k) != ay.get(*k)).cloned().collect();
                                attrs.sort();
                                attrs.dedup();
                                let other = if x.pointer("/ent/V3/changestate") != y.pointer("/ent/V3/changestate") { " and its change state" } else { "" };
                                let show: Vec<String> = attrs.iter().take(2).map(|k| format!("{k}: {} -> {}", ax.get(k).map(|v| v.to_string()).unwrap_or_default().chars().take(160).collect::<String>(), ay.get(k).map(|v| v.to_string()).unwrap_or_default().chars().take(160).collect::<String>())).collect();
                                notes.push(format!("entry {} differs in {attrs:?}{other} ({})", uuid_of(x), show.join("; ")));
                            }
                            None => notes.push(format!("entry {} is missing after the restore", uuid_of(x))),
                        }
                    }
                    format!("; {} entries before, {} after; {}", ea.len(), eb.len(), notes.join(" | "))
                } else {
                    format!("; original {} / restored {}", parts.iter().map(|k| a[*k].to_string().chars().take(200).collect::<String>()).collect::<Vec<_>>().join(" "), parts.iter().map(|k| b[*k].to_string().chars().take(200).collect::<String>()).collect::<Vec<_>>().join(" "))
                };
                out.push((format!("restored_database_differs:{}", parts.join("+")), format!("a backup ({cname}) restored into a fresh database and backed up again differs in {parts:?}{detail}")));
            }
            Err(e) => out.push((format!("restored_backup_unreadable:{cname}"), e)),
        }
        // restore the same backup once more, now OVER the non-empty database (a roll-back on the
        // same server), close it, and compare what a backend that opens the file finds
        if comp == BackupCompression::NoCompression {
            match restore_fresh(&path, bytes, comp).and_then(|_| reopen_backup(&path)).and_then(|b| normalise(&b)) {
                Ok(got) if got == want => {}
                Ok(got) => {
                    let (a, b): (serde_json::Value, serde_json::Value) = (serde_json::from_str(&want).unwrap_or_default(), serde_json::from_str(&got).unwrap_or_default());
                    let parts: Vec<&str> = ["version", "db_s_uuid", "db_d_uuid", "db_ts_max", "keyhandles", "repl_meta", "entries"].into_iter().filter(|k| a.get(*k) != b.get(*k)).collect();
                    let n = |v: &serde_json::Value| v.pointer("/repl_meta/V1/ruv").and_then(|x| x.as_array()).map(|x| x.len()).unwrap_or(0);
                    out.push((format!("restore_over_existing_database_differs:{}", parts.join("+")), format!("the backup restored over a non-empty database (the same one) and re-opened differs from the original in {parts:?} (replication metadata: {} change ids in the original, {} after)", n(&a), n(&b))));
                }
                Err(e) => out.push(("restore_over_existing_database_failed".into(), e)),
            }
        }
        // start a server on the restored database
        let qs2 = match srv::new_qs(Some(&path), 1, DOMAIN_TGT_LEVEL, init_at, rt) {
            Ok(q) => q,
            Err(e) => {
                remove_db(&path);
                out.push((format!("restored_server_does_not_start:{cname}"), format!("{e:?}")));
                continue;
            }
        };
        let bad: Vec<String> = rt.block_on(async {
            match qs2.read().await {
                Ok(mut r) => qs_read_verify(&mut r).into_iter().filter_map(|x| x.err()).map(|e| format!("{e:?}")).collect(),
                Err(e) => vec![format!("read: {e:?}")],
            }
        });
        if !bad.is_empty() {
            out.push((format!("restored_verify_failed:{cname}"), format!("the restored server's consistency check reports {}", bad.join(", ").chars().take(300).collect::<String>())));
        }
        let got = rt.block_on(async {
            let mut r = qs2.read().await.map_err(|e| format!("read: {e:?}"))?;
            battery(&mut r, uuids, names)
        });
        match got {
            Ok(a) if &a == orig_answers => {}
            Ok(a) => {
                let d: Vec<String> = orig_answers.iter().zip(a.iter()).filter(|(x, y)| x != y).map(|(x, y)| format!("`{x}` vs `{y}`")).take(3).collect();
                out.push((format!("restored_answers_differ:{cname}"), format!("searches answered differently by the original and by the restored server: {}", d.join("; "))));
            }
            Err(e) => out.push(("machinery:battery".into(), e)),
        }
        drop(qs2);
        remove_db(&path);
    }
    // refusal of backups from another version (uncompressed and compressed)
    if let Ok(v) = serde_json::from_slice::<serde_json::Value>(plain) {
        let variants: Vec<(&str, serde_json::Value)> = vec![
            ("another-version", {
                let mut x = v.clone();
                x["version"] = serde_json::Value::String("0.0.1-other".into());
                x
            }),
            ("empty-version", {
                let mut x = v.clone();
                x["version"] = serde_json::Value::String(String::new());
                x
            }),
            ("no-version-field", {
                let mut x = v.clone();
                if let Some(o) = x.as_object_mut() {
                    o.remove("version");
                }
                x
            }),
        ];
        for (label, doc) in variants {
            let bytes = doc.to_string().into_bytes();
            let path = scratch_db();
            let r = restore_fresh(&path, &bytes, BackupCompression::NoCompression);
            remove_db(&path);
            if r.is_ok() {
                out.push((format!("foreign_backup_accepted:{label}"), format!("a backup whose version field is `{label}` was restored instead of being refused")));
            }
        }
    }
    out
}
