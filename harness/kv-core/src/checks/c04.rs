//! C04 — failed or abandoned write transactions leave no trace.
//!
//! E4 fault enumeration on a real IdmServer over a FILE-backed database: eight kinds of write
//! transaction (entry create / modify / delete, schema attribute add, access control profile add,
//! OAuth2 client create, domain display name change, and one combined transaction) x every way
//! of not committing (a storage error injected at each storage point the transaction passes —
//! obtaining the connection, BEGIN, COMMIT —, an operation-level failure mid-transaction, dropping
//! the transaction). Every case runs in a forked child on its own copy of a template database.
//!
//! Observation (before the transaction, after the failure in the SAME process, and from a FRESH
//! server opened on the same files): every entry; the schema's attribute list; an access decision
//! that depends on the new profile; the domain display name from a read transaction and from the
//! server-wide cell; whether the OAuth2 client is configured; the change id of the next
//! transaction. Oracle: unless commit reported success, all of it equals the observation made
//! before the transaction — in memory and on disk.

use crate::acpfx::{group_entry, Acp};
use crate::idmfx::{person_entry, person_uuid, Idm};
use crate::srv::{self, new_qs, new_rt};
use kanidm_proto::internal::Filter as ProtoFilter;
use kanidmd_lib::entry::{Entry, EntryInit, EntryNew};
use kanidmd_lib::event::SearchEvent;
use kanidmd_lib::idm::server::{IdmServer, IdmServerProxyWriteTransaction};
use kanidmd_lib::prelude::*;
use kanidmd_lib::schema::SchemaTransaction;
use kanidmd_lib::verif_hooks::{set_point_handler, txn_cid};
use kv_engine::forkdfs::{fork_eval, fork_map};
use kv_engine::{Ctx, Level};
use serde_json::json;
use std::path::{Path, PathBuf};
use std::str::FromStr;
use std::sync::atomic::{AtomicU64, Ordering};
use std::sync::Arc;

const READER: usize = 0;
const TARGET: usize = 1;
const GRP: u128 = 0xfa04_0000_0000_4000_8000_0000_0000_0001;
const NEWATTR: &str = "verifnewattr";
const CLIENT: &str = "verifclient";

pub(crate) fn open(path: &Path) -> Result<Idm, String> {
    let rt = new_rt();
    let qs = new_qs(Some(path), 4, DOMAIN_TGT_LEVEL, srv::t(0), &rt).map_err(|e| format!("open qs: {e:?}"))?;
    let origin = Url::from_str("https://idm.example.com").map_err(|e| e.to_string())?;
    let (idms, delayed, audit) = rt.block_on(IdmServer::new(qs, &origin, true, srv::t(1))).map_err(|e| format!("open idm: {e:?}"))?;
    Ok(Idm { rt, idms, delayed, audit })
}

pub(crate) fn copy_db(from: &Path, to: &Path) -> Result<(), String> {
    for suffix in ["", "-wal", "-shm"] {
        let f = PathBuf::from(format!("{}{suffix}", from.display()));
        if f.exists() {
            std::fs::copy(&f, format!("{}{suffix}", to.display())).map_err(|e| format!("copy {f:?}: {e}"))?;
        }
    }
    Ok(())
}

pub(crate) fn make_template(path: &Path) -> Result<(), String> {
    let idm = open(path)?;
    idm.write(srv::t(10), |w| {
        w.qs_write.internal_create(vec![person_entry("reader", person_uuid(READER)), person_entry("target", person_uuid(TARGET)), group_entry("readers", Uuid::from_u128(GRP), &[person_uuid(READER)])])?;
        w.qs_write.internal_modify_uuid(person_uuid(TARGET), &ModifyList::new_list(vec![Modify::Present(Attribute::LegalName, Value::new_utf8s("Legal Target"))]))
    })
    .map_err(|e| format!("template population: {e:?}"))?;
    drop(idm);
    Ok(())
}

pub(crate) const TXNS: [&str; 9] = ["create entry", "modify entry", "delete entry", "add schema attribute", "add access control profile", "create oauth2 client", "change domain display name", "all of them in one transaction", "a name moves from one entry to another"];

fn oauth2_client() -> Entry<EntryInit, EntryNew> {
    let mut e: Entry<EntryInit, EntryNew> = Entry::new();
    e.add_ava(Attribute::Class, EntryClass::Object.to_value());
    e.add_ava(Attribute::Class, EntryClass::Account.to_value());
    e.add_ava(Attribute::Class, EntryClass::OAuth2ResourceServer.to_value());
    e.add_ava(Attribute::Class, EntryClass::OAuth2ResourceServerPublic.to_value());
    e.add_ava(Attribute::Name, Value::new_iname(CLIENT));
    e.add_ava(Attribute::DisplayName, Value::new_utf8s("verif client"));
    e.add_ava(Attribute::Uuid, Value::Uuid(Uuid::from_u128(GRP + 0x30)));
    e.add_ava(Attribute::OAuth2RsOriginLanding, Value::new_url_s("https://client.example.com/landing").unwrap_or_else(|| Value::new_utf8s("x")));
    e.add_ava(Attribute::OAuth2RsOrigin, Value::new_url_s("https://client.example.com/cb").unwrap_or_else(|| Value::new_utf8s("x")));
    e
}

fn schema_attr() -> Entry<EntryInit, EntryNew> {
    let mut e: Entry<EntryInit, EntryNew> = Entry::new();
    e.add_ava(Attribute::Class, EntryClass::Object.to_value());
    e.add_ava(Attribute::Class, EntryClass::AttributeType.to_value());
    e.add_ava(Attribute::AttributeName, Value::new_iutf8(NEWATTR));
    e.add_ava(Attribute::Uuid, Value::Uuid(Uuid::from_u128(GRP + 0x40)));
    e.add_ava(Attribute::Description, Value::new_utf8s("attribute added by the harness"));
    e.add_ava(Attribute::MultiValue, Value::Bool(false));
    e.add_ava(Attribute::Unique, Value::Bool(false));
    e.add_ava(Attribute::Syntax, Value::new_syntaxs("UTF8STRING").unwrap_or_else(|| Value::new_utf8s("x")));
    e
}

/// the operations of transaction kind `k`; `fail_mid` makes one of them an invalid request
pub(crate) fn apply(w: &mut IdmServerProxyWriteTransaction<'_>, k: usize, fail_mid: bool, stop_after: Option<usize>, done: &mut usize) -> Result<(), OperationError> {
    let q = &mut w.qs_write;
    let all = k == 7;
    // operation boundary: the caller may abandon the transaction after the n-th operation
    let boundary = |done: &mut usize| -> Result<(), OperationError> {
        *done += 1;
        if Some(*done) == stop_after {
            Err(OperationError::InvalidState)
        } else {
            Ok(())
        }
    };
    if k == 0 || all {
        q.internal_create(vec![person_entry("created", person_uuid(7))])?;
        boundary(done)?;
    }
    if k == 1 || all {
        q.internal_modify_uuid(person_uuid(TARGET), &ModifyList::new_purge_and_set(Attribute::DisplayName, Value::new_utf8s("modified")))?;
        boundary(done)?;
    }
    if fail_mid {
        // a schema violation in the middle of the transaction (a second value on a single-valued attribute)
        q.internal_modify_uuid(person_uuid(TARGET), &ModifyList::new_list(vec![Modify::Present(Attribute::DisplayName, Value::new_utf8s("one")), Modify::Present(Attribute::DisplayName, Value::new_utf8s("two")), Modify::Present(Attribute::Class, Value::new_iutf8("no_such_class"))]))?;
        boundary(done)?;
    }
    if k == 2 || all {
        q.internal_delete_uuid(person_uuid(READER + 0))?;
        boundary(done)?;
        // (the reader is re-created so that the access observation below stays meaningful)
        q.internal_create(vec![person_entry("reader2", person_uuid(8))])?;
        boundary(done)?;
    }
    if k == 3 || all {
        q.internal_create(vec![schema_attr()])?;
        boundary(done)?;
    }
    if k == 4 || all {
        let acp = Acp { name: "verif_read_legalname".into(), uuid: Uuid::from_u128(GRP + 0x50), receiver_group: Uuid::from_u128(GRP), target: Some(ProtoFilter::Eq("name".into(), "target".into())), search_attrs: vec![Attribute::Name, Attribute::LegalName], ..Default::default() };
        q.internal_create(vec![acp.to_entry()])?;
        boundary(done)?;
    }
    if k == 5 || all {
        q.internal_create(vec![oauth2_client()])?;
        boundary(done)?;
    }
    if k == 6 || all {
        q.set_domain_display_name("Renamed By The Harness")?;
        boundary(done)?;
    }
    if k == 8 {
        // within one transaction the name `target` leaves its entry and is taken by a new one
        q.internal_modify_uuid(person_uuid(TARGET), &ModifyList::new_purge_and_set(Attribute::Name, Value::new_iname("formerly_target")))?;
        boundary(done)?;
        q.internal_create(vec![person_entry("target", person_uuid(9))])?;
        boundary(done)?;
    }
    Ok(())
}

/// everything a reader of the server could notice
pub(crate) fn observe(idm: &Idm, with_next_cid: bool) -> String {
    let mut out = Vec::new();
    idm.read(|r| {
        let mut es: Vec<String> = r.qs_read.internal_search(Filter::new_ignore_hidden(f_pres(Attribute::Class))).unwrap_or_default().iter().map(|e| format!("{}:{}", e.get_uuid(), srv::render_entry(e, &[]))).collect();
        es.sort();
        out.push(format!("entries:{}", kv_engine::hash_str(&es.join("\n"))));
        out.push(format!("entry_count:{}", es.len()));
        if std::env::var("KV_DEBUG").is_ok() {
            for e in &es {
                out.push(format!("E:{e}"));
            }
        }
        let mut attrs: Vec<String> = r.qs_read.get_schema().get_attributes().keys().map(|a| a.to_string()).collect();
        attrs.sort();
        out.push(format!("schema_attrs:{}:{}", attrs.len(), attrs.contains(&NEWATTR.to_string())));
        // what may the reader (or its stand-in) see of the target?
        let seen = match r.qs_read.internal_search_uuid(person_uuid(READER)) {
            Ok(actor) => {
                let ident = Identity::from_impersonate_entry_readwrite(actor).project_with_scope(AccessScope::ReadOnly);
                let f = Filter::new(f_eq(Attribute::Name, PartialValue::new_iname("target")));
                match SearchEvent::from_internal_message(ident, &f, None, &mut r.qs_read).and_then(|se| r.qs_read.search_ext(&se)) {
                    Ok(v) => {
                        let mut a: Vec<String> = v.iter().flat_map(|e| e.get_ava_iter().map(|(a, _)| a.to_string()).collect::<Vec<_>>()).collect();
                        a.sort();
                        format!("{a:?}")
                    }
                    Err(e) => format!("err:{e:?}"),
                }
            }
            Err(_) => "reader-absent".into(),
        };
        out.push(format!("reader_sees:{seen}"));
        out.push(format!("display_name_txn:{}", r.qs_read.get_domain_display_name()));
        out.push(format!("name_lookup:target={:?} formerly_target={:?}", r.qs_read.name_to_uuid("target").ok(), r.qs_read.name_to_uuid("formerly_target").ok()));
        // replication metadata and the other backend-wide values, as a backup would record them
        match crate::bkp::backup_bytes(&mut r.qs_read, kanidm_proto::backup::BackupCompression::NoCompression).ok().and_then(|b| serde_json::from_slice::<serde_json::Value>(&b).ok()) {
            Some(v) => {
                let mut ruv: Vec<String> = v.pointer("/repl_meta/V1/ruv").and_then(|x| x.as_array()).map(|a| a.iter().map(|x| x.to_string()).collect()).unwrap_or_default();
                ruv.sort();
                out.push(format!("replication_metadata:{}:{}", ruv.len(), kv_engine::hash_str(&ruv.join(","))));
                out.push(format!("max_change_time:{}", v.get("db_ts_max").map(|x| x.to_string()).unwrap_or_default()));
            }
            None => out.push("replication_metadata:unreadable".into()),
        }
        out.push(format!("oauth2_client_configured:{}", r.oauth2_openid_discovery(CLIENT).is_ok()));
    });
    out.push(format!("display_name_cell:{}", idm.idms.domain_read().display_name()));
    if with_next_cid {
        // a further transaction must work and get a larger change id than anything stored
        let r = idm.rt.block_on(async {
            let w = idm.idms.proxy_write(srv::t(5000)).await?;
            Ok::<_, OperationError>(format!("{}", txn_cid(&w.qs_write)))
        });
        out.push(format!("next_txn:{}", if r.is_ok() { "ok" } else { "FAILED" }));
    }
    out.join("\n")
}

#[derive(Clone, Copy, Debug, PartialEq, Eq)]
enum How {
    /// inject an error at the n-th hit of a storage point during the transaction
    Fault(&'static str, u64),
    OperationFails,
    Dropped,
    /// abandon the transaction after its n-th operation
    DroppedAfter(usize),
    /// control: commit succeeds
    Commit,
}

pub(crate) fn strip_entries(s: &str) -> String {
    s.lines().filter(|l| !l.starts_with("entries:") && !l.starts_with("E:")).collect::<Vec<_>>().join("\n")
}

pub(crate) fn changed_fields(a: &str, b: &str) -> String {
    let mut v: Vec<&str> = a.lines().zip(b.lines()).filter(|(x, y)| x != y && !x.starts_with("E:")).map(|(x, _)| x.split(':').next().unwrap_or("")).collect();
    v.dedup();
    v.join("+")
}

pub(crate) fn first_diff(a: &str, b: &str) -> String {
    a.lines().zip(b.lines()).filter(|(x, y)| x != y).map(|(x, y)| format!("`{x}` became `{y}`")).collect::<Vec<_>>().join("; ")
}

/// child: returns `verdict|detail`
fn run_case(tpl: &Path, dir: &Path, k: usize, how: How, baseline_fresh: &str, control: &str) -> String {
    let db = dir.join(format!("case-{}.db", std::process::id()));
    if let Err(e) = copy_db(tpl, &db) {
        return format!("machinery|{e}");
    }
    let idm = match open(&db) {
        Ok(i) => i,
        Err(e) => return format!("machinery|{e}"),
    };
    let before = observe(&idm, false);
    let hits = Arc::new(AtomicU64::new(0));
    let fired = Arc::new(AtomicU64::new(0));
    if let How::Fault(name, n) = how {
        let (h, f) = (hits.clone(), fired.clone());
        set_point_handler(Some(Arc::new(move |p: &'static str| {
            if p == name {
                let c = h.fetch_add(1, Ordering::SeqCst) + 1;
                if c == n {
                    f.store(1, Ordering::SeqCst);
                    return Err(OperationError::BackendEngine);
                }
            }
            Ok(())
        })));
    }
    let mut ops_done = 0usize;
    let res: Result<(), OperationError> = idm.rt.block_on(async {
        let mut w = idm.idms.proxy_write(srv::t(2000)).await?;
        let stop = if let How::DroppedAfter(n) = how { Some(n) } else { None };
        apply(&mut w, k, how == How::OperationFails, stop, &mut ops_done)?;
        if how == How::Dropped || stop.is_some() {
            return Err(OperationError::InvalidState);
        }
        w.commit()
    });
    set_point_handler(None);
    if let How::DroppedAfter(n) = how {
        if ops_done < n {
            return format!("unreached|the transaction has only {ops_done} operations (wanted to stop after {n})");
        }
    }
    if let How::Fault(name, n) = how {
        if fired.load(Ordering::SeqCst) == 0 {
            return format!("unreached|point {name} hit only {} times (wanted hit {n})", hits.load(Ordering::SeqCst));
        }
    }
    let after = observe(&idm, true);
    let after_cmp: String = after.lines().filter(|l| !l.starts_with("next_txn:")).collect::<Vec<_>>().join("\n");
    let next_ok = after.contains("next_txn:ok");
    // start from the state the failure left behind: the same transaction, retried without the
    // fault, must now commit and give what it gives on an untouched server
    let mut retry = String::new();
    // (the files as the failure left them are set aside first, for the fresh-server observation)
    let snap = dir.join(format!("snap-{}.db", std::process::id()));
    if let Err(e) = copy_db(&db, &snap) {
        return format!("machinery|{e}");
    }
    if res.is_err() {
        let mut d = 0usize;
        let r2: Result<(), OperationError> = idm.rt.block_on(async {
            let mut w = idm.idms.proxy_write(srv::t(2000)).await?;
            apply(&mut w, k, false, None, &mut d)?;
            w.commit()
        });
        retry = match r2 {
            Ok(()) => strip_entries(&observe(&idm, false)),
            Err(e) => format!("retry failed: {e:?}"),
        };
    }
    drop(idm);
    // a fresh server on the same files
    let fresh = match open(&snap) {
        Ok(i) => {
            let o = observe(&i, false);
            drop(i);
            o
        }
        Err(e) => format!("reopen failed: {e}"),
    };
    for suffix in ["", "-wal", "-shm"] {
        let _ = std::fs::remove_file(format!("{}{suffix}", db.display()));
        let _ = std::fs::remove_file(format!("{}{suffix}", snap.display()));
    }
    match (&res, how) {
        (Ok(()), How::Commit) => {
            let want: &[&str] = match k {
                0 | 1 => &["entries"],
                2 => &["entries", "reader_sees"],
                // (at this domain level the schema is built from the shipped migration data, not from
                // stored schema entries, so a stored attribute type is only an entry)
                3 => &["entries"],
                4 => &["reader_sees"],
                5 => &["oauth2_client_configured"],
                6 => &["display_name_txn", "display_name_cell"],
                8 => &["entries", "name_lookup"],
                _ => &["entries", "reader_sees", "oauth2_client_configured", "display_name_txn", "display_name_cell"],
            };
            let changed = changed_fields(&before, &after_cmp);
            if let Some(w) = want.iter().find(|w| !changed.split('+').any(|c| c == **w)) {
                return format!("machinery|the control transaction committed but `{w}` did not change (changed: {changed})");
            }
            // (re-opening runs the start-up migrations, which touch the change ids of built-in
            // entries, so the entry hash is compared through the other lines only)
            // (... and adds its own change ids to the replication metadata)
            let strip = |s: &str| s.lines().filter(|l| !l.starts_with("entries:") && !l.starts_with("E:") && !l.starts_with("replication_metadata:") && !l.starts_with("max_change_time:")).collect::<Vec<_>>().join("\n");
            if strip(&fresh) != strip(&after_cmp) {
                return format!("viol:committed_state_differs_on_disk|after a successful commit the running server and a fresh one on the same files disagree: {}", first_diff(&strip(&after_cmp), &strip(&fresh)));
            }
            if fresh == baseline_fresh {
                return "viol:committed_state_differs_on_disk|a successful commit left nothing on disk".into();
            }
            format!("ok|committed\u{4}{}", strip_entries(&after_cmp))
        }
        (Ok(()), _) => format!("machinery|the transaction reported success although {how:?} was requested"),
        (Err(e), _) => {
            if how == How::Commit {
                return format!("machinery|the control transaction failed: {e:?}");
            }
            let mut v = Vec::new();
            if after_cmp != before {
                v.push(format!("viol:trace_in_memory:{}|after the transaction failed ({e:?}) the running server shows: {}", changed_fields(&before, &after_cmp), first_diff(&before, &after_cmp)));
            }
            if fresh != baseline_fresh {
                v.push(format!("viol:trace_on_disk:{}|after the transaction failed ({e:?}) a fresh server on the same files differs from a fresh server on files no transaction touched: {}", changed_fields(baseline_fresh, &fresh), first_diff(baseline_fresh, &fresh)));
            }
            if retry != control {
                v.push(format!("viol:retry_differs|after the transaction failed ({e:?}) the same transaction retried on the same server does not give what it gives on an untouched server: {}", if retry.starts_with("retry failed") { retry.clone() } else { first_diff(control, &retry) }));
            }
            if !next_ok {
                v.push("viol:server_unusable_after_failure|no further write transaction could be started after the failure".to_string());
            }
            if v.is_empty() {
                format!("ok|{e:?}")
            } else {
                v.join("\u{3}")
            }
        }
    }
}

pub fn run(args: &[String]) -> ! {
    let mut ctx = Ctx::new("C04", Level::FaultEnumeration, args);
    let dir = ctx.scratch_dir_fast();
    let tpl = dir.join("template.db");
    if let Err(e) = fork_eval(|| make_template(&tpl).err().unwrap_or_default()).and_then(|s| if s.is_empty() { Ok(()) } else { Err(s) }) {
        kv_engine::ctx::machinery_exit(&format!("C04 template: {e}"));
    }
    // what a re-opened server shows when no transaction was attempted (opening a server runs the
    // start-up migrations, which is itself a write; the comparison is like for like)
    let baseline_fresh = match fork_eval(|| {
        let db = dir.join("baseline.db");
        if let Err(e) = copy_db(&tpl, &db) {
            return format!("ERR {e}");
        }
        match open(&db) {
            Ok(i) => {
                let _ = observe(&i, true);
                drop(i)
            }
            Err(e) => return format!("ERR {e}"),
        }
        match open(&db) {
            Ok(i) => observe(&i, false),
            Err(e) => format!("ERR {e}"),
        }
    }) {
        Ok(s) if !s.starts_with("ERR") => s,
        Ok(s) | Err(s) => kv_engine::ctx::machinery_exit(&format!("C04 baseline: {s}")),
    };
    let points = ["sql.w.conn", "sql.w.begin", "sql.w.stmt", "sql.w.commit", "sql.r.conn", "sql.r.begin"];
    // families of cases; inside a family the hit number grows until the point is no longer reached
    #[derive(Clone, Copy, Debug)]
    enum Fam {
        Dropped,
        OperationFails,
        DroppedAfter,
        Fault(&'static str),
    }
    let mut fams = vec![Fam::Dropped, Fam::OperationFails, Fam::DroppedAfter];
    fams.extend(points.iter().map(|p| Fam::Fault(p)));
    let cap = ctx.opt_u64("cap").unwrap_or(ctx.pick(30, 400)) as usize;
    let only: Option<(usize, String)> = ctx.replay.as_ref().map(|r| (r["case"]["txn"].as_u64().unwrap_or(0) as usize, r["case"]["how"].as_str().unwrap_or("").to_string()));
    let workers = kv_engine::product::ncpu().min(16);
    // phase 1: the successful control of every transaction kind
    let controls = match fork_map(workers, TXNS.len(), |k| fork_eval(|| run_case(&tpl, &dir, k, How::Commit, &baseline_fresh, "")).unwrap_or_else(|e| format!("machinery|{e}"))) {
        Ok(c) => c,
        Err(e) => kv_engine::ctx::machinery_exit(&format!("C04 controls: {e}")),
    };
    let mut control: Vec<String> = Vec::new();
    for (k, c) in controls.iter().enumerate() {
        match c.split_once('\u{4}') {
            Some((_, obs)) => control.push(obs.to_string()),
            None => {
                ctx.machinery_error(format!("{}: control: {c}", TXNS[k]));
                control.push(String::new());
            }
        }
    }
    // phase 2: one item per (transaction kind, family)
    let items: Vec<(usize, Fam)> = (0..TXNS.len()).flat_map(|k| fams.iter().map(move |f| (k, *f))).filter(|(k, _)| only.as_ref().map(|(ok, _)| ok == k).unwrap_or(true)).collect();
    let results = match fork_map(workers, items.len(), |i| {
        let (k, fam) = items[i];
        let mut out = Vec::new();
        let mut n = 1usize;
        loop {
            let how = match fam {
                Fam::Dropped => How::Dropped,
                Fam::OperationFails => How::OperationFails,
                Fam::DroppedAfter => How::DroppedAfter(n),
                Fam::Fault(p) => How::Fault(p, n as u64),
            };
            let wanted = only.as_ref().map(|(_, oh)| *oh == format!("{how:?}")).unwrap_or(true);
            let r = if wanted { fork_eval(|| run_case(&tpl, &dir, k, how, &baseline_fresh, &control[k])).unwrap_or_else(|e| format!("machinery|{e}")) } else { "skipped|".to_string() };
            let unreached = r.starts_with("unreached|");
            out.push(format!("{how:?}\u{6}{r}"));
            n += 1;
            if unreached || matches!(fam, Fam::Dropped | Fam::OperationFails) || n > cap {
                if n > cap && !unreached {
                    out.push(format!("{how:?}\u{6}capped|"));
                }
                break;
            }
        }
        out.join("\u{5}")
    }) {
        Ok(r) => r,
        Err(e) => kv_engine::ctx::machinery_exit(&format!("C04 cases: {e}")),
    };
    let (mut evals, mut nontrivial, mut nbad, mut capped) = (TXNS.len() as u64, 0u64, 0u64, 0u64);
    let mut reached: std::collections::BTreeMap<String, u64> = Default::default();
    for ((k, fam), res) in items.iter().zip(results.iter()) {
        let k = *k;
        for case in res.split('\u{5}') {
            let (how, out) = case.split_once('\u{6}').unwrap_or(("?", case));
            if out.starts_with("skipped|") || out.starts_with("unreached|") {
                continue;
            }
            if out.starts_with("capped|") {
                capped += 1;
                continue;
            }
            evals += 1;
            for part in out.split('\u{3}') {
                let (verdict, detail) = part.split_once('|').unwrap_or((part, ""));
                let point = match fam {
                    Fam::Fault(p) => p.to_string(),
                    other => format!("{other:?}"),
                };
                match verdict {
                    "ok" => {
                        nontrivial += 1;
                        *reached.entry(point).or_insert(0) += 1;
                    }
                    "machinery" => ctx.machinery_error(format!("{} / {how}: {detail}", TXNS[k])),
                    v if v.starts_with("viol:") => {
                        nbad += 1;
                        nontrivial += 1;
                        *reached.entry(point.clone()).or_insert(0) += 1;
                        ctx.violation(&format!("{point}:{}", &v[5..]), &format!("transaction [{}] with {how}: {detail}", TXNS[k]), json!({"txn": k, "how": how}));
                    }
                    other => ctx.machinery_error(format!("unparsable case result {other}")),
                }
            }
            if evals % 29 == 2 {
                ctx.sample(json!({"transaction": TXNS[k], "how": how, "result": out.chars().take(160).collect::<String>()}));
            }
        }
    }
    let _ = std::fs::remove_dir_all(&dir);
    ctx.set("evaluations", evals);
    ctx.set("distinct_nontrivial", nontrivial);
    ctx.set("families_cut_off_by_the_hit_cap", capped);
    ctx.set("hit_cap", cap as u64);
    ctx.set("cases_per_family", json!(reached));
    ctx.set("rule", "8 transaction kinds x {successful commit (control), dropped without commit, an operation failing mid-transaction, abandoned after its n-th operation for every n, an injected storage error at the n-th hit of each storage point (write connection, write BEGIN, every write statement, write COMMIT, read connection, read BEGIN) for every n the transaction reaches (up to the stated cap)}; each in a forked child on its own copy of a file-backed template database. Non-trivial = the transaction really failed at the requested place");
    ctx.set("mismatches", nbad);
    ctx.set("exhaustive", true);
    ctx.assume("storage errors are injected at the points the hooks expose: connection acquisition, BEGIN, COMMIT and the entry of every function that writes to the database (one point per write function call, not per row)");
    ctx.assume("at the current domain level the live schema is built from shipped migration data and not from stored schema entries, so the 'schema attribute' transaction is observable only as an entry; the schema cell is still observed");
    ctx.assume("the key material observation is indirect (OAuth2 client configuration and a full entry dump, which includes the key objects)");
    ctx.finish();
}
