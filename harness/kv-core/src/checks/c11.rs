//! C11 — replicated session and key revocations are never lost.
//!
//! E1 on the real `ValueSetT::repl_merge_valueset` of the session, OAuth2-session, key_internal
//! and audit-log value sets, driven exactly as `Entry::merge_state` drives it: each replica state
//! is (attribute change cid, value set); the side with the greater attribute cid is "self"
//! (newer), the other "older"; the result carries the greater cid.
//!
//! Enumerated: per key a state from a small lattice {absent, NeverExpires, ExpiresAt(t1),
//! ExpiresAt(t2), RevokedAt(c1), RevokedAt(c2)} (keys: {absent, Valid, Retained, Revoked@c1,
//! Revoked@c2}); all sets over 3 keys merged pairwise in both roles; all triples of sets over 2
//! keys x all 6 assignments of attribute cids x all 3 merge trees ((ab)c, (ac)b, (bc)a).
//! Oracle: all merge trees give the same value set; merge(a,a)=a; a revoked key/session stays
//! revoked (sessions: earliest revocation cid) while trim_cid has not passed it.

use kanidmd_lib::prelude::*;
use kanidmd_lib::value::{AuthType, KeyStatus, KeyUsage, Oauth2Session, Session, SessionExtMetadata, SessionScope, SessionState};
use kanidmd_lib::valueset::{KeyInternalData, ValueSet, ValueSetAuditLogString, ValueSetKeyInternal, ValueSetOauth2Session, ValueSetSession};
use kanidmd_lib::verif_hooks::KeyId;
use kv_engine::{product, Ctx, Level};
use serde_json::json;
use time::OffsetDateTime;

const SRV: Uuid = Uuid::from_u128(0x5e5e_0000_0000_0000_0000_0000_0000_0001);

fn cid(n: u64) -> Cid {
    Cid::new_lamport(SRV, Duration::from_secs(n), &Duration::ZERO)
}

fn key_uuid(i: usize) -> Uuid {
    Uuid::from_u128(0x7000_0000_0000_0000_0000_0000_0000_0000 + i as u128)
}

#[derive(Clone, Copy, PartialEq, Eq, Debug)]
enum Kind {
    Session,
    Oauth2,
    Key,
}

/// lattice element index -> session state. 0 = absent.
fn sstate(i: usize) -> Option<SessionState> {
    let t1 = OffsetDateTime::UNIX_EPOCH + Duration::from_secs(1000);
    let t2 = OffsetDateTime::UNIX_EPOCH + Duration::from_secs(2000);
    match i {
        0 => None,
        1 => Some(SessionState::NeverExpires),
        2 => Some(SessionState::ExpiresAt(t1)),
        3 => Some(SessionState::ExpiresAt(t2)),
        4 => Some(SessionState::RevokedAt(cid(5))),
        _ => Some(SessionState::RevokedAt(cid(7))),
    }
}

/// rank in the join order the statement implies: revoked (earlier cid higher) > expires (later
/// higher) > never > absent
fn srank(i: usize) -> u8 {
    match i {
        0 => 0,
        1 => 1,
        2 => 2,
        3 => 3,
        5 => 4, // revoked at c2=7
        _ => 5, // revoked at c1=5 (earliest) is the top
    }
}

fn kstate(i: usize) -> Option<(KeyStatus, Cid)> {
    match i {
        0 => None,
        1 => Some((KeyStatus::Valid, cid(3))),
        2 => Some((KeyStatus::Retained, cid(4))),
        3 => Some((KeyStatus::Revoked, cid(5))),
        _ => Some((KeyStatus::Revoked, cid(7))),
    }
}

fn nstates(kind: Kind) -> usize {
    match kind {
        Kind::Key => 5,
        _ => 6,
    }
}

/// Build the value set for a vector of per-key state indices. None if every key is absent.
fn build(kind: Kind, st: &[usize]) -> Option<ValueSet> {
    let issued = OffsetDateTime::UNIX_EPOCH + Duration::from_secs(10);
    let mut vs: Option<ValueSet> = None;
    for (k, s) in st.iter().enumerate() {
        match kind {
            Kind::Session => {
                let Some(state) = sstate(*s) else { continue };
                let sess = Session {
                    label: format!("s{k}"),
                    state,
                    issued_at: issued + Duration::from_secs(k as u64),
                    issued_by: IdentityId::Internal(UUID_SYSTEM),
                    cred_id: key_uuid(100 + k),
                    scope: SessionScope::ReadOnly,
                    type_: AuthType::Password,
                    ext_metadata: SessionExtMetadata::None,
                };
                match vs.as_mut() {
                    None => vs = Some(ValueSetSession::new(key_uuid(k), sess)),
                    Some(v) => {
                        let _ = v.insert_checked(Value::Session(key_uuid(k), sess));
                    }
                }
            }
            Kind::Oauth2 => {
                let Some(state) = sstate(*s) else { continue };
                let sess = Oauth2Session {
                    parent: Some(key_uuid(200 + k)),
                    state,
                    issued_at: issued + Duration::from_secs(k as u64),
                    rs_uuid: key_uuid(300),
                };
                match vs.as_mut() {
                    None => vs = Some(ValueSetOauth2Session::new(key_uuid(k), sess)),
                    Some(v) => {
                        let _ = v.insert_checked(Value::Oauth2Session(key_uuid(k), sess));
                    }
                }
            }
            Kind::Key => {}
        }
    }
    if kind == Kind::Key {
        let items: Vec<(KeyId, KeyInternalData)> = st
            .iter()
            .enumerate()
            .filter_map(|(k, s)| {
                kstate(*s).map(|(status, status_cid)| {
                    (
                        KeyId::from(format!("key{k}")),
                        KeyInternalData {
                            usage: KeyUsage::JwsEs256,
                            valid_from: 0,
                            status,
                            status_cid,
                            der: vec![k as u8; 4].into(),
                        },
                    )
                })
            })
            .collect();
        if items.is_empty() {
            return None;
        }
        return ValueSetKeyInternal::from_key_iter(items.into_iter()).ok();
    }
    vs
}

/// Canonical rendering of a value set: key index -> state description
fn canon(kind: Kind, vs: &Option<ValueSet>, nkeys: usize) -> Vec<String> {
    let mut out = vec!["absent".to_string(); nkeys];
    let Some(vs) = vs else { return out };
    match kind {
        Kind::Session => {
            if let Some(m) = vs.as_session_map() {
                for k in 0..nkeys {
                    if let Some(s) = m.get(&key_uuid(k)) {
                        out[k] = format!("{:?}", s.state);
                    }
                }
            }
        }
        Kind::Oauth2 => {
            if let Some(m) = vs.as_oauth2session_map() {
                for k in 0..nkeys {
                    if let Some(s) = m.get(&key_uuid(k)) {
                        out[k] = format!("{:?}", s.state);
                    }
                }
            }
        }
        Kind::Key => {
            if let Some(m) = vs.as_key_internal_map() {
                for k in 0..nkeys {
                    if let Some(s) = m.get(&KeyId::from(format!("key{k}"))) {
                        out[k] = format!("{:?}@{:?}", s.status, s.status_cid.ts.as_secs());
                    }
                }
            }
        }
    }
    out
}

type Rep = (u64, Option<ValueSet>); // (attribute change cid seconds, value set)

/// A replica state. These value sets never become empty by an ordinary operation (purge marks
/// sessions / keys revoked instead of removing them; only trimming after the changelog window
/// removes entries), so "no value" means "this replica has never seen the attribute": it then
/// has no change cid for it either, which Entry::merge_state treats as "take the other side".
fn rep(c: u64, vs: Option<ValueSet>) -> Rep {
    if vs.is_none() {
        (0, None)
    } else {
        (c, vs)
    }
}

/// The attribute-level merge exactly as Entry::merge_state performs it
/// (`left` = incoming entry, `right` = database entry).
fn merge_attr(left: &Rep, right: &Rep, trim: &Cid) -> Rep {
    let take_left = left.0 > right.0;
    match (&left.1, &right.1) {
        (Some(l), Some(r)) if take_left => (left.0, Some(l.repl_merge_valueset(r, trim).unwrap_or_else(|| l.clone()))),
        (Some(l), Some(r)) => (right.0, Some(r.repl_merge_valueset(l, trim).unwrap_or_else(|| r.clone()))),
        (Some(l), None) if take_left => (left.0, Some(l.clone())),
        (Some(_), None) => (right.0, None),
        (None, Some(_)) if take_left => (left.0, None),
        (None, Some(r)) => (right.0, Some(r.clone())),
        (None, None) if take_left => (left.0, None),
        (None, None) => (right.0, None),
    }
}

fn decode_states(mut idx: u64, nkeys: usize, radix: usize) -> Vec<usize> {
    let mut v = Vec::with_capacity(nkeys);
    for _ in 0..nkeys {
        v.push((idx % radix as u64) as usize);
        idx /= radix as u64;
    }
    v
}

/// expected per-key result of merging all inputs when nothing is trimmable
fn expected_join(kind: Kind, inputs: &[&Vec<usize>], nkeys: usize) -> Vec<Option<bool>> {
    // returns per key: Some(true) = must be revoked, Some(false) = must not be absent, None = no claim
    let mut out = Vec::new();
    for k in 0..nkeys {
        let any_rev = inputs.iter().any(|st| match kind {
            Kind::Key => st[k] >= 3,
            _ => st[k] >= 4,
        });
        out.push(if any_rev { Some(true) } else { None });
    }
    out
}

#[derive(Default)]
struct Acc {
    evals: u64,
    nontrivial: u64,
    outcomes: std::collections::BTreeSet<u64>,
    bad: Vec<(String, String, serde_json::Value)>,
    nbad: u64,
}

impl Acc {
    fn viol(&mut self, key: String, what: String, case: serde_json::Value) {
        self.nbad += 1;
        if !self.bad.iter().any(|b| b.0 == key) {
            self.bad.push((key, what, case));
        }
    }
}

fn kind_name(k: Kind) -> &'static str {
    match k {
        Kind::Session => "session",
        Kind::Oauth2 => "oauth2session",
        Kind::Key => "key_internal",
    }
}

fn check_pair(acc: &mut Acc, kind: Kind, a: &Vec<usize>, b: &Vec<usize>, nkeys: usize, trim_s: u64) {
    let trim = cid(trim_s);
    // the attribute holding no value at all is only possible when its change cid says so; both
    // orders of attribute cids
    for (ca, cb) in [(10u64, 20u64), (20, 10)] {
        let ra: Rep = rep(ca, build(kind, a));
        let rb: Rep = rep(cb, build(kind, b));
        // replica X holds a and receives b; replica Y holds b and receives a
        let x = merge_attr(&rb, &ra, &trim);
        let y = merge_attr(&ra, &rb, &trim);
        acc.evals += 2;
        let cx = canon(kind, &x.1, nkeys);
        let cy = canon(kind, &y.1, nkeys);
        if a != b {
            acc.nontrivial += 1;
        }
        if acc.outcomes.len() < 4096 {
            acc.outcomes.insert(kv_engine::hash_str(&format!("{cx:?}")));
        }
        if cx != cy || x.0 != y.0 {
            acc.viol(
                format!("{}:pair_role_dependent", kind_name(kind)),
                format!("merge of a={a:?}@{ca} and b={b:?}@{cb} differs by direction: X={cx:?} Y={cy:?}"),
                json!({"kind": kind_name(kind), "a": a, "b": b, "ca": ca, "cb": cb, "trim": trim_s}),
            );
        }
        // revocation dominance (only when both sides still carry the attribute)
        if trim_s == 0 && ra.1.is_some() && rb.1.is_some() {
            let exp = expected_join(kind, &[a, b], nkeys);
            for k in 0..nkeys {
                if exp[k] == Some(true) {
                    let revoked = cx[k].starts_with("Revoked");
                    if !revoked {
                        acc.viol(
                            format!("{}:revocation_lost", kind_name(kind)),
                            format!("key {k} revoked on one side but merged state is {} (a={a:?}@{ca} b={b:?}@{cb})", cx[k]),
                            json!({"kind": kind_name(kind), "a": a, "b": b, "ca": ca, "cb": cb, "trim": trim_s}),
                        );
                    }
                    if kind != Kind::Key {
                        // earliest revocation wins
                        let want_earliest = a[k] == 4 || b[k] == 4;
                        let got_earliest = cx[k].contains(&format!("{:?}", cid(5)));
                        if revoked && want_earliest != got_earliest {
                            acc.viol(
                                format!("{}:not_earliest_revocation", kind_name(kind)),
                                format!("key {k}: merged revocation is not the earliest one: {} (a={a:?} b={b:?})", cx[k]),
                                json!({"kind": kind_name(kind), "a": a, "b": b, "ca": ca, "cb": cb, "trim": trim_s}),
                            );
                        }
                    }
                }
            }
        }
    }
    // idempotence: same state, same cid
    if a == b {
        let ra: Rep = rep(10, build(kind, a));
        let m = merge_attr(&ra, &ra, &cid(0));
        acc.evals += 1;
        if canon(kind, &m.1, nkeys) != canon(kind, &ra.1, nkeys) {
            acc.viol(
                format!("{}:not_idempotent", kind_name(kind)),
                format!("merging {a:?} with itself gives {:?}", canon(kind, &m.1, nkeys)),
                json!({"kind": kind_name(kind), "a": a, "b": b, "ca": 10, "cb": 10, "trim": 0}),
            );
        }
    }
    let _ = srank;
}

fn check_triple(acc: &mut Acc, kind: Kind, s: [&Vec<usize>; 3], nkeys: usize) {
    let trim = cid(0);
    const PERMS: [[u64; 3]; 6] = [[10, 20, 30], [10, 30, 20], [20, 10, 30], [20, 30, 10], [30, 10, 20], [30, 20, 10]];
    for cids in PERMS {
        let r: Vec<Rep> = (0..3).map(|i| rep(cids[i], build(kind, s[i]))).collect();
        // all ways three replicas' states can meet: (x y) z for every choice of the last one, and
        // both directions of each merge (who is incoming, who is in the database)
        let mut results: Vec<(Vec<String>, u64, String)> = Vec::new();
        for (x, y, z) in [(0usize, 1usize, 2usize), (0, 2, 1), (1, 2, 0)] {
            for dir in 0..4 {
                let xy = if dir & 1 == 0 { merge_attr(&r[x], &r[y], &trim) } else { merge_attr(&r[y], &r[x], &trim) };
                let fin = if dir & 2 == 0 { merge_attr(&xy, &r[z], &trim) } else { merge_attr(&r[z], &xy, &trim) };
                acc.evals += 2;
                results.push((canon(kind, &fin.1, nkeys), fin.0, format!("(({x}.{y}).{z}) dir{dir}")));
            }
        }
        let distinct = s[0] != s[1] || s[1] != s[2];
        if distinct {
            acc.nontrivial += 1;
        }
        if acc.outcomes.len() < 4096 {
            acc.outcomes.insert(kv_engine::hash_str(&format!("{:?}", results[0].0)));
        }
        if let Some(other) = results.iter().find(|x| x.0 != results[0].0 || x.1 != results[0].1) {
            acc.viol(
                format!("{}:order_or_grouping_dependent", kind_name(kind)),
                format!(
                    "states {:?} with attribute cids {cids:?}: {} gives {:?} but {} gives {:?}",
                    s, results[0].2, results[0].0, other.2, other.0
                ),
                json!({"kind": kind_name(kind), "triple": [s[0], s[1], s[2]], "cids": cids}),
            );
        }
        // dominance over three
        if r.iter().all(|x| x.1.is_some()) {
            let exp = expected_join(kind, &[s[0], s[1], s[2]], nkeys);
            for k in 0..nkeys {
                if exp[k] == Some(true) && !results[0].0[k].starts_with("Revoked") {
                    acc.viol(
                        format!("{}:revocation_lost", kind_name(kind)),
                        format!("key {k} revoked on one replica but the three-way merge gives {} (states {:?} cids {cids:?})", results[0].0[k], s),
                        json!({"kind": kind_name(kind), "triple": [s[0], s[1], s[2]], "cids": cids}),
                    );
                }
            }
        }
    }
}

/// audit log: universe of 11 (cid, string) items; capacity is 9
fn audit_build(mask: u32) -> Option<ValueSet> {
    let mut vs: Option<ValueSet> = None;
    for i in 0..11u32 {
        if mask & (1 << i) != 0 {
            let item = (cid(100 + u64::from(i)), format!("m{i}"));
            match vs.as_mut() {
                None => vs = Some(ValueSetAuditLogString::new(item)),
                Some(v) => {
                    let _ = v.insert_checked(Value::AuditLogString(item.0, item.1));
                }
            }
        }
    }
    vs
}

fn audit_canon(vs: &Option<ValueSet>) -> Vec<u64> {
    vs.as_ref()
        .and_then(|v| v.as_audit_log_string().map(|m| m.keys().map(|c| c.ts.as_secs() - 100).collect()))
        .unwrap_or_default()
}

fn audit_expected(masks: &[u32]) -> Vec<u64> {
    // union, keep the newest 9
    let mut all: Vec<u64> = (0..11u64).filter(|i| masks.iter().any(|m| m & (1 << i) != 0)).collect();
    while all.len() > 9 {
        all.remove(0);
    }
    all
}

fn audit_mask_norm(mask: u32) -> u32 {
    // a single replica never holds more than 9 items: drop the oldest beyond capacity
    let mut m = mask;
    while m.count_ones() > 9 {
        m &= m - 1; // clear lowest set bit (oldest)
    }
    m
}

pub fn run(args: &[String]) -> ! {
    let mut ctx = Ctx::new("C11", Level::Exploration, args);

    if let Some(r) = ctx.replay.clone() {
        let c = &r["case"];
        if c.get("world").is_some() {
            if !super::keychecks::replay(&mut ctx, "C11") {
                ctx.machinery_error("replay names an unknown world".into());
            }
            ctx.finish();
        }
        let kind = match c["kind"].as_str() {
            Some("oauth2session") => Kind::Oauth2,
            Some("key_internal") => Kind::Key,
            _ => Kind::Session,
        };
        let mut acc = Acc::default();
        let vecu = |v: &serde_json::Value| -> Vec<usize> { v.as_array().map(|a| a.iter().map(|x| x.as_u64().unwrap_or(0) as usize).collect()).unwrap_or_default() };
        if c.get("triple").is_some() {
            let t: Vec<Vec<usize>> = c["triple"].as_array().map(|a| a.iter().map(vecu).collect()).unwrap_or_default();
            check_triple(&mut acc, kind, [&t[0], &t[1], &t[2]], t[0].len());
        } else if c.get("a").is_some() {
            let a = vecu(&c["a"]);
            let b = vecu(&c["b"]);
            check_pair(&mut acc, kind, &a, &b, a.len(), c["trim"].as_u64().unwrap_or(0));
        }
        for (k, w, case) in acc.bad {
            println!("{k}: {w}");
            ctx.violation(&k, &w, case);
        }
        ctx.finish();
    }

    let mut evals = 0u64;
    let mut nontriv = 0u64;
    let mut outcomes = std::collections::BTreeSet::new();
    let mut spaces = Vec::new();
    for kind in [Kind::Session, Kind::Oauth2, Kind::Key] {
        let radix = nstates(kind);
        // pairs over 3 keys, trims {0, 6 (c1 trimmable), 100 (everything trimmable)}
        let nk = 3usize;
        let nsets = (radix as u64).pow(nk as u32);
        for trim_s in [0u64, 6, 100] {
            let total = nsets * nsets;
            let accs = product::par_run(
                product::ncpu(),
                total,
                512,
                |_| Acc::default(),
                |acc, idx| {
                    let a = decode_states(idx % nsets, nk, radix);
                    let b = decode_states(idx / nsets, nk, radix);
                    check_pair(acc, kind, &a, &b, nk, trim_s);
                },
            );
            for a in accs {
                evals += a.evals;
                nontriv += a.nontrivial;
                outcomes.extend(a.outcomes);
                ctx.add("mismatches", a.nbad);
                for (k, w, case) in a.bad {
                    ctx.violation(&k, &w, case);
                }
            }
            spaces.push(json!({"kind": kind_name(kind), "shape": "pairs", "keys": nk, "sets": nsets, "trim_cid": trim_s, "pairs": total}));
        }
        // triples over 2 keys (thorough: also 3 keys for sessions is too large: 216^3; keep 2)
        let nk = 2usize;
        let nsets = (radix as u64).pow(nk as u32);
        let total = nsets * nsets * nsets;
        let accs = product::par_run(
            product::ncpu(),
            total,
            64,
            |_| Acc::default(),
            |acc, idx| {
                let a = decode_states(idx % nsets, nk, radix);
                let b = decode_states((idx / nsets) % nsets, nk, radix);
                let c = decode_states(idx / nsets / nsets, nk, radix);
                check_triple(acc, kind, [&a, &b, &c], nk);
            },
        );
        for a in accs {
            evals += a.evals;
            nontriv += a.nontrivial;
            outcomes.extend(a.outcomes);
            ctx.add("mismatches", a.nbad);
            for (k, w, case) in a.bad {
                ctx.violation(&k, &w, case);
            }
        }
        spaces.push(json!({"kind": kind_name(kind), "shape": "triples x 6 cid orders x 12 merge trees", "keys": nk, "sets": nsets, "triples": total}));
    }
    // audit log: all pairs of subsets of 11 items (each normalised to capacity), and triples from
    // a family of 24 shapes
    {
        let total = 2048u64 * 2048;
        let accs = product::par_run(
            product::ncpu(),
            total,
            1024,
            |_| Acc::default(),
            |acc, idx| {
                let ma = audit_mask_norm((idx % 2048) as u32);
                let mb = audit_mask_norm((idx / 2048) as u32);
                let trim = cid(0);
                for (ca, cb) in [(10u64, 20u64), (20, 10)] {
                    let ra: Rep = rep(ca, audit_build(ma));
                    let rb: Rep = rep(cb, audit_build(mb));
                    let x = merge_attr(&rb, &ra, &trim);
                    let y = merge_attr(&ra, &rb, &trim);
                    acc.evals += 2;
                    if ma != mb {
                        acc.nontrivial += 1;
                    }
                    let cx = audit_canon(&x.1);
                    let cy = audit_canon(&y.1);
                    if cx != cy {
                        acc.viol("auditlog:pair_role_dependent".into(), format!("audit log merge differs by direction: masks {ma:#x}@{ca} {mb:#x}@{cb}: {cx:?} vs {cy:?}"), json!({"kind": "auditlog", "ma": ma, "mb": mb}));
                    }
                    if ra.1.is_some() && rb.1.is_some() && cx != audit_expected(&[ma, mb]) {
                        acc.viol("auditlog:not_newest_union".into(), format!("audit log merge of {ma:#x} and {mb:#x} gives {cx:?}, expected newest-9 of the union {:?}", audit_expected(&[ma, mb])), json!({"kind": "auditlog", "ma": ma, "mb": mb}));
                    }
                }
            },
        );
        for a in accs {
            evals += a.evals;
            nontriv += a.nontrivial;
            ctx.add("mismatches", a.nbad);
            for (k, w, case) in a.bad {
                ctx.violation(&k, &w, case);
            }
        }
        spaces.push(json!({"kind": "auditlog", "shape": "pairs of subsets of 11 items (capacity 9)", "pairs": total}));
        let fam: Vec<u32> = vec![
            0x001, 0x003, 0x00f, 0x0ff, 0x1ff, 0x3fe, 0x7fc, 0x7ff & !0x3, 0x555, 0x2aa, 0x400, 0x600, 0x700, 0x0f0, 0x18c, 0x421, 0x7e0, 0x01f, 0x111, 0x222, 0x444, 0x0aa, 0x155, 0x3c3,
        ];
        let n = fam.len() as u64;
        let accs = product::par_run(
            product::ncpu(),
            n * n * n,
            16,
            |_| Acc::default(),
            |acc, idx| {
                let m: [u32; 3] = [audit_mask_norm(fam[(idx % n) as usize]), audit_mask_norm(fam[((idx / n) % n) as usize]), audit_mask_norm(fam[(idx / n / n) as usize])];
                let trim = cid(0);
                let r: Vec<Rep> = (0..3).map(|i| rep([10u64, 20, 30][i], audit_build(m[i]))).collect();
                let mut res = Vec::new();
                for (x, y, z) in [(0usize, 1usize, 2usize), (0, 2, 1), (1, 2, 0)] {
                    let xy = merge_attr(&r[x], &r[y], &trim);
                    let fin = merge_attr(&r[z], &xy, &trim);
                    acc.evals += 2;
                    res.push(audit_canon(&fin.1));
                }
                acc.nontrivial += 1;
                if res[0] != res[1] || res[1] != res[2] || res[0] != audit_expected(&m) {
                    acc.viol("auditlog:order_or_grouping_dependent".into(), format!("audit log three-way merge of {m:x?}: {res:?}, expected {:?}", audit_expected(&m)), json!({"kind": "auditlog", "masks": m}));
                }
            },
        );
        for a in accs {
            evals += a.evals;
            nontriv += a.nontrivial;
            ctx.add("mismatches", a.nbad);
            for (k, w, case) in a.bad {
                ctx.violation(&k, &w, case);
            }
        }
        spaces.push(json!({"kind": "auditlog", "shape": "triples from a family of 24 subsets x 3 merge trees", "triples": n * n * n}));
    }

    ctx.set("evaluations", evals);
    ctx.set("distinct_nontrivial", nontriv);
    ctx.set("distinct_merge_results_seen_at_least", outcomes.len() as u64);
    ctx.set("spaces", json!(spaces));
    ctx.set("exhaustive", true);
    ctx.set(
        "rule",
        "every pair of value sets over 3 keys (per-key lattice of 6 session / 5 key states) in both attribute-cid orders and both merge directions, at trim cids {0,6,100}; every triple of value sets over 2 keys x 6 attribute-cid assignments x 12 merge trees/directions; audit log: all pairs of subsets of an 11-item universe and 13824 triples. evaluations = merge calls; a case is non-trivial when the merged states differ",
    );
    ctx.sample(json!({"kind": "session", "a": "[RevokedAt(c2), ExpiresAt(t1), absent] @cid10", "b": "[ExpiresAt(t2), RevokedAt(c1), NeverExpires] @cid20", "expect": "[RevokedAt(c2), RevokedAt(c1), NeverExpires] whichever side receives"}));
    ctx.sample(json!({"kind": "key_internal", "triple": "[Valid], [Revoked@c2], [Retained] with cids (30,10,20)", "expect": "Revoked in every merge tree"}));
    ctx.assume("the attribute-level merge is mirrored from Entry::merge_state (newer attribute cid is `self`); entry-level conformance on live replicas is covered by C08");
    ctx.assume("other fields of a session/key (label, scope, der) are identical on all replicas for the same id, as they are immutable after issue");
    ctx.assume("order/grouping independence is claimed only while trim_cid has not passed a revocation (the statement's changelog window)");
    // the replicated half on live servers: key revocations on two real replicas, merges in both
    // directions, time jumps past the changelog window (world KEYS)
    let key_budget = if ctx.quick() { 35.0 } else { 900.0 };
    let capped = super::keychecks::run_worlds(&mut ctx, "C11", key_budget);
    if capped {
        ctx.assume("the KEYS world was cut by its wall-clock budget: it is complete only below the stated depth");
    }
    ctx.finish();
}
