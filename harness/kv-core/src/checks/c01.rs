//! C01 — search returns exactly the matching entries, whatever is indexed.
//!
//! E1 product on a real server: index layouts (every subset of the toggled attributes switched
//! off in the backend's index metadata, followed by the real reindex; plus per-type partial
//! layouts) x filter trees up to depth 3 over a leaf alphabet (equality / substring / presence /
//! ordering on five attributes) with AND / OR / AND-NOT in every position x cold and warm
//! resolve caches. Each layout is installed in a forked copy of one populated template server.
//! Oracle: an independent set-semantics evaluator over a full scan of the live entries
//! (AND = intersection, OR = union, NOT = complement): the search must fail explicitly or
//! return exactly that set; and (differentially) every layout must give the same answer.

use crate::srv::{self, Srv};
use kanidmd_lib::entry::{Entry, EntryCommitted, EntryInit, EntryNew, EntrySealed};
use kanidmd_lib::prelude::*;
use kanidmd_lib::verif_hooks::IdxKey;
use kv_engine::{Ctx, Level};
use serde_json::json;
use std::collections::{BTreeMap, BTreeSet};
use std::sync::Arc;

type SE = Arc<Entry<EntrySealed, EntryCommitted>>;

#[derive(Clone, Debug, PartialEq, Eq, Hash, serde::Serialize, serde::Deserialize)]
enum T {
    L(usize),
    And(Vec<T>),
    Or(Vec<T>),
    Not(Box<T>),
}

const NLEAF: usize = 17;
fn leaf(i: usize) -> FC {
    match i {
        0 => FC::Eq(Attribute::Name, PartialValue::new_iname("aa")),
        1 => FC::Eq(Attribute::Name, PartialValue::new_iname("zz")),
        2 => FC::Cnt(Attribute::Name, PartialValue::new_iname("a")),
        3 => FC::Cnt(Attribute::Name, PartialValue::new_iname("b")),
        4 => FC::Pres(Attribute::Name),
        5 => FC::Eq(Attribute::DisplayName, PartialValue::new_utf8s("x")),
        6 => FC::Eq(Attribute::DisplayName, PartialValue::new_utf8s("y")),
        7 => FC::Pres(Attribute::DisplayName),
        8 => FC::Pres(Attribute::Mail),
        9 => FC::Eq(Attribute::Mail, PartialValue::EmailAddress("m1@example.com".into())),
        10 => FC::Pres(Attribute::GidNumber),
        11 => FC::LessThan(Attribute::GidNumber, PartialValue::new_uint32(2500)),
        12 => FC::Eq(Attribute::GidNumber, PartialValue::new_uint32(2000)),
        13 => FC::Eq(Attribute::Class, EntryClass::Person.into()),
        14 => FC::Eq(Attribute::Class, EntryClass::Group.into()),
        15 => FC::Cnt(Attribute::Name, PartialValue::new_iname("cab")),
        // substring of a mail address that is stored with upper-case letters
        _ => FC::Cnt(Attribute::Mail, PartialValue::EmailAddress("bee".into())),
    }
}

fn to_fc(t: &T) -> FC {
    match t {
        T::L(i) => leaf(*i),
        T::And(v) => FC::And(v.iter().map(to_fc).collect()),
        T::Or(v) => FC::Or(v.iter().map(to_fc).collect()),
        T::Not(b) => FC::AndNot(Box::new(to_fc(b))),
    }
}

/// proto strings of an attribute, lower-cased for the case-insensitive syntaxes used here
pub fn vals(e: &SE, a: &Attribute) -> Vec<String> {
    e.get_ava_set(a).map(|v| v.to_proto_string_clone_iter().collect()).unwrap_or_default()
}

fn leaf_match(i: usize, e: &SE) -> bool {
    let has = |a: Attribute, f: &dyn Fn(&str) -> bool| vals(e, &a).iter().any(|v| f(v));
    match i {
        0 => has(Attribute::Name, &|v| v == "aa"),
        1 => has(Attribute::Name, &|v| v == "zz"),
        2 => has(Attribute::Name, &|v| v.contains('a')),
        3 => has(Attribute::Name, &|v| v.contains('b')),
        4 => !vals(e, &Attribute::Name).is_empty(),
        5 => has(Attribute::DisplayName, &|v| v == "x"),
        6 => has(Attribute::DisplayName, &|v| v == "y"),
        7 => !vals(e, &Attribute::DisplayName).is_empty(),
        8 => !vals(e, &Attribute::Mail).is_empty(),
        9 => has(Attribute::Mail, &|v| v == "m1@example.com"),
        10 => !vals(e, &Attribute::GidNumber).is_empty(),
        11 => has(Attribute::GidNumber, &|v| v.parse::<u64>().map(|n| n < 2500).unwrap_or(false)),
        12 => has(Attribute::GidNumber, &|v| v == "2000"),
        13 => has(Attribute::Class, &|v| v == "person"),
        14 => has(Attribute::Class, &|v| v == "group"),
        15 => has(Attribute::Name, &|v| v.contains("cab")),
        _ => has(Attribute::Mail, &|v| v.to_lowercase().contains("bee")),
    }
}

fn eval(t: &T, e: &SE) -> bool {
    match t {
        T::L(i) => leaf_match(*i, e),
        T::And(v) => v.iter().all(|x| eval(x, e)),
        T::Or(v) => v.iter().any(|x| eval(x, e)),
        T::Not(b) => !eval(b, e),
    }
}

/// shape class of the tree with respect to negation (the violation key)
fn shape(t: &T) -> &'static str {
    fn has_not(t: &T) -> bool {
        match t {
            T::L(_) => false,
            T::Not(_) => true,
            T::And(v) | T::Or(v) => v.iter().any(has_not),
        }
    }
    fn isolated(t: &T, under_and_with_positive: bool) -> bool {
        // a NOT that is not a sibling of a positive term inside an AND
        match t {
            T::L(_) => false,
            T::Not(b) => !under_and_with_positive || isolated(b, false),
            T::And(v) => {
                let pos = v.iter().any(|x| !matches!(x, T::Not(_)));
                v.iter().any(|x| isolated(x, pos))
            }
            T::Or(v) => v.iter().any(|x| isolated(x, false)),
        }
    }
    if !has_not(t) {
        "no_negation"
    } else if isolated(t, false) {
        "negation_not_beside_a_positive_and_term"
    } else {
        "negation_beside_a_positive_and_term"
    }
}

fn trees(leaves: &[usize], depth: usize, width: usize) -> Vec<T> {
    let mut level: Vec<T> = leaves.iter().map(|l| T::L(*l)).collect();
    for _ in 1..depth {
        let items = level.clone();
        let mut next = items.clone();
        let n = items.len();
        for w in 1..=width {
            let total = (n as u64).pow(w as u32);
            for idx in 0..total {
                let mut x = idx;
                let mut seq = Vec::with_capacity(w);
                for _ in 0..w {
                    seq.push(items[(x % n as u64) as usize].clone());
                    x /= n as u64;
                }
                next.push(T::And(seq.clone()));
                next.push(T::Or(seq));
            }
        }
        for it in &items {
            next.push(T::Not(Box::new(it.clone())));
        }
        let mut seen = std::collections::HashSet::new();
        next.retain(|t| seen.insert(t.clone()));
        level = next;
    }
    level
}

const TOGGLED: [Attribute; 5] = [Attribute::Name, Attribute::DisplayName, Attribute::Mail, Attribute::GidNumber, Attribute::Class];

pub fn template() -> Srv {
    let srv = Srv::new();
    let r = srv.write(srv::t(10), |w| {
        let mut es: Vec<Entry<EntryInit, EntryNew>> = Vec::new();
        let people: [(&str, &str, Option<&str>, Option<u32>); 7] =
            [("aa", "x", Some("m1@example.com"), Some(2000)), ("ab", "y", None, Some(3000)), ("ba", "x", Some("M2.Bee@example.com"), None), ("bb", "y", Some("m1b@example.com"), Some(2400)), ("cab", "x", None, None), ("ccc", "z", None, Some(2100)), ("a", "y", Some("m3@example.com"), None)];
        for (i, (n, dn, mail, gid)) in people.iter().enumerate() {
            let mut e: Entry<EntryInit, EntryNew> = Entry::new();
            e.add_ava(Attribute::Class, EntryClass::Object.to_value());
            e.add_ava(Attribute::Class, EntryClass::Account.to_value());
            e.add_ava(Attribute::Class, EntryClass::Person.to_value());
            e.add_ava(Attribute::Uuid, Value::Uuid(Uuid::from_u128(0xc010_0000_0000_4000_8000_0000_0000_0000 + i as u128)));
            e.add_ava(Attribute::Name, Value::new_iname(n));
            e.add_ava(Attribute::DisplayName, Value::new_utf8s(dn));
            if let Some(m) = mail {
                e.add_ava(Attribute::Mail, Value::new_email_address_primary_s(m).unwrap_or_else(|| Value::new_utf8s("x")));
            }
            if let Some(g) = gid {
                e.add_ava(Attribute::Class, EntryClass::PosixAccount.to_value());
                e.add_ava(Attribute::GidNumber, Value::new_uint32(*g));
            }
            es.push(e);
        }
        for (i, n) in ["gab", "gzz"].iter().enumerate() {
            let mut e: Entry<EntryInit, EntryNew> = Entry::new();
            e.add_ava(Attribute::Class, EntryClass::Object.to_value());
            e.add_ava(Attribute::Class, EntryClass::Group.to_value());
            e.add_ava(Attribute::Uuid, Value::Uuid(Uuid::from_u128(0xc010_0000_0000_4000_8000_0000_0000_0100 + i as u128)));
            e.add_ava(Attribute::Name, Value::new_iname(n));
            es.push(e);
        }
        w.internal_create(es)
    });
    if let Err(e) = r {
        kv_engine::ctx::machinery_exit(&format!("C01 setup: {e:?}"));
    }
    srv
}

/// layout = (attributes whose indexes are dropped, index types dropped everywhere)
type Layout = (Vec<usize>, Vec<IndexType>);

fn install(srv: &Srv, lay: &Layout) -> Result<(), OperationError> {
    srv.write(srv::t(20), |w| {
        let all: Vec<IdxKey> = {
            use kanidmd_lib::schema::SchemaTransaction;
            let mut v = Vec::new();
            for a in w.get_schema().get_attributes().values() {
                if a.indexed || a.unique {
                    for it in a.syntax.index_types() {
                        v.push(IdxKey::new(a.name.clone(), *it));
                    }
                }
            }
            v
        };
        let keep: Vec<IdxKey> = all.into_iter().filter(|k| !lay.0.iter().any(|i| TOGGLED[*i] == k.attr) && !lay.1.contains(&k.itype)).collect();
        let be = w.get_be_txn();
        be.update_idxmeta(keep)?;
        be.reindex(true)
    })
}

/// child: install the layout and answer every filter (cold, then warm). One line per tree:
/// `idx|cold|warm` where each answer is a sorted list of entry ids or `E:<err>`.
fn run_layout(srv: &Srv, lay: &Layout, ts: &[T]) -> String {
    if let Err(e) = install(srv, lay) {
        return format!("machinery:install {e:?}");
    }
    let mut out = Vec::with_capacity(ts.len());
    srv.read(|r| {
        for (i, t) in ts.iter().enumerate() {
            let mut ans = Vec::new();
            for _ in 0..2 {
                let f = Filter::new(to_fc(t));
                match r.internal_search(f) {
                    Ok(v) => {
                        let mut ids: Vec<u64> = v.iter().map(|e| e.get_id()).collect();
                        ids.sort();
                        ans.push(ids.iter().map(|x| x.to_string()).collect::<Vec<_>>().join(","));
                    }
                    Err(e) => ans.push(format!("E:{e:?}")),
                }
            }
            out.push(format!("{i}|{}|{}", ans[0], ans[1]));
        }
    });
    out.join("\n")
}

pub fn run(args: &[String]) -> ! {
    let mut ctx = Ctx::new("C01", Level::ModelChecking, args);
    let srv = template();
    // trees
    let mut ts: Vec<T> = trees(&(0..NLEAF).collect::<Vec<_>>(), 2, 2);
    ts.extend(trees(&[0, 2, 5, 8], 3, 2));
    ts.extend(trees(&[3, 11, 13], 3, 2));
    if ctx.thorough() {
        ts.extend(trees(&[2, 6, 10, 14], 3, 2));
        ts.extend(trees(&[0, 2, 7], 3, 3));
    }
    let mut seen = std::collections::HashSet::new();
    ts.retain(|t| seen.insert(t.clone()));
    if let Some(r) = ctx.replay.clone() {
        if let Ok(t) = serde_json::from_value::<T>(r["case"]["tree"].clone()) {
            ts = vec![t];
        }
    }
    // layouts
    let mut layouts: Vec<Layout> = Vec::new();
    for mask in 0u32..(1 << TOGGLED.len()) {
        layouts.push(((0..TOGGLED.len()).filter(|i| mask & (1 << i) != 0).collect(), vec![]));
    }
    for types in [vec![IndexType::Equality], vec![IndexType::Presence], vec![IndexType::SubString], vec![IndexType::Equality, IndexType::SubString], vec![IndexType::Presence, IndexType::SubString]] {
        layouts.push((vec![], types));
    }
    if ctx.quick() {
        // quick: everything indexed, nothing of the toggled attributes indexed, each single attribute
        // off, and the per-type layouts
        layouts.retain(|l| l.0.len() <= 1 || l.0.len() == TOGGLED.len());
    }
    // reference from a full scan
    let all: Vec<SE> = srv.read(|r| r.internal_search(Filter::new(f_pres(Attribute::Class))).unwrap_or_default());
    let reference: Vec<String> = ts
        .iter()
        .map(|t| {
            let mut ids: Vec<u64> = all.iter().filter(|e| eval(t, e)).map(|e| e.get_id()).collect();
            ids.sort();
            ids.iter().map(|x| x.to_string()).collect::<Vec<_>>().join(",")
        })
        .collect();

    let (mut evals, mut nontrivial, mut nbad) = (0u64, 0u64, 0u64);
    let mut answers: Vec<BTreeMap<String, usize>> = vec![BTreeMap::new(); ts.len()];
    let mut errors = 0u64;
    // every layout in a forked copy of the populated server; the copies run side by side
    let outs = match kv_engine::forkdfs::fork_map(kv_engine::product::ncpu().min(16), layouts.len(), |li| run_layout(&srv, &layouts[li], &ts)) {
        Ok(o) => o,
        Err(e) => kv_engine::ctx::machinery_exit(&format!("C01 layouts: {e}")),
    };
    for (li, lay) in layouts.iter().enumerate() {
        let out = outs[li].clone();
        if out.starts_with("machinery:") {
            ctx.machinery_error(format!("layout {lay:?}: {out}"));
            continue;
        }
        let lname = format!("indexes dropped for {:?}, index types dropped {:?}", lay.0.iter().map(|i| TOGGLED[*i].as_str()).collect::<Vec<_>>(), lay.1);
        for line in out.lines() {
            let p: Vec<&str> = line.split('|').collect();
            if p.len() != 3 {
                continue;
            }
            let i: usize = p[0].parse().unwrap_or(0);
            evals += 2;
            let nonempty = !reference[i].is_empty() && reference[i].split(',').count() < all.len();
            if nonempty && !matches!(ts[i], T::L(_)) {
                nontrivial += 1;
            }
            for (temp, got) in [("cold", p[1]), ("warm", p[2])] {
                if got.starts_with("E:") {
                    errors += 1;
                    continue; // an explicit error is allowed by the statement
                }
                answers[i].entry(got.to_string()).or_insert(li);
                if got != reference[i] {
                    nbad += 1;
                    let want: BTreeSet<&str> = reference[i].split(',').filter(|s| !s.is_empty()).collect();
                    let have: BTreeSet<&str> = got.split(',').filter(|s| !s.is_empty()).collect();
                    let kind = if have.is_subset(&want) { "misses_entries" } else if want.is_subset(&have) { "extra_entries" } else { "wrong_entries" };
                    let nm = |ids: Vec<&&str>| -> Vec<String> { ids.iter().map(|id| all.iter().find(|e| e.get_id().to_string() == ***id).map(|e| format!("{}:{}", id, vals(e, &Attribute::Name).join("/"))).unwrap_or_else(|| id.to_string())).collect() };
                    ctx.violation(
                        &format!("{kind}:{}", shape(&ts[i])),
                        &format!("filter {:?} with {lname} ({temp} cache) returned {} entries, a full scan with boolean semantics gives {} (missing {:?}, extra {:?})", to_fc(&ts[i]), have.len(), want.len(), nm(want.difference(&have).take(6).collect::<Vec<_>>()), nm(have.difference(&want).take(6).collect::<Vec<_>>())),
                        json!({"tree": ts[i], "layout": {"attrs_off": lay.0, "types_off": format!("{:?}", lay.1)}}),
                    );
                }
                if p[1] != p[2] {
                    nbad += 1;
                    ctx.violation(&format!("cache_changes_answer:{}", shape(&ts[i])), &format!("filter {:?} with {lname}: the first (cold) and second (cached resolution) search differ", to_fc(&ts[i])), json!({"tree": ts[i]}));
                }
            }
        }
    }
    // differential: index dependence, independent of the reference evaluator
    let mut dependent = 0u64;
    for (i, a) in answers.iter().enumerate() {
        if a.len() > 1 {
            dependent += 1;
            nbad += 1;
            let ls: Vec<String> = a.values().take(2).map(|li| format!("{:?}", layouts[*li])).collect();
            ctx.violation(&format!("answer_depends_on_indexing:{}", shape(&ts[i])), &format!("filter {:?} has {} different answers across index layouts (e.g. layouts {ls:?})", to_fc(&ts[i]), a.len()), json!({"tree": ts[i]}));
        }
    }
    ctx.set("states", layouts.len() as u64 * 2);
    ctx.set("transitions", evals);
    ctx.set("traces_validated_against_impl", evals);
    ctx.set("evaluations", evals);
    ctx.set("distinct_nontrivial", nontrivial);
    ctx.set("filters", ts.len() as u64);
    ctx.set("index_layouts", layouts.len() as u64);
    ctx.set("searches_answered_with_an_explicit_error", errors);
    ctx.set("filters_whose_answer_depends_on_the_layout", dependent);
    ctx.set("population", all.len() as u64);
    ctx.set("rule", "states = (index layout, cache temperature); transitions = searches. Layouts: every subset of {name, displayname, mail, gidnumber, class} with its indexes dropped from the backend metadata followed by the real reindex (quick: none, each single one, all five) plus 5 layouts dropping index types globally. Filters: all trees of depth 2 / width 2 over 17 leaves and depth 3 over reduced alphabets with AND, OR and AND-NOT in every position. Non-trivial = operator trees whose reference answer is neither empty nor everything");
    ctx.set("bound", "filter depth <= 3, width <= 2 (thorough: 3 on a 3-leaf alphabet); 9 test entries plus all built-in entries of a fresh server");
    ctx.set("mismatches", nbad);
    ctx.set("exhaustive", true);
    ctx.sample(json!({"filter": format!("{:?}", to_fc(&ts[ts.len() / 2])), "reference_ids": reference[ts.len() / 2]}));
    ctx.sample(json!({"filter": format!("{:?}", to_fc(&ts[ts.len().saturating_sub(3)])), "reference_ids": reference[ts.len().saturating_sub(3)]}));
    ctx.assume("searches are made as the internal identity with unlimited limits (access control is C23's subject); an explicit error is an allowed answer");
    ctx.assume("the reference compares the protocol string of each value (all alphabet values are lower case ASCII)");
    ctx.finish();
}
