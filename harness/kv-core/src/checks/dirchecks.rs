//! Properties decided on the DIR world (fork-snapshot search over a small real directory):
//! C03 index mirror, C22 SPN, C26 recycle-bin lifecycle, C19 uniqueness (single server part).

use crate::worlds::dir::{Cfg, Dir, Op};
use kv_engine::forkdfs::{self, Opts};
use kv_engine::{Ctx, Level};
use serde_json::json;

pub fn cfg_for(id: &str, quick: bool) -> (Cfg, u8) {
    let props = [match id {
        "C03" => "C03",
        "C22" => "C22",
        "C26" => "C26",
        "C17" => "C17",
        _ => "C19",
    }]
    .into_iter()
    .collect();
    match id {
        // index mirror: renames, mail, delete/revive/purge, reindex / clear-cache, domain rename
        "C03" => (
            if quick {
                // starts populated so that two operations reach rename-after-rename, external id
                // changes, delete / revive with memberships
                Cfg { slots: vec![0, 2, 4], names: 2, mail: false, members: true, domain_rename: false, lifecycle: true, purge: true, maint: false, precreate: vec![0, 2, 4], premembers: vec![], props, extid: true, revive_all: false }
            } else {
                Cfg { slots: vec![0, 1, 2, 4], names: 2, mail: true, members: true, domain_rename: true, lifecycle: true, purge: true, maint: true, precreate: vec![], premembers: vec![], props, extid: true, revive_all: true }
            },
            if quick { 2 } else { 4 },
        ),
        "C22" => (
            if quick {
                Cfg { slots: vec![0, 2], names: 2, mail: false, members: false, domain_rename: true, lifecycle: true, purge: false, maint: false, precreate: vec![0, 2], premembers: vec![], props, extid: false, revive_all: false }
            } else {
                Cfg { slots: vec![0, 2, 4], names: 2, mail: false, members: false, domain_rename: true, lifecycle: true, purge: false, maint: false, precreate: vec![], premembers: vec![], props, extid: false, revive_all: true }
            },
            if quick { 3 } else { 5 },
        ),
        "C26" => (
            // starts from a populated directory: P1 and P2 in G1 (thorough: G1 in G2)
            Cfg { slots: if quick { vec![0, 1, 2] } else { vec![0, 1, 2, 3] }, names: 0, mail: false, members: true, domain_rename: false, lifecycle: true, purge: true, maint: false, precreate: if quick { vec![0, 1, 2] } else { vec![0, 1, 2, 3] }, premembers: if quick { vec![(2, 0), (2, 1)] } else { vec![(2, 0), (2, 1), (3, 2)] }, props, extid: false, revive_all: true },
            if quick { 4 } else { 6 },
        ),
        // member edges between a person and three groups (cycles and self-edges included),
        // delete / revive of any of them
        "C17" => (
            Cfg { slots: if quick { vec![0, 2, 3] } else { vec![0, 2, 3, 1] }, names: 0, mail: false, members: true, domain_rename: false, lifecycle: true, purge: false, maint: false, precreate: if quick { vec![0, 2, 3] } else { vec![0, 2, 3, 1] }, premembers: vec![], props, extid: false, revive_all: false },
            if quick { 3 } else { 5 },
        ),
        _ => (
            if quick {
                // two people already exist (names a and b): delete / rename / revive clashes are
                // three operations away
                Cfg { slots: vec![0, 1], names: 2, mail: false, members: false, domain_rename: false, lifecycle: true, purge: false, maint: false, precreate: vec![0, 1], premembers: vec![], props, extid: false, revive_all: false }
            } else {
                Cfg { slots: vec![0, 1, 2, 4], names: 2, mail: false, members: false, domain_rename: false, lifecycle: true, purge: false, maint: false, precreate: vec![], premembers: vec![], props, extid: false, revive_all: true }
            },
            if quick { 3 } else { 5 },
        ),
    }
}

pub fn run(id: &'static str, args: &[String]) -> ! {
    let mut ctx = Ctx::new(id, Level::ModelChecking, args);
    let (cfg, depth) = cfg_for(id, ctx.quick());
    let depth = ctx.opt_u64("depth").map(|d| d as u8).unwrap_or(depth);
    let mut w = Dir::new(cfg.clone());

    if let Some(r) = ctx.replay.clone() {
        match forkdfs::replay(&mut w, &r["case"]["trace"]) {
            Ok(v) => {
                for (k, what) in v {
                    println!("{k}: {what}");
                    ctx.violation(&k, &what, r["case"].clone());
                }
            }
            Err(e) => ctx.machinery_error(e),
        }
        ctx.finish();
    }

    let opts = Opts {
        depth,
        procs: ctx.opt_u64("procs").map(|p| p as usize).unwrap_or_else(kv_engine::product::ncpu),
        deadline_s: if ctx.quick() { 50.0 } else { 1500.0 },
        log2_slots: 24,
        dedup: true,
        max_samples: 6,
        par_depth: ctx.opt_u64("par_depth").map(|p| p as usize).unwrap_or(1),
    };
    let rep = forkdfs::run_into_ctx(&mut ctx, &mut w, &opts, "dir");
    ctx.set("bound", format!("all operation sequences of length <= {depth} from the initial directory (empty, or the pre-created entries listed under alphabet.precreate)"));
    ctx.set("depth", u64::from(depth));
    ctx.set("alphabet", json!({"slots": cfg.slots, "names": cfg.names, "mail": cfg.mail, "members": cfg.members, "domain_rename": cfg.domain_rename, "lifecycle": cfg.lifecycle, "purge_and_time_jumps": cfg.purge, "reindex_and_clear_cache": cfg.maint, "precreate": cfg.precreate, "premembers": cfg.premembers}));
    ctx.set("distinct_outcomes", json!(rep.outcomes.keys().collect::<Vec<_>>()));
    ctx.set("exhaustive", !rep.capped);
    if rep.capped {
        ctx.assume("the wall-clock cap was hit: the search is complete only below the stated depth");
    }
    // differential: the canonical form must not merge states with different futures — without
    // pruning the same set of canonical states must be reached (thorough, small depth)
    if ctx.thorough() && ctx.violations_total() == 0 {
        let d2 = std::cmp::min(depth, 3);
        let mut a = Dir::new(cfg.clone());
        let mut b = Dir::new(cfg.clone());
        let scratch = ctx.scratch_dir();
        let with = forkdfs::explore(&mut a, &Opts { depth: d2, dedup: true, ..opts.clone() }, &scratch);
        let without = forkdfs::explore(&mut b, &Opts { depth: d2, dedup: false, ..opts.clone() }, &scratch);
        let _ = std::fs::remove_dir_all(&scratch);
        ctx.set("dedup_differential", json!({"depth": d2, "states_with_pruning": with.states, "states_without_pruning": without.states, "transitions_without_pruning": without.transitions}));
        if with.capped || without.capped {
            ctx.assume("the pruning differential was cut by its time budget and is not evaluated in this run");
        } else if with.states != without.states {
            ctx.machinery_error(format!("canonicalisation is unsound: {} states with pruning, {} without at depth {d2}", with.states, without.states));
        }
    }
    let _: Option<Op> = None;
    ctx.assume("the state is the real server process (in-memory SQLite, caches, schema); successors are forked copies, so every transition is the real code path");
    ctx.assume("time is the harness clock passed to write(); purge windows are crossed with explicit time-jump operations");
    ctx.finish();
}
