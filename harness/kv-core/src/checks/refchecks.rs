//! Properties decided on the REFS world: C16 (no dangling references), C18 (dynamic groups).

use crate::worlds::refs::{Cfg, Op, Refs};
use kv_engine::forkdfs::{self, Opts};
use kv_engine::{Ctx, Level};
use serde_json::json;

/// (name, configuration, depth)
pub fn worlds_for(id: &str, quick: bool) -> Vec<(&'static str, Cfg, u8)> {
    let props = [if id == "C16" { "C16" } else { "C18" }].into_iter().collect::<std::collections::BTreeSet<_>>();
    if id == "C16" {
        let mut v = vec![
            // members, managers and a scope map between existing entries; every delete / revive
            (
                "populated",
                Cfg { slots: vec![0, 2, 3, 5], precreate: vec![0, 2, 3, 5], pre_ops: vec![Op::AddMember(2, 0), Op::AddMember(3, 2), Op::SetManager(2, 0), Op::SetScopeMap(3), Op::SetClaimMaps(2)], refs: true, dynamic: false, purge: !quick, filters: vec![0], props: props.clone() },
                if quick { 2 } else { 4 },
            ),
            // references to entries in the bin and beyond: one person already deleted
            (
                "one-in-the-bin",
                Cfg { slots: vec![0, 1, 2], precreate: vec![0, 1, 2], pre_ops: vec![Op::AddMember(2, 1), Op::Delete(0)], refs: true, dynamic: false, purge: true, filters: vec![0], props: props.clone() },
                if quick { 2 } else { 4 },
            ),
        ];
        if !quick {
            v.push(("from-empty", Cfg { slots: vec![0, 2, 3, 5], precreate: vec![], pre_ops: vec![], refs: true, dynamic: false, purge: true, filters: vec![0], props: props.clone() }, 4));
            v.push(("with-dynamic-group", Cfg { slots: vec![0, 2, 4], precreate: vec![0, 2, 4], pre_ops: vec![Op::AddMember(2, 4)], refs: true, dynamic: true, purge: true, filters: vec![0, 2, 5], props }, 4));
        }
        v
    } else {
        let mut v = vec![
            (
                "two-people-one-dynamic-group",
                Cfg { slots: vec![0, 1, 4], precreate: vec![0, 1, 4], pre_ops: vec![], refs: false, dynamic: true, purge: false, filters: if quick { vec![0, 2, 4] } else { (0..crate::worlds::refs::NFILTERS).collect() }, props: props.clone() },
                if quick { 3 } else { 5 },
            ),
            (
                "groups-and-two-dynamic-groups",
                Cfg { slots: vec![0, 2, 4, 6], precreate: vec![0, 2], pre_ops: vec![], refs: false, dynamic: true, purge: false, filters: vec![5, 0, 2], props: props.clone() },
                if quick { 3 } else { 5 },
            ),
        ];
        if !quick {
            v.push(("with-member-edits-and-purges", Cfg { slots: vec![0, 1, 2, 4], precreate: vec![0, 1, 2, 4], pre_ops: vec![], refs: true, dynamic: true, purge: true, filters: vec![0, 3, 5], props }, 4));
        }
        v
    }
}

pub fn run(id: &'static str, args: &[String]) -> ! {
    let mut ctx = Ctx::new(id, Level::ModelChecking, args);
    let worlds = worlds_for(id, ctx.quick());
    if let Some(r) = ctx.replay.clone() {
        let name = r["case"]["world"].as_str().unwrap_or("");
        match worlds.iter().find(|(n, _, _)| *n == name) {
            Some((_, cfg, _)) => {
                let mut w = Refs::new(cfg.clone());
                match forkdfs::replay(&mut w, &r["case"]["trace"]) {
                    Ok(v) => {
                        for (k, what) in v {
                            println!("{k}: {what}");
                            ctx.violation(&k, &what, r["case"].clone());
                        }
                    }
                    Err(e) => ctx.machinery_error(e),
                }
            }
            None => ctx.machinery_error(format!("replay names an unknown world `{name}`")),
        }
        ctx.finish();
    }
    let mut summary = Vec::new();
    let mut capped_any = false;
    let budget = if ctx.quick() { 50.0 / worlds.len() as f64 } else { 1500.0 / worlds.len() as f64 };
    for (name, cfg, depth) in &worlds {
        let depth = ctx.opt_u64("depth").map(|d| d as u8).unwrap_or(*depth);
        let mut w = Refs::new(cfg.clone());
        let opts = Opts { depth, procs: ctx.opt_u64("procs").map(|p| p as usize).unwrap_or(2), deadline_s: budget, log2_slots: 22, dedup: true, max_samples: 3, par_depth: 1 };
        let rep = forkdfs::run_into_ctx(&mut ctx, &mut w, &opts, name);
        capped_any |= rep.capped;
        summary.push(json!({"world": name, "depth": depth, "states": rep.states, "transitions": rep.transitions, "capped": rep.capped, "slots": cfg.slots, "precreate": cfg.precreate, "pre_ops": format!("{:?}", cfg.pre_ops), "filters": cfg.filters, "outcomes": rep.outcomes.keys().collect::<Vec<_>>() }));
    }
    ctx.set("worlds", json!(summary));
    ctx.set("exhaustive", !capped_any);
    if capped_any {
        ctx.assume("the wall-clock cap was hit in at least one world: that world is complete only below the stated depth");
    }
    ctx.assume("the state is the real server process (in-memory SQLite, caches, plugins); successors are forked copies, so every transition is the real code path");
    ctx.finish();
}
