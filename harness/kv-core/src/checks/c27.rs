//! C27 — authentication needs every factor, and denial is final (AUTH world).

use crate::worlds::auth::{Auth, Cfg, ACCTS};
use kv_engine::forkdfs::{self, Opts};
use kv_engine::{Ctx, Level};
use serde_json::json;

pub fn run(args: &[String]) -> ! {
    let mut ctx = Ctx::new("C27", Level::ModelChecking, args);
    let quick = ctx.quick();
    let cfg = Cfg { accts: vec![0, 1, 2, 3, 4], ticks: vec![31, 301], privileged: !quick, anon_expired: false };
    let depth = ctx.opt_u64("depth").map(|d| d as u8).unwrap_or(if quick { 4 } else { 7 });
    let mut w = Auth::new(cfg.clone());

    if let Some(r) = ctx.replay.clone() {
        if r["case"]["world"].as_str() == Some("auth-anonymous-expired") {
            w = Auth::new(Cfg { accts: vec![2, 0], ticks: vec![], privileged: false, anon_expired: true });
        }
        match forkdfs::replay(&mut w, &r["case"]["trace"]) {
            Ok(v) => {
                for (k, what) in v {
                    println!("{k}: {what}");
                    ctx.violation(&k, &what, r["case"].clone());
                }
            }
            Err(e) => ctx.machinery_error(e),
        }
        ctx.finish();
    }

    let opts = Opts {
        depth,
        procs: ctx.opt_u64("procs").map(|p| p as usize).unwrap_or(2),
        deadline_s: if quick { 35.0 } else { 1500.0 },
        log2_slots: 22,
        dedup: true,
        max_samples: 6,
        par_depth: 1,
    };
    let rep = forkdfs::run_into_ctx(&mut ctx, &mut w, &opts, "auth");
    // second world: the anonymous account itself is outside its validity window
    {
        let cfg2 = Cfg { accts: vec![2, 0], ticks: vec![], privileged: false, anon_expired: true };
        let mut w2 = Auth::new(cfg2);
        let opts2 = Opts { depth: if quick { 4 } else { 5 }, deadline_s: if quick { 15.0 } else { 300.0 }, ..opts.clone() };
        let rep2 = forkdfs::run_into_ctx(&mut ctx, &mut w2, &opts2, "auth-anonymous-expired");
        ctx.set("anonymous_expired_world", json!({"states": rep2.states, "transitions": rep2.transitions, "complete": !rep2.capped}));
    }
    let outcomes: Vec<&String> = rep.outcomes.keys().collect();
    ctx.set("distinct_outcomes", json!(outcomes));
    if !rep.outcomes.keys().any(|k| k == "success") || !rep.outcomes.keys().any(|k| k.starts_with("denied")) || !rep.outcomes.keys().any(|k| k == "continue") {
        ctx.machinery_error("vacuous exploration: no successful login, denial or continuation was observed".into());
    }
    ctx.set("bound", format!("every sequence of <= {depth} protocol steps (Init for each of {} accounts, Begin for each of 4 mechanisms, 9 credential presentations, time steps of 31 s and 301 s) against one current authentication session", cfg.accts.len()));
    ctx.set("depth", u64::from(depth));
    ctx.set("alphabet", json!({"accounts": ACCTS, "mechanisms": ["anonymous", "password", "passwordtotp", "passwordbackupcode"], "credentials": ["right/wrong password", "totp now/previous step/two steps ago/wrong", "right/wrong backup code", "anonymous"], "ticks_s": cfg.ticks, "privileged_init": cfg.privileged}));
    ctx.set("exhaustive", !rep.capped);
    if rep.capped {
        ctx.assume("the wall-clock cap was hit: the search is complete only below the stated depth");
    }
    ctx.assume("states are merged on (model session state, session age, per-account failure count and age, clock phase within the TOTP step); older abandoned sessions cannot be addressed by any operation");
    ctx.assume("an Err reply (as opposed to Denied) is not treated as a denial; only Continue / Success replies are judged");
    ctx.finish();
}
