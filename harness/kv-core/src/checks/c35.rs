//! C35 — account policy resolution is order-independent and strictest.
//!
//! E1 over the real `ResolvedAccountPolicy::fold_from` (hook `fold_policies`):
//!  * alphabet W (wide): 3 values for pw-min / credential type / CA list / fallback, 2 values for
//!    the other four fields = 1296 policies; every ORDERED sequence of length <= 2;
//!  * alphabet N (narrow): 2 values per field = 256 policies; every ordered sequence of length 3
//!    (thorough: 16.7M folds);
//!  * per-field alphabets of 5 values, other fields fixed, every ordered sequence of length <= 5
//!    (thorough) / <= 4 (quick).
//! Oracle (from the statement): result equals the result for the sorted sequence (so every
//! permutation agrees); result is at least as strict as every member for privilege expiry,
//! session expiry, pw minimum length, minimum credential type; trusts only CAs/devices trusted by
//! every member that names a list; SFA minimum length whenever MFA is not required.

use crate::fixtures::{CA_ROOT_A, CA_ROOT_B};
use kanidmd_lib::verif_hooks::{fold_policies, AttestationCaList, CredentialType, VerifPolicy, VerifResolvedPolicy};
use kv_engine::{product, Ctx, Level};
use serde_json::json;
use std::collections::BTreeSet;
use uuid::Uuid;
use webauthn_rs_core::proto::AttestationCaListBuilder;

const PW_SFA_MIN: u32 = 15; // NIST single factor minimum, from the property statement's "single-factor minimum length"

type CaSummary = Option<BTreeSet<(Vec<u8>, Option<Uuid>)>>; // (ca kid, Some(aaguid)) or (kid, None)=blanket

#[derive(Clone, Debug, PartialEq, Eq)]
struct Summ {
    privilege_expiry: u32,
    authsession_expiry: u32,
    pw_min_length: u32,
    pw_max_length: u32,
    cred: u16,
    ca: CaSummary,
    limf: Option<u64>,
    limr: Option<u64>,
    fallback: Option<bool>,
}

fn ca_summary(l: &Option<AttestationCaList>) -> CaSummary {
    l.as_ref().map(|l| {
        let mut s = BTreeSet::new();
        for (kid, ca) in l.cas().iter() {
            let k: &[u8] = kid.as_ref();
            if ca.blanket_allow() {
                s.insert((k.to_vec(), None));
            }
            for a in ca.aaguids().keys() {
                s.insert((k.to_vec(), Some(*a)));
            }
        }
        s
    })
}

fn summ(r: &VerifResolvedPolicy) -> Summ {
    Summ {
        privilege_expiry: r.privilege_expiry,
        authsession_expiry: r.authsession_expiry,
        pw_min_length: r.pw_min_length,
        pw_max_length: r.pw_max_length,
        cred: r.credential_policy as u16,
        ca: ca_summary(&r.webauthn_att_ca_list),
        limf: r.limit_search_max_filter_test,
        limr: r.limit_search_max_results,
        fallback: r.allow_primary_cred_fallback,
    }
}

struct Alphabet {
    privs: Vec<u32>,
    sess: Vec<u32>,
    pws: Vec<u32>,
    creds: Vec<CredentialType>,
    cas: Vec<Option<AttestationCaList>>,
    limf: Vec<Option<u64>>,
    limr: Vec<Option<u64>>,
    fb: Vec<Option<bool>>,
}

impl Alphabet {
    fn radices(&self) -> [u64; 8] {
        [
            self.privs.len() as u64,
            self.sess.len() as u64,
            self.pws.len() as u64,
            self.creds.len() as u64,
            self.cas.len() as u64,
            self.limf.len() as u64,
            self.limr.len() as u64,
            self.fb.len() as u64,
        ]
    }
    fn size(&self) -> u64 {
        product::product_size(&self.radices())
    }
    fn policy(&self, idx: u64) -> VerifPolicy {
        let mut d = [0usize; 8];
        product::decode(idx, &self.radices(), &mut d);
        VerifPolicy {
            privilege_expiry: self.privs[d[0]],
            authsession_expiry: self.sess[d[1]],
            pw_min_length: self.pws[d[2]],
            credential_policy: self.creds[d[3]],
            webauthn_att_ca_list: self.cas[d[4]].clone(),
            limit_search_max_filter_test: self.limf[d[5]],
            limit_search_max_results: self.limr[d[6]],
            allow_primary_cred_fallback: self.fb[d[7]],
        }
    }
}

fn aag(n: u8) -> Uuid {
    Uuid::from_u128(0xaa00_0000_0000_0000_0000_0000_0000_0000 + u128::from(n))
}

fn ca_list(spec: &[(u8, &[u8])]) -> AttestationCaList {
    let mut b = AttestationCaListBuilder::new();
    for (ca, devs) in spec {
        let pem = if *ca == 0 { CA_ROOT_A } else { CA_ROOT_B };
        for d in devs.iter() {
            b.insert_device_pem(pem, aag(*d), format!("dev{d}"), Default::default())
                .unwrap_or_else(|e| kv_engine::ctx::machinery_exit(&format!("CA fixture: {e:?}")));
        }
    }
    b.build()
}

fn wide() -> Alphabet {
    Alphabet {
        privs: vec![600, 7200],
        sess: vec![3600, 86400],
        pws: vec![8, 12, 20],
        creds: vec![CredentialType::Any, CredentialType::Mfa, CredentialType::Passkey],
        cas: vec![None, Some(ca_list(&[(0, &[1, 2]), (1, &[4])])), Some(ca_list(&[(0, &[2, 3])]))],
        limf: vec![None, Some(100)],
        limr: vec![None, Some(50)],
        fb: vec![None, Some(true), Some(false)],
    }
}

fn narrow() -> Alphabet {
    Alphabet {
        privs: vec![600, 7200],
        sess: vec![3600, 86400],
        pws: vec![8, 20],
        creds: vec![CredentialType::Any, CredentialType::Mfa],
        cas: vec![Some(ca_list(&[(0, &[1, 2]), (1, &[4])])), Some(ca_list(&[(0, &[2, 3]), (1, &[4])]))],
        limf: vec![Some(20), Some(100)],
        limr: vec![None, Some(50)],
        fb: vec![Some(true), Some(false)],
    }
}

/// per-field deep alphabets: one field takes 5 values, the others are fixed.
fn per_field(field: usize) -> Alphabet {
    let mut a = Alphabet {
        privs: vec![900],
        sess: vec![7200],
        pws: vec![12],
        creds: vec![CredentialType::Any],
        cas: vec![None],
        limf: vec![None],
        limr: vec![None],
        fb: vec![None],
    };
    match field {
        0 => a.privs = vec![0, 1, 3599, 3600, 3601],
        1 => a.sess = vec![0, 1, 3600, u32::MAX - 1, u32::MAX],
        2 => a.pws = vec![0, 9, 10, 15, 16],
        3 => {
            a.creds = vec![
                CredentialType::Any,
                CredentialType::External,
                CredentialType::Mfa,
                CredentialType::Passkey,
                CredentialType::AttestedPasskey,
            ]
        }
        4 => {
            a.cas = vec![
                None,
                Some(ca_list(&[(0, &[1, 2, 3])])),
                Some(ca_list(&[(0, &[2, 3]), (1, &[4])])),
                Some(ca_list(&[(1, &[4, 5])])),
                Some(ca_list(&[(0, &[3])])),
            ]
        }
        5 => a.limf = vec![None, Some(0), Some(1), Some(100), Some(u64::from(u32::MAX))],
        6 => a.limr = vec![None, Some(0), Some(1), Some(100), Some(u64::from(u32::MAX))],
        _ => {
            a.fb = vec![None, Some(true), Some(false)];
            a.pws = vec![9, 16];
        }
    }
    a
}

/// Check one ordered sequence. Returns a violation (key, what) if any.
fn check_seq(alpha: &Alphabet, seq: &[u64]) -> Option<(String, String)> {
    let pols: Vec<VerifPolicy> = seq.iter().map(|i| alpha.policy(*i)).collect();
    let r = summ(&fold_policies(pols.clone()));
    // order independence: equal to the fold of the sorted sequence
    let mut sorted = seq.to_vec();
    sorted.sort_unstable();
    if sorted != seq {
        let rs = summ(&fold_policies(sorted.iter().map(|i| alpha.policy(*i)).collect()));
        if rs != r {
            let field = if rs.privilege_expiry != r.privilege_expiry {
                "privilege_expiry"
            } else if rs.authsession_expiry != r.authsession_expiry {
                "authsession_expiry"
            } else if rs.pw_min_length != r.pw_min_length {
                "pw_min_length"
            } else if rs.cred != r.cred {
                "credential_policy"
            } else if rs.ca != r.ca {
                "webauthn_att_ca_list"
            } else if rs.limf != r.limf {
                "limit_search_max_filter_test"
            } else if rs.limr != r.limr {
                "limit_search_max_results"
            } else if rs.fallback != r.fallback {
                "allow_primary_cred_fallback"
            } else {
                "pw_max_length"
            };
            return Some((
                format!("order:{field}"),
                format!("fold depends on order in field {field}: seq {seq:?} -> {r:?} but sorted {sorted:?} -> {rs:?}"),
            ));
        }
    }
    for p in &pols {
        if r.privilege_expiry > p.privilege_expiry {
            return Some(("strict:privilege_expiry".into(), format!("privilege expiry {} laxer than member {}", r.privilege_expiry, p.privilege_expiry)));
        }
        if r.authsession_expiry > p.authsession_expiry {
            return Some(("strict:authsession_expiry".into(), format!("session expiry {} laxer than member {}", r.authsession_expiry, p.authsession_expiry)));
        }
        if r.pw_min_length < p.pw_min_length {
            return Some(("strict:pw_min_length".into(), format!("pw min length {} laxer than member {}", r.pw_min_length, p.pw_min_length)));
        }
        if r.cred < p.credential_policy as u16 {
            return Some(("strict:credential_policy".into(), format!("credential type {} laxer than member {:?}", r.cred, p.credential_policy)));
        }
        if let Some(pl) = ca_summary(&p.webauthn_att_ca_list) {
            match &r.ca {
                None => {
                    return Some(("strict:ca_list_dropped".into(), "a member restricts attestation CAs but the result trusts any".into()));
                }
                Some(rl) => {
                    for (kid, dev) in rl {
                        let ok = pl.contains(&(kid.clone(), *dev)) || pl.contains(&(kid.clone(), None));
                        if !ok {
                            return Some(("strict:ca_list_superset".into(), format!("result trusts CA/device {dev:?} that member list does not")));
                        }
                    }
                }
            }
        }
    }
    if r.cred < CredentialType::Mfa as u16 && r.pw_min_length < PW_SFA_MIN {
        return Some(("sfa_min".into(), format!("second factor optional (cred type {}) but pw min length {} < {}", r.cred, r.pw_min_length, PW_SFA_MIN)));
    }
    None
}

#[derive(Default)]
struct Acc {
    evals: u64,
    nontrivial: BTreeSet<u64>, // hashes of distinct result summaries (capped)
    nontrivial_n: u64,
    bad: Vec<(String, String, Vec<u64>)>,
    nbad: u64,
}

fn run_space(ctx: &mut Ctx, name: &str, alpha: &Alphabet, len: usize, results: &mut BTreeSet<u64>) -> (u64, u64) {
    let n = alpha.size();
    let total = n.pow(len as u32);
    let accs = product::par_run(
        product::ncpu(),
        total,
        2048,
        |_| Acc::default(),
        |acc, idx| {
            let mut seq = vec![0u64; len];
            let mut x = idx;
            for s in seq.iter_mut() {
                *s = x % n;
                x /= n;
            }
            acc.evals += 1;
            // non-trivial: the sequence is not already sorted-constant, i.e. it has two different policies
            if seq.iter().any(|s| *s != seq[0]) {
                acc.nontrivial_n += 1;
            }
            if let Some((k, what)) = check_seq(alpha, &seq) {
                acc.nbad += 1;
                if acc.bad.len() < 3 && !acc.bad.iter().any(|b| b.0 == k) {
                    acc.bad.push((k, what, seq.clone()));
                }
            }
            if acc.nontrivial.len() < 4096 {
                let r = summ(&fold_policies(seq.iter().map(|i| alpha.policy(*i)).collect()));
                acc.nontrivial.insert(kv_engine::hash_str(&format!("{r:?}")));
            }
        },
    );
    let mut evals = 0;
    let mut nontriv = 0;
    let mut nbad = 0;
    for a in accs {
        evals += a.evals;
        nontriv += a.nontrivial_n;
        nbad += a.nbad;
        results.extend(a.nontrivial);
        for (k, what, seq) in a.bad {
            let pols: Vec<String> = seq.iter().map(|i| format!("{:?}", summarise_policy(&alpha.policy(*i)))).collect();
            ctx.violation(&k, &what, json!({"space": name, "len": len, "seq": seq, "policies": pols}));
        }
    }
    ctx.add("mismatches", nbad);
    (evals, nontriv)
}

fn summarise_policy(p: &VerifPolicy) -> (u32, u32, u32, u16, CaSummary, Option<u64>, Option<u64>, Option<bool>) {
    (
        p.privilege_expiry,
        p.authsession_expiry,
        p.pw_min_length,
        p.credential_policy as u16,
        ca_summary(&p.webauthn_att_ca_list),
        p.limit_search_max_filter_test,
        p.limit_search_max_results,
        p.allow_primary_cred_fallback,
    )
}

fn space(name: &str) -> Alphabet {
    match name {
        "wide" => wide(),
        "narrow" => narrow(),
        f => per_field(f.trim_start_matches("field").parse().unwrap_or(0)),
    }
}

pub fn run(args: &[String]) -> ! {
    let mut ctx = Ctx::new("C35", Level::Exploration, args);

    if let Some(r) = ctx.replay.clone() {
        let name = r["case"]["space"].as_str().unwrap_or("wide").to_string();
        let alpha = space(&name);
        let seq: Vec<u64> = r["case"]["seq"].as_array().map(|a| a.iter().filter_map(|v| v.as_u64()).collect()).unwrap_or_default();
        for i in &seq {
            println!("policy {i}: {:?}", summarise_policy(&alpha.policy(*i)));
        }
        println!("result: {:?}", summ(&fold_policies(seq.iter().map(|i| alpha.policy(*i)).collect())));
        if let Some((k, what)) = check_seq(&alpha, &seq) {
            ctx.violation(&k, &what, r["case"].clone());
        }
        ctx.finish();
    }

    let mut evals = 0;
    let mut nontriv = 0;
    let mut results = BTreeSet::new();
    let mut spaces: Vec<(String, usize)> = vec![("wide".into(), 1), ("wide".into(), 2), ("narrow".into(), 2)];
    if ctx.thorough() {
        spaces.push(("narrow".into(), 3));
    }
    let maxlen = ctx.pick(4, 5);
    for f in 0..8 {
        for l in 2..=maxlen {
            spaces.push((format!("field{f}"), l));
        }
    }
    let mut described = Vec::new();
    for (name, len) in &spaces {
        let alpha = space(name);
        let (e, n) = run_space(&mut ctx, name, &alpha, *len, &mut results);
        described.push(json!({"space": name, "policies": alpha.size(), "length": len, "sequences": e}));
        evals += e;
        nontriv += n;
    }
    // samples
    let w = wide();
    for seq in [vec![0u64, 1295], vec![7, 650], vec![1295, 3]] {
        let r = summ(&fold_policies(seq.iter().map(|i| w.policy(*i)).collect()));
        ctx.sample(json!({"space": "wide", "seq": seq, "policies": seq.iter().map(|i| format!("{:?}", summarise_policy(&w.policy(*i)))).collect::<Vec<_>>(), "result": format!("{r:?}")}));
    }
    ctx.set("evaluations", evals);
    ctx.set("distinct_nontrivial", nontriv);
    ctx.set("distinct_results_seen_at_least", results.len() as u64);
    ctx.set("spaces", json!(described));
    ctx.set(
        "rule",
        "every ORDERED sequence of policies of the stated length over each alphabet (so all permutations of every multiset are covered); a sequence is non-trivial when it contains at least two different policies; distinct by construction (each index of the product is a different sequence)",
    );
    ctx.set("exhaustive", true);
    ctx.assume("strictness is judged exactly as the statement lists it; search limits are only required to be order independent");
    ctx.assume("policy values outside the alphabets (2-5 values per field chosen to straddle every comparison in the fold) are not covered");
    ctx.finish();
}
