//! C45 — host login requires membership of an allowed group.
//!
//! E1 exhaustive product on the real `KanidmProvider::unix_user_authorise` (every allowed-login
//! list over an alphabet of spellings x every user token over a group alphabet x validity), and
//! the same decision through the real `Resolver::pam_account_allowed` with the user record
//! (a) fetched from a scripted identity server, (b) taken from the machine's cache while the
//! server is unreachable, (c) taken from an out-of-date cache while the server is unreachable.

use crate::edge::{self, group, user_token, Peer, USER};
use kanidm_proto::v1::{UnixGroupToken, UnixUserToken};
use kv_engine::forkdfs::fork_map;
use kv_engine::{Ctx, Level};
use serde_json::json;
use sparkle_resolver_common::idprovider::interface::{IdProvider, UserToken};
use sparkle_unix_common::unix_proto::PamServiceInfo;

fn groups() -> Vec<UnixGroupToken> {
    vec![group(0, "g0"), group(1, "g1"), group(3, "other")]
}

/// spellings that may appear in `pam_allowed_login_groups`
fn spellings() -> Vec<(String, &'static str)> {
    let g = groups();
    vec![
        ("g0".to_string(), "name of g0"),
        (g[0].uuid.hyphenated().to_string(), "uuid of g0"),
        ("g1".to_string(), "name of g1"),
        (g[1].uuid.hyphenated().to_string(), "uuid of g1"),
        ("G0".to_string(), "name of g0 in upper case"),
        ("g0@example.com".to_string(), "spn of g0"),
        (g[0].uuid.simple().to_string(), "uuid of g0 without hyphens"),
        ("g".to_string(), "a prefix of the group names"),
    ]
}

fn tokens() -> Vec<UnixUserToken> {
    let g = groups();
    let mut v = Vec::new();
    for m in 0..8u32 {
        for valid in [true, false] {
            let gs: Vec<UnixGroupToken> = (0..3).filter(|i| m & (1 << i) != 0).map(|i| g[i].clone()).collect();
            v.push(user_token(gs, valid));
        }
    }
    v
}

/// the property, read literally
fn entitled(list: &[String], t: &UnixUserToken) -> bool {
    t.valid && t.groups.iter().any(|g| list.iter().any(|l| *l == g.name || *l == g.uuid.hyphenated().to_string()))
}

fn list_of(mask: usize) -> Vec<String> {
    spellings().iter().enumerate().filter(|(i, _)| mask & (1 << i) != 0).map(|(_, s)| s.0.clone()).collect()
}

fn rt() -> tokio::runtime::Runtime {
    tokio::runtime::Builder::new_current_thread().enable_all().build().unwrap_or_else(|_| kv_engine::ctx::machinery_exit("tokio runtime"))
}

/// part A: one allowed list, every token; returns JSON {results:[...]} or an error text
fn part_a(mask: usize) -> String {
    let list = list_of(mask);
    let toks = tokens();
    rt().block_on(async {
        let (p, _h) = match edge::provider("http://127.0.0.1:1", &list).await {
            Ok(x) => x,
            Err(e) => return format!("E{e}"),
        };
        let mut out = Vec::new();
        for t in &toks {
            let ut = UserToken::from(t.clone());
            let r = p.unix_user_authorise(&ut).await;
            out.push(match r {
                Ok(Some(true)) => 'T',
                Ok(Some(false)) => 'F',
                Ok(None) => 'N',
                Err(_) => 'X',
            });
        }
        out.into_iter().collect::<String>()
    })
}

const MODES: [&str; 4] = ["record fetched from the identity server", "record from the cache, server unreachable", "record from an out-of-date cache, server unreachable", "user unknown to the identity server"];

/// part B: resolver level, one machine per allowed list; every (token, mode) case runs on it
/// with the cache emptied first. Returns one two-letter answer per case, comma separated.
fn part_b(dir: &std::path::Path, lists: &[Vec<String>], li: usize, wanted: &dyn Fn(usize) -> bool) -> String {
    let toks = tokens();
    let nt = toks.len();
    let list = &lists[li];
    let db = dir.join(format!("c45-b-{li}.sqlite"));
    let dbs = db.to_string_lossy().to_string();
    let r = rt().block_on(async {
        let peer = Peer::start("irrelevant", None)?;
        let m = edge::machine(&dbs, &peer.addr, list).await?;
        let info = PamServiceInfo { service: "sshd".to_string(), tty: Some("/dev/pts/0".to_string()), rhost: None };
        let mut out: Vec<String> = Vec::new();
        for ti in 0..nt {
            for mode in 0..MODES.len() {
                let item = (li * nt + ti) * MODES.len() + mode;
                if !wanted(item) {
                    out.push(String::new());
                    continue;
                }
                let t = &toks[ti];
                m.resolver.clear_cache().await.map_err(|_| "clear_cache".to_string())?;
                peer.with(|s| {
                    s.up = true;
                    s.token = if mode == 3 { None } else { Some(t.clone()) };
                    s.log.clear();
                });
                let now = std::time::SystemTime::now().duration_since(std::time::UNIX_EPOCH).map(|d| d.as_secs()).unwrap_or(0);
                match mode {
                    1 => {
                        edge::plant_row(&dbs, &UserToken::from(t.clone()), now + 300).await?;
                        peer.with(|s| s.up = false);
                    }
                    2 => {
                        edge::plant_row(&dbs, &UserToken::from(t.clone()), 1).await?;
                        peer.with(|s| s.up = false);
                    }
                    _ => {}
                }
                // as a daemon that has just started: it will try to reach the server when it needs to
                m.resolver.mark_next_check_now(std::time::SystemTime::now()).await;
                let r = m.resolver.pam_account_allowed(USER, &info).await;
                let fetched = peer.with(|s| s.log.iter().any(|l| l.contains("/_unix/_token") && !l.starts_with("DROPPED")));
                out.push(format!(
                    "{}{}",
                    match r {
                        Ok(Some(true)) => 'T',
                        Ok(Some(false)) => 'F',
                        Ok(None) => 'N',
                        Err(()) => 'X',
                    },
                    if fetched { 'f' } else { 'c' }
                ));
            }
        }
        Ok::<String, String>(out.join(","))
    });
    match r {
        Ok(s) => s,
        Err(e) => format!("E{e}"),
    }
}

// ---- part C: the account record changes on the server while one machine keeps running

#[derive(Clone, Copy, Debug, PartialEq, Eq)]
enum Rec {
    Member,
    InvalidMember,
    NonMember,
    Deleted,
}

#[derive(Clone, Copy, Debug, PartialEq, Eq)]
enum SOp {
    /// the server-side record becomes ...
    Srv(Rec),
    /// the host asks whether the user may log in: server reachable / unreachable; `fresh` =
    /// the cache has run out (or the daemon was told to invalidate it) before the question
    Ask { reachable: bool, fresh: bool },
}

fn sop_str(o: &SOp) -> String {
    match o {
        SOp::Srv(r) => format!("server:{r:?}"),
        SOp::Ask { reachable, fresh } => format!("ask:{}:{}", if *reachable { "reachable" } else { "unreachable" }, if *fresh { "cache-run-out" } else { "cache-as-is" }),
    }
}

fn sop_alphabet() -> Vec<SOp> {
    let mut v: Vec<SOp> = [Rec::Member, Rec::InvalidMember, Rec::NonMember, Rec::Deleted].into_iter().map(SOp::Srv).collect();
    for reachable in [true, false] {
        for fresh in [false, true] {
            v.push(SOp::Ask { reachable, fresh });
        }
    }
    v
}

fn rec_token(r: Rec) -> Option<UnixUserToken> {
    match r {
        Rec::Member => Some(user_token(vec![group(0, "g0")], true)),
        Rec::InvalidMember => Some(user_token(vec![group(0, "g0")], false)),
        Rec::NonMember => Some(user_token(vec![group(3, "other")], true)),
        Rec::Deleted => None,
    }
}

struct SeqLab {
    rt: tokio::runtime::Runtime,
    peer: Peer,
    m: edge::Machine,
}

thread_local! {
    static SEQLAB: std::cell::RefCell<Option<SeqLab>> = const { std::cell::RefCell::new(None) };
}

/// one sequence on this worker's machine (cache emptied first); returns "labels|violations"
fn part_c(dir: &std::path::Path, seq: &[SOp]) -> String {
    SEQLAB.with(|l| {
        let mut l = l.borrow_mut();
        if l.is_none() {
            let rt = rt();
            let made = (|| {
                let peer = Peer::start("irrelevant", rec_token(Rec::Member))?;
                let db = dir.join(format!("c45-seq-{}.sqlite", std::process::id())).to_string_lossy().to_string();
                let m = rt.block_on(edge::machine(&db, &peer.addr, &["g0".to_string()]))?;
                Ok::<_, String>((peer, m))
            })();
            match made {
                Ok((peer, m)) => *l = Some(SeqLab { rt, peer, m }),
                Err(e) => return format!("E{e}"),
            }
        }
        let Some(SeqLab { rt, peer, m }) = l.as_mut() else { return "Elab".to_string() };
        peer.with(|s| {
            s.up = true;
            s.token = rec_token(Rec::Member);
            s.log.clear();
        });
        let r: Result<String, String> = rt.block_on(async {
            m.resolver.clear_cache().await.map_err(|_| "clear_cache".to_string())?;
            let info = PamServiceInfo { service: "sshd".to_string(), tty: None, rhost: None };
            let mut server = Rec::Member;
            // the last record of the user this machine has seen the server give (or deny)
            let mut observed: Option<Rec> = None;
            let mut labels = String::new();
            let mut viol = Vec::new();
            for (step, op) in seq.iter().enumerate() {
                match op {
                    SOp::Srv(r) => {
                        server = *r;
                        peer.with(|s| s.token = rec_token(*r));
                        labels.push('s');
                    }
                    SOp::Ask { reachable, fresh } => {
                        if *fresh {
                            m.resolver.invalidate().await.map_err(|_| "invalidate".to_string())?;
                        }
                        if *reachable {
                            peer.with(|s| s.up = true);
                            m.resolver.mark_next_check_now(std::time::SystemTime::now()).await;
                            let _ = m.resolver.test_connection().await;
                        } else {
                            peer.with(|s| s.up = false);
                            m.resolver.mark_offline().await;
                        }
                        let n = peer.log_len();
                        let r = m.resolver.pam_account_allowed(USER, &info).await;
                        if peer.log_since(n).iter().any(|l| l.contains("/_unix/_token") && !l.starts_with("DROPPED")) {
                            observed = Some(server);
                        }
                        match r {
                            Ok(Some(true)) => {
                                labels.push('T');
                                if observed != Some(Rec::Member) {
                                    viol.push(format!("{step}:{}", match observed { None => "nothing".to_string(), Some(r) => format!("{r:?}") }));
                                }
                            }
                            Ok(Some(false)) => labels.push('F'),
                            Ok(None) => labels.push('N'),
                            Err(()) => labels.push('X'),
                        }
                    }
                }
            }
            Ok(format!("{labels}|{}", viol.join(",")))
        });
        match r {
            Ok(s) => s,
            Err(e) => format!("E{e}"),
        }
    })
}

pub fn run(args: &[String]) -> ! {
    let mut ctx = Ctx::new("C45", Level::Exploration, args);
    let quick = ctx.quick();
    let sp = spellings();
    let toks = tokens();
    let workers = 16;

    // ---- part A
    let masks: Vec<usize> = if let Some(r) = ctx.replay.clone() {
        r["case"]["list_mask"].as_u64().map(|m| vec![m as usize]).unwrap_or_default()
    } else if quick {
        // every list of at most two spellings, and the full list
        (0..(1usize << sp.len())).filter(|m| m.count_ones() <= 2 || *m == (1 << sp.len()) - 1).collect()
    } else {
        (0..(1usize << sp.len())).collect()
    };
    let res = match fork_map(workers, masks.len(), |i| part_a(masks[i])) {
        Ok(r) => r,
        Err(e) => kv_engine::ctx::machinery_exit(&format!("C45 part A: {e}")),
    };
    let mut evals = 0u64;
    let mut admitted = 0u64;
    let mut refused_though_entitled = 0u64;
    let mut bad = 0u64;
    for (mi, r) in res.iter().enumerate() {
        let mask = masks[mi];
        let list = list_of(mask);
        if r.starts_with('E') || r.len() != toks.len() {
            ctx.machinery_error(format!("list {list:?}: {r}"));
            continue;
        }
        for (ti, c) in r.chars().enumerate() {
            evals += 1;
            let t = &toks[ti];
            let want = entitled(&list, t);
            let gnames: Vec<&str> = t.groups.iter().map(|g| g.name.as_str()).collect();
            let case = json!({"part": "provider", "list_mask": mask, "allowed": list, "user_groups": gnames, "valid": t.valid});
            if evals % 211 == 1 && ctx.samples_len() < 4 {
                ctx.sample(json!({"allowed_login_groups": list, "user_groups": gnames, "valid": t.valid, "answer": c.to_string()}));
            }
            match c {
                'T' => {
                    admitted += 1;
                    if !want {
                        bad += 1;
                        let key = if list.is_empty() {
                            "admitted_with_empty_list".to_string()
                        } else if !t.valid {
                            "admitted_invalid_account".to_string()
                        } else {
                            let why: Vec<&str> = sp.iter().enumerate().filter(|(i, _)| mask & (1 << i) != 0).map(|(_, s)| s.1).collect();
                            format!("admitted_without_membership:list_has[{}]", why.join(","))
                        };
                        ctx.violation(&key, &format!("allowed list {list:?}; user in groups {gnames:?}, valid={}: admitted", t.valid), case);
                    }
                }
                'F' => {
                    if want {
                        refused_though_entitled += 1;
                    }
                }
                _ => {
                    ctx.machinery_error(format!("list {list:?} token {ti}: answer {c}"));
                }
            }
        }
    }

    // ---- part B
    let g = groups();
    let lists: Vec<Vec<String>> = vec![
        vec![],
        vec!["g0".to_string()],
        vec![g[0].uuid.hyphenated().to_string()],
        vec!["g1".to_string(), g[0].uuid.hyphenated().to_string()],
        vec!["G0".to_string(), "g0@example.com".to_string(), g[0].uuid.simple().to_string(), "g".to_string()],
    ];
    let dir = ctx.scratch_dir_fast();
    let n_all = lists.len() * toks.len() * MODES.len();
    let only_b: Option<usize> = ctx.replay.as_ref().and_then(|r| r["case"]["item"].as_u64()).map(|i| i as usize).or(ctx.opt_u64("item").map(|i| i as usize));
    let n_b = if ctx.replay.is_some() && only_b.is_none() { 0 } else { n_all };
    let wanted = |i: usize| match only_b {
        Some(o) => i == o,
        // quick: the user tokens without the third group (8 of the 16)
        None => n_b > 0 && (!quick || (i / MODES.len()) % toks.len() < 8),
    };
    let per_list = match fork_map(workers, lists.len(), |li| part_b(&dir, &lists, li, &wanted)) {
        Ok(r) => r,
        Err(e) => kv_engine::ctx::machinery_exit(&format!("C45 part B: {e}")),
    };
    let mut res_b: Vec<String> = Vec::new();
    for (li, r) in per_list.iter().enumerate() {
        let parts: Vec<&str> = r.split(',').collect();
        if r.starts_with('E') || parts.len() != toks.len() * MODES.len() {
            ctx.machinery_error(format!("resolver cases of list {:?}: {r}", lists[li]));
            res_b.extend((0..toks.len() * MODES.len()).map(|_| String::new()));
        } else {
            res_b.extend(parts.iter().map(|x| x.to_string()));
        }
    }
    if let Some(i) = only_b {
        println!("resolver case {i}: {}", res_b.get(i).cloned().unwrap_or_default());
    }
    let mut evals_b = 0u64;
    let mut admitted_b = 0u64;
    let mut by_mode = [0u64; 4];
    for (item, r) in res_b.iter().enumerate() {
        let mode = item % MODES.len();
        let ti = (item / MODES.len()) % toks.len();
        let li = item / MODES.len() / toks.len();
        let (list, t) = (&lists[li], &toks[ti]);
        if r.is_empty() {
            continue;
        }
        if r.starts_with('E') || r.len() != 2 {
            ctx.machinery_error(format!("resolver case {item}: {r}"));
            continue;
        }
        evals_b += 1;
        let gnames: Vec<&str> = t.groups.iter().map(|g| g.name.as_str()).collect();
        let want = mode != 3 && entitled(list, t);
        let c = r.chars().next().unwrap_or('X');
        let fetched = r.ends_with('f');
        // the harness must have reached the path it names
        if (mode == 0) != fetched && mode != 3 {
            ctx.machinery_error(format!("resolver case {item} ({}) : record {} the server", MODES[mode], if fetched { "came from" } else { "did not come from" }));
        }
        if c == 'T' {
            admitted_b += 1;
            by_mode[mode] += 1;
            if !want {
                bad += 1;
                let key = format!("resolver_admitted:{}:{}", MODES[mode].replace(' ', "_"), if list.is_empty() { "empty_list" } else if !t.valid && mode != 3 { "invalid_account" } else { "no_membership" });
                ctx.violation(&key, &format!("{}; allowed list {list:?}; user in groups {gnames:?}, valid={}: admitted", MODES[mode], t.valid), json!({"part": "resolver", "item": item}));
            }
        } else if c == 'X' {
            ctx.machinery_error(format!("resolver case {item} ({}) failed", MODES[mode]));
        } else if want {
            refused_though_entitled += 1;
        }
    }
    // ---- part C
    let alpha = sop_alphabet();
    let depth_c = ctx.opt_u64("depth").unwrap_or(if quick { 4 } else { 5 }) as u32;
    let replay_c: Option<Vec<SOp>> = ctx.replay.as_ref().and_then(|r| r["case"]["sequence"].as_array().cloned()).map(|a| a.iter().filter_map(|x| x.as_str()).filter_map(|x| alpha.iter().copied().find(|o| sop_str(o) == x)).collect());
    let seqs: Vec<Vec<SOp>> = if let Some(s) = replay_c {
        vec![s]
    } else if ctx.replay.is_some() || only_b.is_some() {
        vec![]
    } else {
        // sequences that end with a question (anything else adds nothing to judge)
        (0..alpha.len().pow(depth_c))
            .map(|mut k| {
                let mut v = Vec::new();
                for _ in 0..depth_c {
                    v.push(alpha[k % alpha.len()]);
                    k /= alpha.len();
                }
                v
            })
            .filter(|v| matches!(v[v.len() - 1], SOp::Ask { .. }))
            .collect()
    };
    let res_c = match fork_map(workers, seqs.len(), |i| part_c(&dir, &seqs[i])) {
        Ok(r) => r,
        Err(e) => kv_engine::ctx::machinery_exit(&format!("C45 part C: {e}")),
    };
    let mut steps_c = 0u64;
    let mut admitted_c = 0u64;
    let mut answers: std::collections::BTreeMap<char, u64> = Default::default();
    for (i, r) in res_c.iter().enumerate() {
        let Some((labels, viol)) = r.split_once('|').filter(|_| !r.starts_with('E')) else {
            ctx.machinery_error(format!("sequence {:?}: {r}", seqs[i].iter().map(sop_str).collect::<Vec<_>>()));
            continue;
        };
        if i % (seqs.len() / 3).max(1) == 1 {
            ctx.sample(json!({"events": seqs[i].iter().map(sop_str).collect::<Vec<_>>(), "answers (s = server event, T admitted, F refused, N unknown)": labels}));
        }
        for c in labels.chars() {
            steps_c += 1;
            *answers.entry(c).or_default() += 1;
            if c == 'T' {
                admitted_c += 1;
            }
            if c == 'X' {
                ctx.machinery_error(format!("sequence {:?}: a question failed", seqs[i].iter().map(sop_str).collect::<Vec<_>>()));
            }
        }
        for v in viol.split(',').filter(|v| !v.is_empty()) {
            let (step, seen) = v.split_once(':').unwrap_or(("0", "?"));
            let step: usize = step.parse().unwrap_or(0);
            bad += 1;
            let trace: Vec<String> = seqs[i][..=step.min(seqs[i].len() - 1)].iter().map(sop_str).collect();
            ctx.violation(&format!("admitted_after_the_server_said:{seen}"), &format!("{trace:?}: admitted although the last thing this machine saw of the user's record was: {seen}"), json!({"part": "sequence", "sequence": trace}));
        }
    }
    if ctx.replay.is_none() && only_b.is_none() && admitted_c == 0 {
        ctx.machinery_error("vacuous: no admission in the sequence part".into());
    }
    ctx.set("sequence_part", json!({"depth": depth_c, "sequences": seqs.len(), "steps": steps_c, "admitted": admitted_c, "answers": answers.iter().map(|(k, v)| (k.to_string(), *v)).collect::<std::collections::BTreeMap<_, _>>(), "alphabet": alpha.iter().map(sop_str).collect::<Vec<_>>()}));
    let _ = std::fs::remove_dir_all(&dir);

    if ctx.replay.is_none() && only_b.is_none() && (admitted == 0 || admitted_b == 0 || by_mode[0] == 0 || by_mode[1] == 0 || by_mode[2] == 0) {
        ctx.machinery_error("vacuous: no case was admitted on one of the paths".into());
    }
    ctx.set("evaluations", evals + evals_b + steps_c);
    ctx.set("distinct_nontrivial", admitted + admitted_b + admitted_c);
    ctx.set("provider_cases", evals);
    ctx.set("resolver_cases", evals_b);
    ctx.set("admitted_by_resolver_path", json!({MODES[0]: by_mode[0], MODES[1]: by_mode[1], MODES[2]: by_mode[2], MODES[3]: by_mode[3]}));
    ctx.set("entitled_but_refused", refused_though_entitled);
    ctx.set("mismatches", bad);
    ctx.set("exhaustive", true);
    ctx.set("rule", format!("allowed-login lists = {} of the subsets of {} spellings ({}) x user tokens = every subset of groups {{g0, g1, other}} x valid/invalid, through the real KanidmProvider::unix_user_authorise; and 5 lists x the same tokens (quick: those without the third group) x 4 resolver paths ({}) through the real Resolver::pam_account_allowed over a real TCP connection to a scripted identity server; and every sequence of {depth_c} events (the server-side record becomes member / invalid member / non-member / deleted; the host asks with the server reachable or not, with the cache as it is or run out) that ends with a question, on one running machine: an admission must rest on the last record the machine saw. Non-trivial = cases admitted", if quick { "those with at most two members and the full one" } else { "all" }, sp.len(), sp.iter().map(|s| s.1).collect::<Vec<_>>().join("; "), MODES.join("; ")));
    ctx.assume("one-directional, as the statement is: an admission must be justified by validity and by a group of the user's record that is in the list by exact name or by hyphenated uuid; refusals of entitled users are counted in the evidence, not judged");
    ctx.assume("the user's current account record is the one the resolver holds: fetched from the identity server when it is reachable and the cache is out of date, the cached one otherwise; local (/etc/passwd) accounts are not directory users and are not driven");
    ctx.finish();
}
