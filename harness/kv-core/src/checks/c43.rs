//! C43 — PAM fails closed.
//!
//! E5 scripted peer + E1: the real PAM decision core (`sm_authenticate_connected`,
//! `sm_authenticate_fallback`, `acct_mgmt`) is driven against
//!  (a) a scripted resolver daemon on a socket pair — every sequence, up to a length, of replies
//!      from an alphabet that contains every prompt kind, success, denial, unknown user, errors,
//!      replies of the wrong kind, a malformed frame and an early disconnect — and every kind of
//!      user input (answers, declines, conversation failure), and
//!  (b) every local shadow entry of an alphabet (supported hashes made by openssl / libcrypt,
//!      unsupported, locked, empty, truncated; no expiry, expired, not yet expired) x user input.
//! Oracle: the result is PAM_SUCCESS only if the daemon's last reply was an explicit success
//! (authentication) / an explicit "allowed" (account), or — with no daemon — the shadow entry
//! holds a supported hash that verifies the offered password and the account has not expired.

use kv_engine::{Ctx, Level};
use pam_sparkle_common::pam::ModuleOptions;
use pam_sparkle_common::verif_hooks::{acct_mgmt, sm_authenticate_connected, sm_authenticate_fallback, PamHandler, RequestOptions};
use pam_sparkle_common::constants::PamResultCode;
use pam_sparkle_common::module::PamResult;
use serde_json::json;
use sparkle_unix_common::client_sync::{DaemonClientBlocking, UnixStream};
use sparkle_unix_common::unix_passwd::{CryptPw, EtcShadow, EtcUser};
use sparkle_unix_common::unix_proto::{ClientRequest, ClientResponse, DeviceAuthorizationResponse, PamAuthResponse, PamServiceInfo};
use std::cell::Cell;
use std::io::{Read, Write};
use std::str::FromStr;
use time::OffsetDateTime;

const RIGHT: &str = "right-password";
const H6: &str = "$6$verifsalt$IQelGayeLtDSLFdVNukon78mAKFYriZVQFE3qwL.i.oZm9DUMJHqCKbfFGtJPYBcjBSGHVivFu/jgfXPDyJoK0";
const H5: &str = "$5$verifsalt$stolMsltbL/Do422pmnLyXOfZn1OMh6PVTjRlG/r22C";
const HY: &str = "$y$j9T$5wi.DzZbm2DpKvs8pmZgi1$xGjUwC1UjEwfFOIRDVjZTkdw8S2S6ZdkJXitXb7U9o8";

/// what the user does when asked for something: 0 answers (the right password), 1 answers
/// something wrong, 2 declines (no input), 3 the conversation fails
struct Handler {
    input: usize,
    prompts: Cell<usize>,
    /// what an earlier module of the stack left as the password: 0 nothing, 1 the right
    /// password, 2 a wrong one
    stacked: usize,
}

impl Handler {
    fn answer(&self) -> PamResult<Option<String>> {
        self.prompts.set(self.prompts.get() + 1);
        match self.input {
            0 => Ok(Some(RIGHT.to_string())),
            1 => Ok(Some("wrong-password".to_string())),
            2 => Ok(None),
            _ => Err(PamResultCode::PAM_CONV_ERR),
        }
    }
}

impl PamHandler for Handler {
    fn account_id(&self) -> PamResult<String> {
        Ok("alice".to_string())
    }
    fn service_info(&self) -> PamResult<PamServiceInfo> {
        Ok(PamServiceInfo { service: "login".into(), tty: Some("tty1".into()), rhost: None })
    }
    fn envlist(&self) -> PamResult<Vec<String>> {
        Ok(vec![])
    }
    fn set_env(&self, _value: &str) -> PamResult<()> {
        Ok(())
    }
    fn authtok(&self) -> PamResult<Option<String>> {
        Ok(match self.stacked {
            1 => Some(RIGHT.to_string()),
            2 => Some("wrong-password".to_string()),
            _ => None,
        })
    }
    fn message(&self, _prompt: &str) -> PamResult<()> {
        if self.input == 3 {
            Err(PamResultCode::PAM_CONV_ERR)
        } else {
            Ok(())
        }
    }
    fn message_device_grant(&self, _data: &DeviceAuthorizationResponse) -> PamResult<()> {
        self.message("")
    }
    fn prompt_for_password(&self) -> PamResult<Option<String>> {
        self.answer()
    }
    fn prompt_for_pin(&self, _msg: Option<&str>) -> PamResult<Option<String>> {
        self.answer()
    }
    fn prompt_for_mfacode(&self) -> PamResult<Option<String>> {
        self.answer()
    }
}

#[derive(Clone, Debug)]
enum Reply {
    /// a well-formed response (already serialised)
    Msg(Vec<u8>),
    /// a frame whose JSON is not a response
    Malformed,
    /// close the connection instead of answering
    Disconnect,
}

fn msg(m: ClientResponse) -> Reply {
    Reply::Msg(serde_json::to_vec(&m).unwrap_or_default())
}

fn step(r: PamAuthResponse) -> Reply {
    msg(ClientResponse::PamAuthenticateStepResponse { response: r, session_id: 7 })
}

fn auth_alphabet() -> Vec<(&'static str, Reply)> {
    vec![
        ("success", step(PamAuthResponse::Success)),
        ("denied", step(PamAuthResponse::Denied)),
        ("unknown-user", step(PamAuthResponse::Unknown)),
        ("ask-password", step(PamAuthResponse::Password)),
        ("ask-mfa-code", step(PamAuthResponse::MFACode { msg: "code".into() })),
        ("ask-pin", step(PamAuthResponse::Pin)),
        ("setup-pin", step(PamAuthResponse::SetupPin { msg: "set a pin".into() })),
        ("mfa-poll", step(PamAuthResponse::MFAPoll { msg: "approve".into(), polling_interval: 0 })),
        ("mfa-poll-wait", step(PamAuthResponse::MFAPollWait)),
        ("error", msg(ClientResponse::Error(kanidm_proto::internal::OperationError::InvalidState))),
        ("wrong-kind:ok", msg(ClientResponse::Ok)),
        ("wrong-kind:pam-status-true", msg(ClientResponse::PamStatus(Some(true)))),
        ("wrong-kind:accounts", msg(ClientResponse::NssAccounts(vec![]))),
        ("malformed-frame", Reply::Malformed),
        ("disconnect", Reply::Disconnect),
    ]
}

fn acct_alphabet() -> Vec<(&'static str, Reply)> {
    vec![
        ("allowed", msg(ClientResponse::PamStatus(Some(true)))),
        ("not-allowed", msg(ClientResponse::PamStatus(Some(false)))),
        ("unknown-user", msg(ClientResponse::PamStatus(None))),
        ("error", msg(ClientResponse::Error(kanidm_proto::internal::OperationError::InvalidState))),
        ("wrong-kind:ok", msg(ClientResponse::Ok)),
        ("wrong-kind:auth-success", step(PamAuthResponse::Success)),
        ("malformed-frame", Reply::Malformed),
        ("disconnect", Reply::Disconnect),
    ]
}

/// a scripted daemon on the other end of a socket pair; returns the number of requests it saw
fn daemon(mut s: UnixStream, script: Vec<Reply>) -> std::thread::JoinHandle<usize> {
    std::thread::spawn(move || {
        let mut seen = 0usize;
        let _ = s.set_read_timeout(Some(std::time::Duration::from_secs(5)));
        for r in script {
            // read one frame: u32 big-endian length, then JSON
            let mut len = [0u8; 4];
            if s.read_exact(&mut len).is_err() {
                return seen;
            }
            let mut body = vec![0u8; u32::from_be_bytes(len) as usize];
            if s.read_exact(&mut body).is_err() {
                return seen;
            }
            if serde_json::from_slice::<ClientRequest>(&body).is_err() {
                return seen;
            }
            seen += 1;
            match r {
                Reply::Msg(data) => {
                    let _ = s.write_all(&(data.len() as u32).to_be_bytes());
                    let _ = s.write_all(&data);
                }
                Reply::Malformed => {
                    let data = b"{\"NotAResponse\":1}";
                    let _ = s.write_all(&(data.len() as u32).to_be_bytes());
                    let _ = s.write_all(data);
                }
                Reply::Disconnect => return seen,
            }
        }
        // script exhausted: the daemon goes away
        seen
    })
}

fn opts(ignore_unknown: bool) -> ModuleOptions {
    ModuleOptions { debug: false, use_first_pass: false, ignore_unknown_user: ignore_unknown }
}

fn opts_fp(ignore_unknown: bool, use_first_pass: bool) -> ModuleOptions {
    ModuleOptions { debug: false, use_first_pass, ignore_unknown_user: ignore_unknown }
}

fn shadow_alphabet() -> Vec<(&'static str, String, bool)> {
    // (label, password field, does it hold a supported hash of RIGHT)
    vec![
        ("sha512", H6.to_string(), true),
        ("sha256", H5.to_string(), true),
        ("yescrypt", HY.to_string(), true),
        ("locked-sha512", format!("!{H6}"), false),
        ("double-locked", format!("!!{H6}"), false),
        ("star", "*".to_string(), false),
        ("empty", String::new(), false),
        ("x", "x".to_string(), false),
        ("md5-unsupported", "$1$verifsal$abcdefghijklmnopqrstu.".to_string(), false),
        ("sha512-prefix-only", "$6$".to_string(), false),
        ("sha512-salt-only", "$6$verifsalt$".to_string(), false),
        ("sha512-truncated", H6[..40].to_string(), false),
        ("plaintext", RIGHT.to_string(), false),
    ]
}

#[derive(Debug)]
enum Case {
    Auth { seq: Vec<usize>, input: usize, ign: bool },
    Acct { reply: usize, ign: bool },
    Local { shadow: usize, expiry: usize, input: usize, present: bool, first_pass: bool, stacked: usize },
}

/// (reported success, violation)
fn eval(case: &Case, now: OffsetDateTime) -> (bool, Option<(String, String, serde_json::Value)>) {
    match case {
        Case::Auth { seq, input, ign } => {
            let alpha = auth_alphabet();
            let Ok((a, b)) = UnixStream::pair() else { return (false, Some(("machinery:socketpair".into(), "socketpair failed".into(), json!({})))) };
            let script: Vec<Reply> = seq.iter().map(|i| alpha[*i].1.clone()).collect();
            let d = daemon(b, script);
            let client = DaemonClientBlocking::from(a);
            let h = Handler { input: *input, prompts: Cell::new(0), stacked: 0 };
            let res = sm_authenticate_connected(&h, &opts(*ign), now, &client);
            drop(client);
            let seen = d.join().unwrap_or(0);
            // the reply that decided: the last one the daemon actually sent
            let last = if seen == 0 { None } else { seq.get(seen - 1).map(|i| alpha[*i].0) };
            let labels: Vec<&str> = seq.iter().map(|i| alpha[*i].0).collect();
            let case_json = json!({"path": "auth", "seq": seq, "input": input, "ignore_unknown": ign});
            if res == PamResultCode::PAM_SUCCESS {
                if last != Some("success") {
                    return (true, Some((format!("success_without_daemon_success:{}", last.unwrap_or("nothing")), format!("daemon replies {labels:?} (it answered {seen} requests), user input kind {input}: the module reported PAM_SUCCESS although the last reply was {last:?}"), case_json)));
                }
                (true, None)
            } else if labels == ["success"] {
                (false, Some(("machinery:explicit_success_not_reported".into(), format!("a lone success reply gave {res:?}"), case_json)))
            } else {
                (false, None)
            }
        }
        Case::Acct { reply, ign } => {
            let acct = acct_alphabet();
            let (label, r) = &acct[*reply];
            let Ok((a, b)) = UnixStream::pair() else { return (false, None) };
            let d = daemon(b, vec![r.clone()]);
            let h = Handler { input: 0, prompts: Cell::new(0), stacked: 0 };
            // (the thread-local client of this thread is replaced by every Test socket)
            let res = acct_mgmt(&h, &opts(*ign), RequestOptions::Test { socket: Some(a), users: vec![], shadow: vec![] }, now);
            let _ = d.join();
            if res == PamResultCode::PAM_SUCCESS {
                if *label != "allowed" {
                    return (true, Some((format!("account_allowed_without_daemon_consent:{label}"), format!("daemon reply {label}: acct_mgmt reported PAM_SUCCESS"), json!({"path": "acct", "reply": reply, "ignore_unknown": ign}))));
                }
                return (true, None);
            }
            (false, None)
        }
        Case::Local { shadow, expiry, input, present, first_pass, stacked } => {
            let user = |name: &str| EtcUser { name: name.into(), password: "x".into(), uid: 1000, gid: 1000, gecos: String::new(), homedir: "/home/a".into(), shell: "/bin/sh".into() };
            let (slabel, field, good_hash) = shadow_alphabet().swap_remove(*shadow);
            let (elabel, exp, expired) = expiries(now).swap_remove(*expiry);
            let sh = EtcShadow { name: if *present { "alice".into() } else { "bob".into() }, password: CryptPw::from_str(&field).unwrap_or_default(), epoch_expire_seconds: exp, ..Default::default() };
            let h = Handler { input: *input, prompts: Cell::new(0), stacked: *stacked };
            let res = sm_authenticate_fallback(&h, &opts_fp(false, *first_pass), now, vec![user("alice")], vec![sh.clone()]);
            // the password that reaches the check: the stacked one when use_first_pass is set and
            // there is one, else what the user types
            let offered_right = if *first_pass && *stacked != 0 { *stacked == 1 } else { *input == 0 };
            let may = *present && good_hash && !expired && offered_right;
            let case_json = json!({"path": "local", "shadow": shadow, "expiry": expiry, "input": input, "present": present, "first_pass": first_pass, "stacked": stacked});
            if res == PamResultCode::PAM_SUCCESS {
                if !may {
                    return (true, Some((format!("local_login_accepted:{slabel}:{elabel}"), format!("no daemon; shadow entry {} with password field `{slabel}` and {elabel}; user input kind {input}, use_first_pass {first_pass}, stacked password kind {stacked}: PAM_SUCCESS", if *present { "present" } else { "absent" }), case_json)));
                }
                (true, None)
            } else if may {
                (false, Some(("machinery:valid_local_login_refused".into(), format!("shadow `{slabel}` {elabel} with the right password gave {res:?} (the reference hashes no longer verify: the fixture is broken)"), case_json)))
            } else {
                (false, None)
            }
        }
    }
}

fn expiries(now: OffsetDateTime) -> Vec<(&'static str, Option<OffsetDateTime>, bool)> {
    vec![("no-expiry", None, false), ("expired-long-ago", Some(now - time::Duration::days(30)), true), ("expires-this-instant", Some(now), true), ("expires-tomorrow", Some(now + time::Duration::days(1)), false)]
}

pub fn run(args: &[String]) -> ! {
    let mut ctx = Ctx::new("C43", Level::Exploration, args);
    let now = OffsetDateTime::UNIX_EPOCH + std::time::Duration::from_secs(1_900_000_000);
    let depth = ctx.opt_u64("depth").unwrap_or(ctx.pick(2, 3)) as usize;
    let alpha = auth_alphabet();
    let mut cases: Vec<Case> = Vec::new();
    let mut seqs: Vec<Vec<usize>> = (0..alpha.len()).map(|a| vec![a]).collect();
    let mut layer = seqs.clone();
    for _ in 1..depth {
        let mut next = Vec::new();
        for s in &layer {
            // a sequence is only extended after a reply that keeps the conversation going
            let l = alpha[*s.last().unwrap_or(&0)].0;
            if !(l.starts_with("ask-") || l == "setup-pin" || l.starts_with("mfa-poll")) {
                continue;
            }
            for a in 0..alpha.len() {
                let mut t = s.clone();
                t.push(a);
                next.push(t);
            }
        }
        seqs.extend(next.iter().cloned());
        layer = next;
    }
    for seq in &seqs {
        // a poll-wait before any poll reply sleeps for the module's default interval (1 s of
        // real time): only sequences in which the poll reply (interval 0) comes first are run
        let first_wait = seq.iter().position(|a| alpha[*a].0 == "mfa-poll-wait");
        let first_poll = seq.iter().position(|a| alpha[*a].0 == "mfa-poll");
        if let Some(w) = first_wait {
            if first_poll.map(|p| p > w).unwrap_or(true) {
                continue;
            }
        }
        for input in 0..4usize {
            for ign in [false, true] {
                cases.push(Case::Auth { seq: seq.clone(), input, ign });
            }
        }
    }
    for reply in 0..acct_alphabet().len() {
        for ign in [false, true] {
            cases.push(Case::Acct { reply, ign });
        }
    }
    for shadow in 0..shadow_alphabet().len() {
        for expiry in 0..4usize {
            for input in 0..4usize {
                for present in [true, false] {
                    for (first_pass, stacked) in [(false, 0usize), (false, 1), (true, 0), (true, 1), (true, 2)] {
                        cases.push(Case::Local { shadow, expiry, input, present, first_pass, stacked });
                    }
                }
            }
        }
    }
    if let Some(r) = ctx.replay.clone() {
        let c = &r["case"];
        let one = match c["path"].as_str() {
            Some("auth") => Case::Auth { seq: c["seq"].as_array().map(|a| a.iter().filter_map(|x| x.as_u64()).map(|x| x as usize).collect()).unwrap_or_default(), input: c["input"].as_u64().unwrap_or(0) as usize, ign: c["ignore_unknown"].as_bool().unwrap_or(false) },
            Some("acct") => Case::Acct { reply: c["reply"].as_u64().unwrap_or(0) as usize, ign: c["ignore_unknown"].as_bool().unwrap_or(false) },
            _ => Case::Local { shadow: c["shadow"].as_u64().unwrap_or(0) as usize, expiry: c["expiry"].as_u64().unwrap_or(0) as usize, input: c["input"].as_u64().unwrap_or(0) as usize, present: c["present"].as_bool().unwrap_or(true), first_pass: c["first_pass"].as_bool().unwrap_or(false), stacked: c["stacked"].as_u64().unwrap_or(0) as usize },
        };
        cases = vec![one];
    }
    // (a disconnecting daemon costs the client its 2 s timeout: the cases run on many threads)
    let accs = kv_engine::product::par_run(32.min(cases.len().max(1)), cases.len() as u64, 1, |_| (0u64, Vec::new()), |acc: &mut (u64, Vec<(String, String, serde_json::Value)>), i| {
        let (succ, v) = eval(&cases[i as usize], now);
        if succ {
            acc.0 += 1;
        }
        if let Some(v) = v {
            acc.1.push(v);
        }
    });
    let (mut successes, mut nbad) = (0u64, 0u64);
    for (s, vs) in accs {
        successes += s;
        for (k, w, c) in vs {
            if k.starts_with("machinery:") {
                ctx.machinery_error(format!("{k}: {w}"));
            } else {
                nbad += 1;
                ctx.violation(&k, &w, c);
            }
        }
    }
    for i in [0, cases.len() / 3, (2 * cases.len()) / 3, cases.len().saturating_sub(1)] {
        if let Some(c) = cases.get(i) {
            ctx.sample(json!({"case": format!("{c:?}")}));
        }
    }
    ctx.set("evaluations", cases.len() as u64);
    ctx.set("distinct_nontrivial", successes);
    ctx.set("mismatches", nbad);
    ctx.set("rule", format!("connected: every sequence of 1..={depth} daemon replies over {} kinds (every prompt, success, denied, unknown user, poll, error, 3 replies of the wrong kind, a malformed frame, a disconnect; a sequence continues only after a reply that keeps the conversation going) x 4 kinds of user input x ignore_unknown_user; account phase: {} reply kinds; no daemon: {} shadow password fields x 4 expiry settings x 4 inputs x entry present / absent x (use_first_pass, password left by an earlier module: none / right / wrong)", alpha.len(), acct_alphabet().len(), shadow_alphabet().len()));
    ctx.set("exhaustive", true);
    ctx.assume("the reference hashes of the right password were produced outside the code under test (openssl passwd -5 / -6, libcrypt yescrypt)");
    ctx.assume("the account phase with the daemon is driven through the test variant of RequestOptions (socket supplied by the harness); reading /etc/passwd, /etc/shadow and the module configuration file is not exercised");
    ctx.finish();
}
