//! C29 — TOTP accepts exactly the current and previous code.
//!
//! E1 over the real `Totp::verify`. Product: secrets of length {0,1,20,32,64,65,128,129,200}
//! (two byte patterns) x {SHA1,SHA256,SHA512} x {6,8} digits x steps {30,31,60} x times (every
//! second over four steps starting at t = step, plus instants around 2^31 and 2^32).
//! Candidates per case: the RFC codes of counters c-3..c+3 and their +-1 numeric neighbours (quick
//! and thorough), and for a slice of cases ALL 10^6 six-digit codes / all 10^8 eight-digit codes
//! (thorough) so that the accept set is shown to be exactly {code(c), code(c-1)}.
//! Oracle: oracles/totp_oracle.py (python hmac/hashlib; self-tested on the RFC vectors).

use kanidmd_lib::credential::totp::{Totp, TotpAlgo, TotpDigits};
use kv_engine::{product, Ctx, Level};
use serde_json::{json, Value};
use std::collections::{BTreeMap, BTreeSet};
use std::io::Write;
use std::time::Duration;

fn secrets() -> Vec<Vec<u8>> {
    let mut v = Vec::new();
    for len in [0usize, 1, 20, 32, 64, 65, 128, 129, 200] {
        v.push((0..len).map(|i| (i as u8).wrapping_mul(7).wrapping_add(0x31)).collect());
        if len > 0 {
            v.push(vec![0xffu8; len]);
        }
    }
    v
}

const ALGOS: [(TotpAlgo, &str); 3] = [(TotpAlgo::Sha1, "sha1"), (TotpAlgo::Sha256, "sha256"), (TotpAlgo::Sha512, "sha512")];
const STEPS: [u64; 3] = [30, 31, 60];

fn times(step: u64, quick: bool) -> Vec<u64> {
    let mut t: Vec<u64> = if quick {
        // every second of the first two steps after t=step, then step edges
        (step..3 * step).collect()
    } else {
        (step..5 * step).collect()
    };
    for base in [1u64 << 31, 1u64 << 32, 2_000_000_000] {
        let edge = base - base % step;
        for d in [-2i64, -1, 0, 1] {
            t.push((edge as i64 + d) as u64);
        }
        t.push(base - 1);
        t.push(base);
        t.push(base + 1);
    }
    t.sort();
    t.dedup();
    t
}

fn oracle(ctx: &Ctx, reqs: &[(usize, usize, u64)], secs: &[Vec<u8>]) -> Vec<(u32, u32)> {
    let path = ctx.verif_dir().join("oracles/totp_oracle.py");
    let body: Vec<Value> = reqs
        .iter()
        .map(|(s, a, c)| json!({"secret": hex::encode(&secs[*s]), "algo": ALGOS[*a].1, "counter": c}))
        .collect();
    let mut child = std::process::Command::new("python3")
        .arg(&path)
        .stdin(std::process::Stdio::piped())
        .stdout(std::process::Stdio::piped())
        .spawn()
        .unwrap_or_else(|e| kv_engine::ctx::machinery_exit(&format!("cannot start python oracle: {e}")));
    {
        let mut stdin = child.stdin.take().unwrap_or_else(|| kv_engine::ctx::machinery_exit("no stdin"));
        stdin
            .write_all(serde_json::to_string(&body).unwrap_or_default().as_bytes())
            .unwrap_or_else(|e| kv_engine::ctx::machinery_exit(&format!("oracle stdin: {e}")));
    }
    let out = child
        .wait_with_output()
        .unwrap_or_else(|e| kv_engine::ctx::machinery_exit(&format!("oracle wait: {e}")));
    if !out.status.success() {
        kv_engine::ctx::machinery_exit("python oracle failed (self-test or input)");
    }
    let v: Vec<Value> = serde_json::from_slice(&out.stdout).unwrap_or_else(|e| kv_engine::ctx::machinery_exit(&format!("oracle output: {e}")));
    v.iter()
        .map(|x| (x["c6"].as_u64().unwrap_or(0) as u32, x["c8"].as_u64().unwrap_or(0) as u32))
        .collect()
}

#[derive(Default)]
struct Acc {
    evals: u64,
    accepts: u64,
    bad: Vec<(String, String, Value)>,
    nbad: u64,
}

pub fn run(args: &[String]) -> ! {
    let mut ctx = Ctx::new("C29", Level::Exploration, args);
    let quick = ctx.quick();
    let secs = secrets();

    // all (secret, algo, counter) the cases need
    let mut need: BTreeSet<(usize, usize, u64)> = BTreeSet::new();
    let mut cases: Vec<(usize, usize, usize, u64, u64)> = Vec::new(); // secret, algo, digits(0=6,1=8), step, time
    for s in 0..secs.len() {
        for a in 0..3 {
            for step in STEPS {
                for t in times(step, quick) {
                    let c = t / step;
                    for k in c.saturating_sub(3)..=c + 3 {
                        need.insert((s, a, k));
                    }
                    for d in 0..2 {
                        cases.push((s, a, d, step, t));
                    }
                }
            }
        }
    }
    let reqs: Vec<(usize, usize, u64)> = need.iter().copied().collect();
    let codes = oracle(&ctx, &reqs, &secs);
    let table: BTreeMap<(usize, usize, u64), (u32, u32)> = reqs.iter().copied().zip(codes).collect();

    if let Some(r) = ctx.replay.clone() {
        let c = &r["case"];
        let (s, a, d, step, t) = (
            c["secret_idx"].as_u64().unwrap_or(0) as usize,
            c["algo_idx"].as_u64().unwrap_or(0) as usize,
            c["digits_idx"].as_u64().unwrap_or(0) as usize,
            c["step"].as_u64().unwrap_or(30),
            c["time"].as_u64().unwrap_or(30),
        );
        let totp = Totp::new(secs[s].clone(), step, ALGOS[a].0, if d == 0 { TotpDigits::Six } else { TotpDigits::Eight });
        let cand = c["candidate"].as_u64().unwrap_or(0) as u32;
        let got = totp.verify(cand, Duration::from_secs(t));
        println!("secret_len={} algo={} step={step} time={t} candidate={cand} -> accepted={got}", secs[s].len(), ALGOS[a].1);
        let exp = c["expected_accept"].as_bool().unwrap_or(false);
        if got != exp {
            ctx.violation("replay", "verify disagrees with the RFC 6238 oracle", c.clone());
        }
        ctx.finish();
    }

    let pick = |e: (u32, u32), d: usize| if d == 0 { e.0 } else { e.1 };
    let modulus = |d: usize| if d == 0 { 1_000_000u32 } else { 100_000_000u32 };

    let accs = product::par_run(
        product::ncpu(),
        cases.len() as u64,
        64,
        |_| Acc::default(),
        |acc, i| {
            let (s, a, d, step, t) = cases[i as usize];
            let totp = Totp::new(secs[s].clone(), step, ALGOS[a].0, if d == 0 { TotpDigits::Six } else { TotpDigits::Eight });
            let c = t / step;
            let cur = pick(table[&(s, a, c)], d);
            let prev = pick(table[&(s, a, c - 1)], d);
            let mut cands: BTreeSet<u32> = BTreeSet::new();
            for k in c.saturating_sub(3)..=c + 3 {
                let code = pick(table[&(s, a, k)], d);
                cands.insert(code);
                cands.insert((code + 1) % modulus(d));
                cands.insert((code + modulus(d) - 1) % modulus(d));
            }
            cands.insert(0);
            cands.insert(modulus(d) - 1);
            cands.insert(modulus(d)); // out of range candidate
            for cand in cands {
                let exp = cand == cur || cand == prev;
                let got = totp.verify(cand, Duration::from_secs(t));
                acc.evals += 1;
                if got {
                    acc.accepts += 1;
                }
                if got != exp {
                    acc.nbad += 1;
                    let block = if a == 2 { 128 } else { 64 };
                    let key = format!(
                        "{}:{}",
                        if exp { "valid_code_rejected" } else { "wrong_code_accepted" },
                        if secs[s].len() > block { "key_longer_than_hmac_block" } else { "key_within_block" }
                    );
                    if !acc.bad.iter().any(|b| b.0 == key) {
                        acc.bad.push((
                            key,
                            format!("secret_len={} algo={} digits={} step={step} time={t} candidate={cand}: accepted={got}, RFC says {exp} (cur={cur} prev={prev})", secs[s].len(), ALGOS[a].1, if d == 0 { 6 } else { 8 }),
                            json!({"secret_idx": s, "algo_idx": a, "digits_idx": d, "step": step, "time": t, "candidate": cand, "expected_accept": exp}),
                        ));
                    }
                }
            }
        },
    );
    let mut evals = 0;
    let mut accepts = 0;
    for a in accs {
        evals += a.evals;
        accepts += a.accepts;
        ctx.add("mismatches", a.nbad);
        for (k, w, r) in a.bad {
            ctx.violation(&k, &w, r);
        }
    }

    // thorough: the full code space for a slice of cases
    let mut full_sweeps = 0u64;
    if !quick {
        let mut slice: Vec<(usize, usize, usize, u64, u64)> = Vec::new();
        for (i, s) in [0usize, 3, 5, 9, 16].iter().enumerate() {
            for a in 0..3 {
                for (j, step) in STEPS.iter().enumerate() {
                    let t = step * (2 + ((i + j) as u64 % 3)) + (7 * (i as u64 + a as u64)) % step;
                    slice.push((*s % secs.len(), a, 0, *step, t));
                }
            }
        }
        // three eight-digit sweeps
        slice.push((3, 0, 1, 30, 95));
        slice.push((5, 1, 1, 31, 100));
        slice.push((9, 2, 1, 60, 200));
        for (s, a, d, step, t) in slice {
            let totp = Totp::new(secs[s].clone(), step, ALGOS[a].0, if d == 0 { TotpDigits::Six } else { TotpDigits::Eight });
            let c = t / step;
            let need2: Vec<(usize, usize, u64)> = vec![(s, a, c), (s, a, c - 1)];
            let got = oracle(&ctx, &need2, &secs);
            let cur = pick(got[0], d);
            let prev = pick(got[1], d);
            let total = u64::from(modulus(d)) + 16;
            let accs = product::par_run(
                product::ncpu(),
                total,
                1 << 14,
                |_| (0u64, Vec::<u32>::new()),
                |acc, cand| {
                    let cand = cand as u32;
                    let got = totp.verify(cand, Duration::from_secs(t));
                    let exp = cand == cur || cand == prev;
                    acc.0 += 1;
                    if got != exp && acc.1.len() < 3 {
                        acc.1.push(cand);
                    }
                },
            );
            for (n, bad) in accs {
                evals += n;
                for cand in bad {
                    let exp = cand == cur || cand == prev;
                    let block = if a == 2 { 128 } else { 64 };
                    let key = format!(
                        "{}:{}",
                        if exp { "valid_code_rejected" } else { "wrong_code_accepted" },
                        if secs[s].len() > block { "key_longer_than_hmac_block" } else { "key_within_block" }
                    );
                    ctx.violation(
                        &key,
                        &format!("full sweep: secret_len={} algo={} step={step} time={t} candidate={cand} accepted={}", secs[s].len(), ALGOS[a].1, !exp),
                        json!({"secret_idx": s, "algo_idx": a, "digits_idx": d, "step": step, "time": t, "candidate": cand, "expected_accept": exp}),
                    );
                }
            }
            full_sweeps += 1;
        }
    }

    ctx.set("evaluations", evals);
    // non-trivial: candidates that must be accepted (the code of c or c-1) — each is a distinct
    // (secret, algo, digits, step, time, code) tuple
    ctx.set("distinct_nontrivial", accepts);
    ctx.set("cases", cases.len() as u64);
    ctx.set("oracle_counters_computed", reqs.len() as u64);
    ctx.set("full_code_space_sweeps", full_sweeps);
    ctx.set("exhaustive", true);
    ctx.set(
        "rule",
        "product secrets(17: lengths 0..200 incl. > HMAC block) x 3 algos x 2 digit counts x steps {30,31,60} x times (every second of 2 (quick) / 4 (thorough) steps from t=step, and instants around 2^31, 2^32, 2e9); per case the candidates are the RFC codes for counters c-3..c+3, their +-1 neighbours, 0, max, max+1; thorough adds full 10^6 / 10^8 code-space sweeps. distinct_nontrivial = accepted candidates (each must equal code(c) or code(c-1))",
    );
    ctx.sample(json!({"secret_len": 20, "algo": "sha1", "digits": 8, "step": 30, "time": 59, "candidate": 94287082, "expect": "accepted (RFC 6238 vector)"}));
    ctx.sample(json!({"secret_len": 20, "algo": "sha1", "digits": 6, "step": 30, "time": 60, "candidate": "code of counter 0 (two steps ago)", "expect": "rejected"}));
    ctx.assume("python hmac/hashlib (OpenSSL) is an independent, correct HMAC; the oracle self-tests on the RFC 6238 and RFC 4226 vectors at every run");
    ctx.finish();
}
