//! C21 — POSIX ids never land in reserved ranges.
//!
//! E1 over the gidnumber plugin's kernel (`apply_gidnumber`, via the `VerifGidKernel` hook):
//!  * supplied side: a caller-supplied gid g is accepted only if g is outside the reserved set,
//!    and is stored unchanged;
//!  * generated side: the gid generated for a uuid is outside the reserved set, is the same on a
//!    second call, and depends only on the uuid.
//! thorough: all 2^32 supplied values and all 2^32 values of the uuid bytes used for generation.
//! quick: every value within 4096 of any boundary of the reserved table or of the code's own
//! range table, plus [0, 2^17) and [2^31 - 2^16, 2^31 + 2^16), plus the top 2^16 values.
//! Conformance: the real create / modify plugin path on a server agrees with the kernel on 48
//! boundary values.

use crate::srv::{self, Srv};
use kanidmd_lib::entry::{Entry, EntryInit, EntryNew};
use kanidmd_lib::prelude::*;
use kanidmd_lib::verif_hooks::VerifGidKernel;
use kv_engine::{product, Ctx, Level};
use serde_json::json;

/// Reserved per the property statement and systemd's UIDS-GIDS allocation (NOT read from the code):
/// operating system 0..=999, systemd-homed 60001..=60577, systemd dynamic service users
/// 61184..=65519, nobody 65534, 16 bit sentinel 65535.
const RESERVED: [(u32, u32); 5] = [(0, 999), (60001, 60577), (61184, 65519), (65534, 65534), (65535, 65535)];

fn reserved(g: u32) -> bool {
    RESERVED.iter().any(|(a, b)| (*a..=*b).contains(&g))
}

fn quick_ranges() -> Vec<(u64, u64)> {
    // boundaries: the oracle's table plus every constant in the code's table (as published in
    // the plugin's comments): 1000, 60000, 60578, 61183, 65520, 65533, 65536, 524287, 524288,
    // 1879048191, 1879048192, 2147483647, 2147483648.
    let mut pts: Vec<u64> = vec![
        0, 999, 1000, 60000, 60001, 60577, 60578, 61183, 61184, 65519, 65520, 65533, 65534, 65535, 65536, 524287, 524288, 1879048191, 1879048192,
        2147483647, 2147483648, 4294967295,
    ];
    pts.sort();
    let mut r: Vec<(u64, u64)> = vec![(0, 1 << 17), ((1u64 << 31) - (1 << 16), (1u64 << 31) + (1 << 16)), ((1u64 << 32) - (1 << 16), 1u64 << 32)];
    for p in pts {
        r.push((p.saturating_sub(4096), std::cmp::min(p + 4096, 1u64 << 32)));
    }
    // merge
    r.sort();
    let mut m: Vec<(u64, u64)> = Vec::new();
    for (a, b) in r {
        if let Some(last) = m.last_mut() {
            if a <= last.1 {
                last.1 = std::cmp::max(last.1, b);
                continue;
            }
        }
        m.push((a, b));
    }
    m
}

struct Acc {
    k: VerifGidKernel,
    evals: u64,
    accepted: u64,
    rejected: u64,
    bad: Vec<(String, String, u64)>,
    nbad: u64,
}

fn uuid_with_low(fix: u128, low: u32) -> Uuid {
    Uuid::from_u128((fix & !0xffff_ffffu128) | u128::from(low))
}

const FIX: [u128; 3] = [
    0x83a0927f_3de1_45ec_bea0_2f7b00000000,
    0x00000000_0000_0000_0000_000000000000,
    0xffffffff_ffff_ffff_ffff_ffff00000000,
];

fn check_supplied(k: &mut VerifGidKernel, g: u32) -> Option<(String, String)> {
    let u = uuid_with_low(FIX[0], 0x1234_5678);
    match k.run(u, Some(g)) {
        Ok(Some(got)) => {
            if got != g {
                return Some(("supplied_changed".into(), format!("supplied gid {g} was stored as {got}")));
            }
            if reserved(g) {
                return Some((format!("supplied_reserved_accepted:{}", range_name(g)), format!("supplied gid {g} lies in a reserved range but was accepted")));
            }
            None
        }
        Ok(None) => Some(("supplied_lost".into(), format!("supplied gid {g} disappeared"))),
        Err(_) => None, // rejecting is always allowed by the property
    }
}

fn range_name(g: u32) -> &'static str {
    match g {
        0..=999 => "os",
        60001..=60577 => "homed",
        61184..=65519 => "systemd-dynamic",
        65534 => "nobody",
        65535 => "sentinel16",
        _ => "none",
    }
}

fn check_generated(k: &mut VerifGidKernel, low: u32, fixings: usize) -> Option<(String, String)> {
    let mut first = None;
    for (i, fix) in FIX.iter().enumerate().take(fixings) {
        let u = uuid_with_low(*fix, low);
        let a = k.run(u, None);
        let g = match a {
            Ok(Some(g)) => g,
            other => return Some(("generated_none".into(), format!("no gid generated for uuid {u}: {other:?}"))),
        };
        if reserved(g) {
            return Some((format!("generated_reserved:{}", range_name(g)), format!("uuid {u} generated reserved gid {g}")));
        }
        if i == 0 {
            // deterministic: second call gives the same value
            match k.run(u, None) {
                Ok(Some(g2)) if g2 == g => {}
                other => return Some(("generated_nondeterministic".into(), format!("uuid {u}: first {g}, second {other:?}"))),
            }
            first = Some(g);
        } else if Some(g) != first {
            // The statement only says "a deterministic function of the entry's UUID"; dependence on
            // other uuid bytes is allowed. Not a violation — just recorded by the caller.
        }
    }
    None
}

fn sweep(ctx: &mut Ctx, ranges: &[(u64, u64)], side: &str, fixings: usize) -> (u64, u64, u64) {
    let mut evals = 0;
    let mut acc_n = 0;
    let mut rej_n = 0;
    for (a, b) in ranges {
        let total = b - a;
        let accs = product::par_run(
            product::ncpu(),
            total,
            1 << 16,
            |_| Acc {
                k: VerifGidKernel::new().unwrap_or_else(|e| kv_engine::ctx::machinery_exit(&format!("gid kernel: {e:?}"))),
                evals: 0,
                accepted: 0,
                rejected: 0,
                bad: Vec::new(),
                nbad: 0,
            },
            |acc, i| {
                let v = (a + i) as u32;
                acc.evals += 1;
                let r = if side == "supplied" {
                    let r = check_supplied(&mut acc.k, v);
                    r
                } else {
                    check_generated(&mut acc.k, v, fixings)
                };
                if side == "supplied" {
                    // count accept/reject for the evidence
                    if acc.k.run(uuid_with_low(FIX[0], 1), Some(v)).is_ok() {
                        acc.accepted += 1;
                    } else {
                        acc.rejected += 1;
                    }
                }
                if let Some((k, what)) = r {
                    acc.nbad += 1;
                    if !acc.bad.iter().any(|b| b.0 == k) {
                        acc.bad.push((k, what, u64::from(v)));
                    }
                }
            },
        );
        for a in accs {
            evals += a.evals;
            acc_n += a.accepted;
            rej_n += a.rejected;
            ctx.add("mismatches", a.nbad);
            for (k, what, v) in a.bad {
                ctx.violation(&k, &what, json!({"side": side, "value": v}));
            }
        }
    }
    (evals, acc_n, rej_n)
}

/// the real plugin path: create a posix group with a supplied gid / without, on a real server
fn conformance(ctx: &mut Ctx) -> u64 {
    let srv = Srv::new();
    let mut k = VerifGidKernel::new().unwrap_or_else(|e| kv_engine::ctx::machinery_exit(&format!("gid kernel: {e:?}")));
    let vals: Vec<u32> = vec![
        0, 1, 999, 1000, 1001, 59999, 60000, 60001, 60002, 60577, 60578, 61183, 61184, 61185, 65519, 65520, 65533, 65534, 65535, 65536, 524287, 524288,
        1879048191, 1879048192, 2147483647, 2147483648, 4294967294, 4294967295,
    ];
    let mut n = 0;
    for (i, g) in vals.iter().enumerate() {
        let u = Uuid::from_u128(0xcafe0000_0000_4000_8000_000000000000 + i as u128);
        let name = format!("pg{i}");
        // create path
        let r = srv.write_abort(srv::t(10), |w| {
            let mut e: Entry<EntryInit, EntryNew> = Entry::new();
            e.add_ava(Attribute::Class, EntryClass::Object.to_value());
            e.add_ava(Attribute::Class, EntryClass::Group.to_value());
            e.add_ava(Attribute::Class, EntryClass::PosixGroup.to_value());
            e.add_ava(Attribute::Name, Value::new_iname(&name));
            e.add_ava(Attribute::Uuid, Value::Uuid(u));
            e.add_ava(Attribute::GidNumber, Value::new_uint32(*g));
            let r = w.internal_create(vec![e]);
            r.map(|_| w.internal_search_uuid(u).ok().and_then(|e| e.get_ava_single_uint32(Attribute::GidNumber)))
        });
        let real = match r {
            Ok(Ok(v)) => Ok(v),
            Ok(Err(e)) => Err(e),
            Err(e) => Err(e),
        };
        let kern = k.run(u, Some(*g));
        n += 1;
        let agree = match (&real, &kern) {
            (Ok(a), Ok(b)) => a == b,
            (Err(_), Err(_)) => true,
            _ => false,
        };
        if !agree {
            ctx.machinery_error(format!("kernel/plugin disagreement on create gid={g}: real={real:?} kernel={kern:?}"));
        }
        if let Ok(Some(got)) = real {
            if reserved(got) {
                ctx.violation(&format!("create_reserved_accepted:{}", range_name(got)), &format!("create of posix group with reserved gid {got} succeeded"), json!({"side": "create", "value": got}));
            }
        }
        // modify path: create without posix, then add posixgroup + gid in a modify
        let r = srv.write_abort(srv::t(11), |w| {
            let mut e: Entry<EntryInit, EntryNew> = Entry::new();
            e.add_ava(Attribute::Class, EntryClass::Object.to_value());
            e.add_ava(Attribute::Class, EntryClass::Group.to_value());
            e.add_ava(Attribute::Name, Value::new_iname(&name));
            e.add_ava(Attribute::Uuid, Value::Uuid(u));
            w.internal_create(vec![e])?;
            let ml = ModifyList::new_list(vec![
                Modify::Present(Attribute::Class, EntryClass::PosixGroup.to_value()),
                Modify::Present(Attribute::GidNumber, Value::new_uint32(*g)),
            ]);
            w.internal_modify_uuid(u, &ml)?;
            Ok::<_, OperationError>(w.internal_search_uuid(u).ok().and_then(|e| e.get_ava_single_uint32(Attribute::GidNumber)))
        });
        let real = match r {
            Ok(v) => v,
            Err(e) => Err(e),
        };
        n += 1;
        let agree = match (&real, &kern) {
            (Ok(a), Ok(b)) => a == b,
            (Err(_), Err(_)) => true,
            _ => false,
        };
        if !agree {
            ctx.machinery_error(format!("kernel/plugin disagreement on modify gid={g}: real={real:?} kernel={kern:?}"));
        }
    }
    // replacement path: an entry that ALREADY has a gid number gets another one, by purge+set,
    // by a Set modification, and for both posix groups and posix accounts
    for (i, g) in vals.iter().enumerate() {
        for (kind, form) in [(0usize, 0usize), (0, 1), (1, 0)] {
            let u = Uuid::from_u128(0xcafe1000_0000_4000_8000_000000000000 + (i * 4 + kind * 2 + form) as u128);
            let name = format!("rg{i}x{kind}{form}");
            let r = srv.write_abort(srv::t(13), |w| {
                let mut e: Entry<EntryInit, EntryNew> = Entry::new();
                e.add_ava(Attribute::Class, EntryClass::Object.to_value());
                if kind == 0 {
                    e.add_ava(Attribute::Class, EntryClass::Group.to_value());
                    e.add_ava(Attribute::Class, EntryClass::PosixGroup.to_value());
                } else {
                    e.add_ava(Attribute::Class, EntryClass::Account.to_value());
                    e.add_ava(Attribute::Class, EntryClass::Person.to_value());
                    e.add_ava(Attribute::Class, EntryClass::PosixAccount.to_value());
                    e.add_ava(Attribute::DisplayName, Value::new_utf8s("r"));
                }
                e.add_ava(Attribute::Name, Value::new_iname(&name));
                e.add_ava(Attribute::Uuid, Value::Uuid(u));
                w.internal_create(vec![e])?;
                let before = w.internal_search_uuid(u).ok().and_then(|e| e.get_ava_single_uint32(Attribute::GidNumber));
                if before.is_none() {
                    return Err(OperationError::InvalidState);
                }
                let ml = if form == 0 {
                    ModifyList::new_purge_and_set(Attribute::GidNumber, Value::new_uint32(*g))
                } else {
                    ModifyList::new_list(vec![Modify::Set(Attribute::GidNumber, kanidmd_lib::valueset::ValueSetUint32::new(*g))])
                };
                let mr = w.internal_modify_uuid(u, &ml);
                let after = w.internal_search_uuid(u).ok().and_then(|e| e.get_ava_single_uint32(Attribute::GidNumber));
                Ok::<_, OperationError>((mr, after))
            });
            n += 1;
            match r {
                Ok(Ok((mr, after))) => {
                    if let Some(got) = after {
                        if reserved(got) {
                            ctx.violation(&format!("replace_reserved_accepted:{}", range_name(got)), &format!("an entry that already had a gid number ended with reserved gid {got} after a replacement ({}, form {form}): modify answered {mr:?}", if kind == 0 { "posix group" } else { "posix account" }), json!({"side": "replace", "value": got, "kind": kind, "form": form}));
                        }
                    }
                    let kern = k.run(u, Some(*g));
                    if mr.is_ok() != kern.is_ok() {
                        ctx.violation("replace_disagrees_with_kernel", &format!("replacing the gid number of an existing entry by {g} answered {mr:?} but assigning it afresh answers {kern:?}"), json!({"side": "replace", "value": g, "kind": kind, "form": form}));
                    }
                }
                Ok(Err(e)) | Err(e) => ctx.machinery_error(format!("replacement fixture failed for gid {g}: {e:?}")),
            }
        }
    }
    // generated path on the server
    for i in 0..8u32 {
        let low = [0u32, 1, 999, 65534, 65535, 0x0fff_ffff, 0xf000_03e7, 0xffff_ffff][i as usize];
        let u = uuid_with_low(0xcafe0000_0000_4000_8000_000000000000, low);
        let r = srv.write_abort(srv::t(12), |w| {
            let mut e: Entry<EntryInit, EntryNew> = Entry::new();
            e.add_ava(Attribute::Class, EntryClass::Object.to_value());
            e.add_ava(Attribute::Class, EntryClass::Group.to_value());
            e.add_ava(Attribute::Class, EntryClass::PosixGroup.to_value());
            e.add_ava(Attribute::Name, Value::new_iname("gen"));
            e.add_ava(Attribute::Uuid, Value::Uuid(u));
            w.internal_create(vec![e])?;
            Ok::<_, OperationError>(w.internal_search_uuid(u).ok().and_then(|e| e.get_ava_single_uint32(Attribute::GidNumber)))
        });
        let real = match r {
            Ok(v) => v,
            Err(e) => Err(e),
        };
        let kern = k.run(u, None);
        n += 1;
        if format!("{real:?}") != format!("{kern:?}") {
            ctx.machinery_error(format!("kernel/plugin disagreement on generate uuid={u}: real={real:?} kernel={kern:?}"));
        }
    }
    n
}

pub fn run(args: &[String]) -> ! {
    let mut ctx = Ctx::new("C21", Level::Exploration, args);
    if let Some(r) = ctx.replay.clone() {
        let mut k = VerifGidKernel::new().unwrap_or_else(|e| kv_engine::ctx::machinery_exit(&format!("{e:?}")));
        let v = r["case"]["value"].as_u64().unwrap_or(0) as u32;
        let res = if r["case"]["side"].as_str() == Some("generated") {
            println!("generated for low bytes {v:#x}: {:?}", k.run(uuid_with_low(FIX[0], v), None));
            check_generated(&mut k, v, 3)
        } else {
            println!("supplied {v}: {:?}", k.run(uuid_with_low(FIX[0], 1), Some(v)));
            check_supplied(&mut k, v)
        };
        if let Some((key, what)) = res {
            ctx.violation(&key, &what, r["case"].clone());
        }
        ctx.finish();
    }
    let ranges = if ctx.quick() { quick_ranges() } else { vec![(0u64, 1u64 << 32)] };
    let fixings = 1; // generation reads only the low 4 bytes; the other fixings are exercised on the quick ranges below
    let (e1, acc, rej) = sweep(&mut ctx, &ranges, "supplied", 1);
    let (e2, _, _) = sweep(&mut ctx, &ranges, "generated", fixings);
    // independence from the other uuid bytes, on the boundary ranges (both tiers)
    let (e3, _, _) = sweep(&mut ctx, &quick_ranges()[..2], "generated", 3);
    let conf = conformance(&mut ctx);
    ctx.set("evaluations", e1 + e2 + e3 + conf);
    // distinct non-trivial: distinct supplied values that are accepted or lie in a reserved range,
    // plus every distinct generated input (each is a different uuid)
    ctx.set("distinct_nontrivial", acc + e2);
    ctx.set("supplied_accepted", acc);
    ctx.set("supplied_rejected", rej);
    ctx.set("plugin_path_conformance_cases", conf);
    ctx.set("exhaustive", true);
    ctx.set("ranges_covered", json!(ranges));
    ctx.set(
        "rule",
        "supplied side: every u32 in the covered ranges is submitted as a caller supplied gid; generated side: every u32 in the covered ranges is used as bytes 12..16 of the uuid. thorough = the full 2^32 on both sides; quick = +-4096 around every boundary of the reserved table and of the plugin's own range table, [0,2^17), 2^31+-2^16 and the top 2^16. distinct_nontrivial = supplied values that were accepted (each needs the reserved test) + all generated inputs",
    );
    ctx.sample(json!({"supplied": 999, "expect": "rejected (os range)"}));
    ctx.sample(json!({"supplied": 1000, "expect": "accepted"}));
    ctx.sample(json!({"supplied": 65534, "expect": "rejected (nobody)"}));
    ctx.sample(json!({"uuid_low_bytes": "0x000003e7", "expect": "generated gid outside reserved set"}));
    ctx.assume("reserved set = 0-999, 60001-60577, 61184-65519, 65534, 65535 (statement + systemd UIDS-GIDS); the nspawn container range is accepted by design for imports");
    ctx.assume("the kernel hook runs the same private apply_gidnumber the create/modify/batch-modify plugin hooks call; agreement with the real create and modify paths is checked on boundary values");
    ctx.finish();
}
