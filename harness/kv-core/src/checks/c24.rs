//! C24 — writes need matching grants; protected objects stay protected.
//!
//! E1 product on a real server: sets of generated access control profiles x group membership of
//! the acting user x identity scope (read-write, read-only, synchronise) x every operation of an
//! alphabet of modifies / creates / deletes / revives x targets (ordinary person, second person,
//! group, built-in account, synchronised object, recycled entry, tombstone). Each profile set is
//! installed in a forked copy of one template server; every operation runs in a write transaction
//! that is dropped. Oracle (a reference written from the statement, reading only the profile
//! definitions the harness generated): an operation that takes effect must have every attribute
//! and class it adds or removes granted by a profile whose receiver and target match; read-only
//! and synchronise identities never take effect; the unconditional bans hold under a profile
//! that grants everything.

use crate::acpfx::{all_attributes, all_classes, group_entry, ident_of, Acp};
use crate::idmfx::{person_entry, person_uuid};
use crate::srv::{self, Srv};
use kanidm_proto::internal::Filter as ProtoFilter;
use kanidmd_lib::entry::{Entry, EntryInit, EntryNew};
use kanidmd_lib::event::{CreateEvent, DeleteEvent, ModifyEvent, ReviveRecycledEvent};
use kanidmd_lib::prelude::*;
use kv_engine::forkdfs::fork_eval;
use kv_engine::{Ctx, Level};
use serde_json::json;
use std::collections::BTreeSet;

const G1: u128 = 0xac24_0000_0000_4000_8000_0000_0000_0001;
const ACP0: u128 = 0xac24_0000_0000_4000_8000_0000_0000_0100;
const ACTOR: usize = 0;

#[derive(Clone, Copy, Debug, PartialEq, Eq)]
enum Tgt {
    T1,
    T2,
    Grp,
    Builtin,
    SyncObj,
    Recycled,
    Tombstone,
}
const TGTS: [Tgt; 7] = [Tgt::T1, Tgt::T2, Tgt::Grp, Tgt::Builtin, Tgt::SyncObj, Tgt::Recycled, Tgt::Tombstone];

fn tgt_uuid(t: Tgt) -> Uuid {
    match t {
        Tgt::T1 => person_uuid(1),
        Tgt::T2 => person_uuid(2),
        Tgt::Grp => Uuid::from_u128(G1 + 0x10),
        Tgt::Builtin => UUID_IDM_ADMIN,
        Tgt::SyncObj => person_uuid(3),
        Tgt::Recycled => person_uuid(4),
        Tgt::Tombstone => person_uuid(5),
    }
}

/// target scopes the generated profiles use, with the harness' own evaluation
#[derive(Clone, Copy, Debug, PartialEq, Eq)]
enum Scope {
    ClassPerson,
    NameT1,
    ClassGroup,
    Everything,
    ClassRecycled,
}
impl Scope {
    fn proto(self) -> ProtoFilter {
        match self {
            Scope::ClassPerson => ProtoFilter::Eq("class".into(), "person".into()),
            Scope::NameT1 => ProtoFilter::Eq("name".into(), "t1".into()),
            Scope::ClassGroup => ProtoFilter::Eq("class".into(), "group".into()),
            Scope::Everything => ProtoFilter::Pres("class".into()),
            Scope::ClassRecycled => ProtoFilter::Eq("class".into(), "recycled".into()),
        }
    }
    /// does an entry with these classes and this name fall under the scope? (evaluated literally:
    /// a profile's target filter is matched against the entry as it is, recycled or not)
    fn matches(self, classes: &BTreeSet<String>, name: &str) -> bool {
        match self {
            Scope::ClassPerson => classes.contains("person"),
            Scope::NameT1 => name == "t1",
            Scope::ClassGroup => classes.contains("group"),
            Scope::Everything => true,
            Scope::ClassRecycled => classes.contains("recycled"),
        }
    }
}

#[derive(Clone, Debug)]
struct Prof {
    name: &'static str,
    scope: Scope,
    pres: Vec<&'static str>,
    rem: Vec<&'static str>,
    pcls: Vec<&'static str>,
    rcls: Vec<&'static str>,
    cattrs: Vec<&'static str>,
    ccls: Vec<&'static str>,
    delete: bool,
    everything: bool,
}

fn profiles() -> Vec<Prof> {
    let p = |name, scope| Prof { name, scope, pres: vec![], rem: vec![], pcls: vec![], rcls: vec![], cattrs: vec![], ccls: vec![], delete: false, everything: false };
    vec![
        Prof { pres: vec!["displayname"], rem: vec!["displayname"], ..p("mod_person_displayname", Scope::ClassPerson) },
        Prof { pres: vec!["mail"], ..p("mod_t1_mail_add_only", Scope::NameT1) },
        Prof { pres: vec!["class", "gidnumber"], rem: vec!["class", "gidnumber"], pcls: vec!["posixaccount"], rcls: vec!["posixaccount"], ..p("mod_person_posix_class", Scope::ClassPerson) },
        Prof { cattrs: vec!["class", "name", "displayname", "uuid"], ccls: vec!["object", "account", "person"], ..p("create_person", Scope::ClassPerson) },
        Prof { delete: true, ..p("delete_person", Scope::ClassPerson) },
        Prof { pres: vec!["description"], rem: vec!["description", "member"], ..p("mod_group", Scope::ClassGroup) },
        Prof { rem: vec!["class"], rcls: vec!["recycled"], ..p("revive", Scope::ClassRecycled) },
        Prof { everything: true, delete: true, ..p("everything", Scope::Everything) },
        Prof { everything: true, delete: true, ..p("everything_recycled", Scope::ClassRecycled) },
        // one-sided class grants: adding a class granted, removing it not - and the reverse
        Prof { pres: vec!["class", "gidnumber"], rem: vec!["class", "gidnumber"], pcls: vec!["posixaccount"], ..p("mod_person_posix_add_class_only", Scope::ClassPerson) },
        Prof { pres: vec!["class", "gidnumber"], rem: vec!["class", "gidnumber"], rcls: vec!["posixaccount"], ..p("mod_person_posix_remove_class_only", Scope::ClassPerson) },
    ]
}

fn to_acp(i: usize, p: &Prof, attrs: &[Attribute], classes: &[String]) -> Acp {
    let a = |v: &Vec<&'static str>| -> Vec<Attribute> { v.iter().map(|s| Attribute::from(*s)).collect() };
    let c = |v: &Vec<&'static str>| -> Vec<String> { v.iter().map(|s| s.to_string()).collect() };
    if p.everything {
        return Acp {
            name: p.name.into(),
            uuid: Uuid::from_u128(ACP0 + i as u128),
            receiver_group: Uuid::from_u128(G1),
            target: Some(p.scope.proto()),
            search_attrs: attrs.to_vec(),
            modify_present_attrs: attrs.to_vec(),
            modify_removed_attrs: attrs.to_vec(),
            modify_present_classes: classes.to_vec(),
            modify_remove_classes: classes.to_vec(),
            create_attrs: attrs.to_vec(),
            create_classes: classes.to_vec(),
            delete: true,
        };
    }
    Acp {
        name: p.name.into(),
        uuid: Uuid::from_u128(ACP0 + i as u128),
        receiver_group: Uuid::from_u128(G1),
        target: Some(p.scope.proto()),
        search_attrs: vec![Attribute::Class, Attribute::Name, Attribute::Uuid],
        modify_present_attrs: a(&p.pres),
        modify_removed_attrs: a(&p.rem),
        modify_present_classes: c(&p.pcls),
        modify_remove_classes: c(&p.rcls),
        create_attrs: a(&p.cattrs),
        create_classes: c(&p.ccls),
        delete: p.delete,
    }
}

/// One element of a request, for the reference
#[derive(Clone, Debug)]
enum Need {
    PresAttr(&'static str),
    RemAttr(&'static str),
    PresClass(&'static str),
    RemClass(&'static str),
    PurgeClass,
    /// replace the whole value set: needs the attribute granted for adding AND for removing
    SetAttr(&'static str),
}

#[derive(Clone, Debug)]
enum Req {
    Modify(&'static str, Vec<Need>),
    CreatePerson(bool),
    CreateGroup,
    Delete,
    Revive,
}

fn requests() -> Vec<Req> {
    use Need::*;
    vec![
        Req::Modify("present displayname", vec![PresAttr("displayname")]),
        Req::Modify("purge displayname + present displayname", vec![RemAttr("displayname"), PresAttr("displayname")]),
        Req::Modify("present mail", vec![PresAttr("mail")]),
        Req::Modify("purge mail", vec![RemAttr("mail")]),
        Req::Modify("present displayname and mail", vec![PresAttr("displayname"), PresAttr("mail")]),
        Req::Modify("add class posixaccount", vec![PresClass("posixaccount")]),
        Req::Modify("add class system", vec![PresClass("system")]),
        Req::Modify("add class recycled", vec![PresClass("recycled")]),
        Req::Modify("add class sync_object", vec![PresClass("sync_object")]),
        Req::Modify("add class tombstone", vec![PresClass("tombstone")]),
        Req::Modify("add class dyngroup", vec![PresClass("dyngroup")]),
        Req::Modify("remove class posixaccount and its gidnumber", vec![RemClass("posixaccount"), RemAttr("gidnumber")]),
        Req::Modify("remove class person", vec![RemClass("person")]),
        Req::Modify("remove class sync_object", vec![RemClass("sync_object")]),
        Req::Modify("remove class system", vec![RemClass("system")]),
        Req::Modify("purge class", vec![PurgeClass]),
        Req::Modify("present description", vec![PresAttr("description")]),
        Req::Modify("set mail (same number of values)", vec![SetAttr("mail")]),
        Req::Modify("set displayname", vec![SetAttr("displayname")]),
        Req::Modify("set description", vec![SetAttr("description")]),
        Req::CreatePerson(false),
        Req::CreatePerson(true),
        Req::CreateGroup,
        Req::Delete,
        Req::Revive,
    ]
}

const PROT_PRES: [&str; 8] = ["system", "domain_info", "system_info", "system_config", "dyngroup", "sync_object", "tombstone", "recycled"];
const PROT_REM: [&str; 7] = ["system", "domain_info", "system_info", "system_config", "dyngroup", "sync_object", "tombstone"];

fn modlist(needs: &[Need]) -> ModifyList<ModifyInvalid> {
    let mut v = Vec::new();
    for n in needs {
        match n {
            Need::PresAttr("displayname") => v.push(Modify::Present(Attribute::DisplayName, Value::new_utf8s("changed by the actor"))),
            Need::PresAttr("mail") => v.push(Modify::Present(Attribute::Mail, Value::new_email_address_s("added@example.com").unwrap_or_else(|| Value::new_utf8s("x")))),
            Need::PresAttr("description") => v.push(Modify::Present(Attribute::Description, Value::new_utf8s("described"))),
            Need::PresAttr(_) => {}
            Need::RemAttr(a) => v.push(Modify::Purged(Attribute::from(*a))),
            Need::PresClass(c) => v.push(Modify::Present(Attribute::Class, Value::new_iutf8(c))),
            Need::RemClass(c) => v.push(Modify::Removed(Attribute::Class, PartialValue::new_iutf8(c))),
            Need::PurgeClass => v.push(Modify::Purged(Attribute::Class)),
            Need::SetAttr("mail") => {
                if let Some(vs) = kanidmd_lib::valueset::ValueSetEmailAddress::from_repl_v1("replaced@example.com", &["replaced@example.com".to_string()]).ok() {
                    v.push(Modify::Set(Attribute::Mail, vs));
                }
            }
            Need::SetAttr("displayname") => v.push(Modify::Set(Attribute::DisplayName, kanidmd_lib::valueset::ValueSetUtf8::new("set by the actor".to_string()))),
            Need::SetAttr(_) => v.push(Modify::Set(Attribute::Description, kanidmd_lib::valueset::ValueSetUtf8::new("set by the actor".to_string()))),
        }
    }
    ModifyList::new_list(v)
}

struct Tpl {
    srv: Srv,
    attrs: Vec<Attribute>,
    classes: Vec<String>,
}

fn template() -> Tpl {
    let srv = Srv::new();
    let mut attrs = Vec::new();
    let mut classes = Vec::new();
    let r = srv.write(srv::t(10), |w| {
        attrs = all_attributes(w);
        classes = all_classes(w);
        let mut t1 = person_entry("t1", tgt_uuid(Tgt::T1));
        t1.add_ava(Attribute::Mail, Value::new_email_address_primary_s("t1@example.com").unwrap_or_else(|| Value::new_utf8s("x")));
        let mut so = person_entry("synced", tgt_uuid(Tgt::SyncObj));
        so.add_ava(Attribute::Class, EntryClass::SyncObject.to_value());
        so.add_ava(Attribute::SyncParentUuid, Value::Refer(Uuid::from_u128(G1 + 0x20)));
        let mut sa: Entry<EntryInit, EntryNew> = Entry::new();
        sa.add_ava(Attribute::Class, EntryClass::Object.to_value());
        sa.add_ava(Attribute::Class, EntryClass::SyncAccount.to_value());
        sa.add_ava(Attribute::Name, Value::new_iname("syncsrc"));
        sa.add_ava(Attribute::Uuid, Value::Uuid(Uuid::from_u128(G1 + 0x20)));
        w.internal_create(vec![sa])?;
        w.internal_create(vec![
            person_entry("actor", person_uuid(ACTOR)),
            t1,
            person_entry("t2", tgt_uuid(Tgt::T2)),
            so,
            person_entry("binned", tgt_uuid(Tgt::Recycled)),
            person_entry("dead", tgt_uuid(Tgt::Tombstone)),
            group_entry("g1", Uuid::from_u128(G1), &[]),
            group_entry("tgroup", tgt_uuid(Tgt::Grp), &[tgt_uuid(Tgt::T2)]),
        ])?;
        // t2 is a POSIX account (so that there is a class a user could ask to remove)
        w.internal_modify_uuid(tgt_uuid(Tgt::T2), &ModifyList::new_list(vec![Modify::Present(Attribute::Class, EntryClass::PosixAccount.to_value())]))?;
        w.internal_delete_uuid(tgt_uuid(Tgt::Recycled))?;
        w.internal_delete_uuid(tgt_uuid(Tgt::Tombstone))
    });
    if let Err(e) = r {
        kv_engine::ctx::machinery_exit(&format!("C24 setup: {e:?}"));
    }
    // turn `dead` into a tombstone
    let r = srv.write(srv::t(20 + RECYCLEBIN_MAX_AGE + 10), |w| {
        // keep `binned` in the bin: it was deleted in the same transaction, so revive it first and
        // delete it again afterwards
        w.purge_recycled().map(|_| ())
    });
    if let Err(e) = r {
        kv_engine::ctx::machinery_exit(&format!("C24 setup (tombstone): {e:?}"));
    }
    Tpl { srv, attrs, classes }
}

fn now() -> Duration {
    srv::t(40 + RECYCLEBIN_MAX_AGE)
}

fn dump_all(w: &mut QueryServerWriteTransaction<'_>) -> Vec<String> {
    let mut v: Vec<String> = w
        .internal_search(Filter::new_ignore_hidden(f_pres(Attribute::Class)))
        .unwrap_or_default()
        .into_iter()
        .map(|e| format!("{}:{}", e.get_uuid(), srv::render_entry(&e, &[Attribute::LastModifiedCid, Attribute::CreatedAtCid])))
        .collect();
    v.sort();
    v
}

/// Runs in a forked child with the profile set installed. One line per (member, scope, target, request):
/// `m|s|t|r|label|changed`
fn run_set(t: &Tpl, set: &[usize]) -> String {
    let profs = profiles();
    let r = t.srv.write(now(), |w| {
        // `binned` was purged along with `dead` if both aged; recreate the recycled target when needed
        if w.internal_search_all_uuid(tgt_uuid(Tgt::Recycled)).map(|e| e.attribute_equality(Attribute::Class, &EntryClass::Tombstone.into())).unwrap_or(true) {
            w.internal_create(vec![person_entry("binned2", person_uuid(6))])?;
            w.internal_delete_uuid(person_uuid(6))?;
        }
        let es: Vec<Entry<EntryInit, EntryNew>> = set.iter().map(|i| to_acp(*i, &profs[*i], &t.attrs, &t.classes).to_entry()).collect();
        if !es.is_empty() {
            w.internal_create(es)?;
        }
        Ok(())
    });
    if let Err(e) = r {
        return format!("machinery:install:{e:?}");
    }
    let mut out = Vec::new();
    let reqs = requests();
    // what the targets really look like (classes, name), read from the server
    let desc = t.srv.read(|r| {
        let mut v = Vec::new();
        for (ti, tg) in TGTS.iter().enumerate() {
            let mut u = tgt_uuid(*tg);
            if *tg == Tgt::Recycled && r.internal_search_all_uuid(u).map(|e| e.attribute_equality(Attribute::Class, &EntryClass::Tombstone.into())).unwrap_or(true) {
                u = person_uuid(6);
            }
            if let Ok(e) = r.internal_search_all_uuid(u) {
                let cl: Vec<String> = e.get_ava_set(Attribute::Class).map(|c| c.to_proto_string_clone_iter().collect()).unwrap_or_default();
                let nm = e.get_ava_set(Attribute::Name).and_then(|n| n.to_proto_string_clone_iter().next()).unwrap_or_default();
                v.push(format!("T|{ti}|{nm}|{}", cl.join(",")));
            }
        }
        v
    });
    out.extend(desc);
    for member in [false, true] {
        let r = t.srv.write(now(), |w| {
            let ml = if member { ModifyList::new_list(vec![Modify::Present(Attribute::Member, Value::Refer(person_uuid(ACTOR)))]) } else { ModifyList::new_list(vec![Modify::Purged(Attribute::Member)]) };
            w.internal_modify_uuid(Uuid::from_u128(G1), &ml)
        });
        if let Err(e) = r {
            return format!("machinery:membership:{e:?}");
        }
        for (si, scope) in [AccessScope::ReadWrite, AccessScope::ReadOnly, AccessScope::Synchronise].into_iter().enumerate() {
            for (ti, tg) in TGTS.iter().enumerate() {
                for (ri, rq) in reqs.iter().enumerate() {
                    // creations are target independent: run them once (under T1)
                    if matches!(rq, Req::CreatePerson(_) | Req::CreateGroup) && *tg != Tgt::T1 {
                        continue;
                    }
                    if matches!(rq, Req::Revive) && !matches!(tg, Tgt::Recycled | Tgt::Tombstone) {
                        continue;
                    }
                    let mut target = tgt_uuid(*tg);
                    let res = t.srv.write_abort(now(), |w| {
                        if *tg == Tgt::Recycled && w.internal_search_all_uuid(target).map(|e| e.attribute_equality(Attribute::Class, &EntryClass::Tombstone.into())).unwrap_or(true) {
                            target = person_uuid(6);
                        }
                        let before = dump_all(w);
                        let id = ident_of(w, person_uuid(ACTOR), scope)?;
                        let f_t = if matches!(tg, Tgt::Recycled | Tgt::Tombstone) { Filter::new_recycled(f_eq(Attribute::Uuid, PartialValue::Uuid(target))) } else { Filter::new(f_eq(Attribute::Uuid, PartialValue::Uuid(target))) };
                        let r: Result<(), OperationError> = match rq {
                            Req::Modify(_, needs) => ModifyEvent::from_internal_parts(id, &modlist(needs), &f_t, w).and_then(|me| w.modify(&me)),
                            Req::CreatePerson(system) => {
                                let mut e = person_entry("newp", Uuid::from_u128(G1 + 0x50));
                                if *system {
                                    e.add_ava(Attribute::Class, EntryClass::System.to_value());
                                }
                                w.create(&CreateEvent::new_impersonate_identity(id, vec![e])).map(|_| ())
                            }
                            Req::CreateGroup => w.create(&CreateEvent::new_impersonate_identity(id, vec![group_entry("newg", Uuid::from_u128(G1 + 0x51), &[])])).map(|_| ()),
                            Req::Delete => DeleteEvent::from_parts(id, &f_t, w).and_then(|de| w.delete(&de)),
                            Req::Revive => ReviveRecycledEvent::from_parts(id, &Filter::new(f_eq(Attribute::Uuid, PartialValue::Uuid(target))), w).and_then(|re| w.revive_recycled(&re)),
                        };
                        let after = dump_all(w);
                        Ok::<_, OperationError>((format!("{r:?}").chars().take(40).collect::<String>(), before != after))
                    });
                    match res {
                        Ok(Ok((label, changed))) => out.push(format!("{}|{si}|{ti}|{ri}|{label}|{changed}", member as u8)),
                        other => out.push(format!("{}|{si}|{ti}|{ri}|machinery:{other:?}|false", member as u8)),
                    }
                    // the same request selecting the target TOGETHER WITH person t1: every selected
                    // entry needs its own grant, so the target may change only if it is granted itself
                    if matches!(rq, Req::Modify(..) | Req::Delete) && matches!(tg, Tgt::T2 | Tgt::Grp | Tgt::Builtin | Tgt::SyncObj) {
                        let res = t.srv.write_abort(now(), |w| {
                            let line_of = |d: &Vec<String>| d.iter().find(|l| l.starts_with(&target.to_string())).cloned();
                            let before = line_of(&dump_all(w));
                            let id = ident_of(w, person_uuid(ACTOR), scope)?;
                            let f_t = Filter::new(f_or(vec![f_eq(Attribute::Uuid, PartialValue::Uuid(target)), f_eq(Attribute::Uuid, PartialValue::Uuid(tgt_uuid(Tgt::T1)))]));
                            let r: Result<(), OperationError> = match rq {
                                Req::Modify(_, needs) => ModifyEvent::from_internal_parts(id, &modlist(needs), &f_t, w).and_then(|me| w.modify(&me)),
                                _ => DeleteEvent::from_parts(id, &f_t, w).and_then(|de| w.delete(&de)),
                            };
                            let after = line_of(&dump_all(w));
                            Ok::<_, OperationError>((format!("{r:?}").chars().take(40).collect::<String>(), before != after))
                        });
                        match res {
                            Ok(Ok((label, changed))) => out.push(format!("{}|{si}|{ti}|{ri}|[+t1] {label}|{changed}", member as u8)),
                            other => out.push(format!("{}|{si}|{ti}|{ri}|machinery:{other:?}|false", member as u8)),
                        }
                    }
                }
            }
        }
    }
    out.join("\n")
}

/// the statement's condition for a request to be allowed to take effect
fn allowed(set: &[usize], member: bool, scope: usize, classes: &BTreeSet<String>, name: &str, rq: &Req) -> (bool, String) {
    if scope != 0 {
        return (false, "the identity is not read-write".into());
    }
    if !member {
        return (false, "the user is in no receiver group".into());
    }
    let profs = profiles();
    let classes = classes.clone();
    let has = |f: &dyn Fn(&Prof) -> bool, cl: &BTreeSet<String>, nm: &str| set.iter().any(|i| profs[*i].scope.matches(cl, nm) && f(&profs[*i]));
    match rq {
        Req::Modify(_, needs) => {
            if classes.contains("tombstone") {
                return (false, "tombstones can never be modified".into());
            }
            if ["system", "domain_info", "system_info", "system_config", "dyngroup", "recycled"].iter().any(|c| classes.contains(*c)) {
                return (false, "the target carries a protected class".into());
            }
            if classes.contains("sync_object") {
                return (false, "synchronised objects are not modifiable by users (no attribute here is handed over)".into());
            }
            for n in needs {
                let ok = match n {
                    Need::PresAttr(a) => has(&|p: &Prof| p.everything || p.pres.contains(a), &classes, name),
                    Need::RemAttr(a) => has(&|p: &Prof| p.everything || p.rem.contains(a), &classes, name),
                    Need::PresClass(c) => !PROT_PRES.contains(c) && has(&|p: &Prof| p.everything || p.pcls.contains(c), &classes, name),
                    Need::RemClass(c) => !PROT_REM.contains(c) && has(&|p: &Prof| p.everything || p.rcls.contains(c), &classes, name),
                    Need::PurgeClass => false,
                    Need::SetAttr(a) => has(&|p: &Prof| p.everything || p.pres.contains(a), &classes, name) && has(&|p: &Prof| p.everything || p.rem.contains(a), &classes, name),
                };
                if !ok {
                    return (false, format!("{n:?} is not granted by any matching profile (or is banned outright)"));
                }
            }
            (true, String::new())
        }
        Req::CreatePerson(system) => {
            if *system {
                return (false, "entries with a protected class cannot be created".into());
            }
            let cl: BTreeSet<String> = ["object", "account", "person"].iter().map(|s| s.to_string()).collect();
            let ok = ["class", "name", "displayname", "uuid"].iter().all(|a| has(&|p: &Prof| p.everything || p.cattrs.contains(a), &cl, "newp")) && cl.iter().all(|c| has(&|p: &Prof| p.everything || p.ccls.contains(&c.as_str()), &cl, "newp"));
            (ok, "some attribute or class of the new person is not granted for creation".into())
        }
        Req::CreateGroup => {
            let cl: BTreeSet<String> = ["object", "group"].iter().map(|s| s.to_string()).collect();
            let ok = ["class", "name", "uuid"].iter().all(|a| has(&|p: &Prof| p.everything || p.cattrs.contains(a), &cl, "newg")) && cl.iter().all(|c| has(&|p: &Prof| p.everything || p.ccls.contains(&c.as_str()), &cl, "newg"));
            (ok, "some attribute or class of the new group is not granted for creation".into())
        }
        Req::Delete => {
            if ["system", "domain_info", "system_info", "system_config", "dyngroup", "sync_object", "tombstone", "recycled", "builtin"].iter().any(|c| classes.contains(*c)) {
                return (false, "protected and built-in entries cannot be deleted".into());
            }
            (has(&|p: &Prof| p.delete, &classes, name), "no matching delete profile".into())
        }
        Req::Revive => {
            if classes.contains("tombstone") {
                return (false, "tombstones cannot be revived".into());
            }
            (has(&|p: &Prof| p.everything || p.rcls.contains(&"recycled"), &classes, name), "no matching profile allows removing class recycled".into())
        }
    }
}

pub fn run(args: &[String]) -> ! {
    let mut ctx = Ctx::new("C24", Level::Exploration, args);
    let t = template();
    let profs = profiles();
    let n = profs.len();
    let mut sets: Vec<Vec<usize>> = vec![vec![]];
    for i in 0..n {
        sets.push(vec![i]);
    }
    if ctx.thorough() {
        for i in 0..n {
            for j in i + 1..n {
                sets.push(vec![i, j]);
            }
        }
    } else {
        // the pairs that combine partial grants (union semantics) and grant + protection
        sets.extend([vec![0, 1], vec![0, 2], vec![3, 4], vec![6, 7], vec![7, 8], vec![1, 5]]);
    }
    if let Some(r) = ctx.replay.clone() {
        let set: Vec<usize> = r["case"]["profiles"].as_array().map(|a| a.iter().filter_map(|x| x.as_u64()).map(|x| x as usize).collect()).unwrap_or_default();
        sets = vec![set];
    }
    let reqs = requests();
    let (mut evals, mut nontrivial, mut nbad, mut effective) = (0u64, 0u64, 0u64, 0u64);
    for set in &sets {
        let out = match fork_eval(|| run_set(&t, set)) {
            Ok(s) => s,
            Err(e) => {
                ctx.machinery_error(format!("profile set {set:?}: {e}"));
                continue;
            }
        };
        if out.starts_with("machinery:") {
            ctx.machinery_error(format!("profile set {set:?}: {out}"));
            continue;
        }
        let mut tdesc: Vec<(BTreeSet<String>, String)> = vec![(BTreeSet::new(), String::new()); TGTS.len()];
        for line in out.lines() {
            let p: Vec<&str> = line.split('|').collect();
            if p.first() == Some(&"T") && p.len() == 4 {
                let ti: usize = p[1].parse().unwrap_or(0);
                tdesc[ti] = (p[3].split(',').map(|s| s.to_string()).collect(), p[2].to_string());
                continue;
            }
            if p.len() != 6 {
                ctx.machinery_error(format!("bad result line {line}"));
                continue;
            }
            let (member, si, ti, ri) = (p[0] == "1", p[1].parse::<usize>().unwrap_or(0), p[2].parse::<usize>().unwrap_or(0), p[3].parse::<usize>().unwrap_or(0));
            if p[4].starts_with("machinery:") {
                ctx.machinery_error(format!("set {set:?}: {line}"));
                continue;
            }
            let changed = p[5] == "true";
            evals += 1;
            let (ok, why) = allowed(set, member, si, &tdesc[ti].0, &tdesc[ti].1, &reqs[ri]);
            if !ok {
                nontrivial += 1;
            }
            if changed {
                effective += 1;
            }
            if changed && !ok {
                nbad += 1;
                let names: Vec<&str> = set.iter().map(|i| profs[*i].name).collect();
                let rname = match &reqs[ri] {
                    Req::Modify(n, _) => n.to_string(),
                    other => format!("{other:?}"),
                };
                let key = format!("ungranted_write:{}:{}{}", rname.replace(' ', "_"), ["rw", "ro", "sync"][si], if p[4].starts_with("[+t1]") { ":target_selected_together_with_another_entry" } else { "" });
                ctx.violation(
                    &key,
                    &format!("with profiles {names:?}, actor {} the receiver group, scope {}, the request [{rname}] on {:?} answered {} and CHANGED the directory; the statement forbids it: {why}", if member { "in" } else { "not in" }, ["read-write", "read-only", "synchronise"][si], TGTS[ti], p[4]),
                    json!({"profiles": set, "member": member, "scope": si, "target": format!("{:?}", TGTS[ti]), "request": rname}),
                );
            }
            if evals % 977 == 5 {
                ctx.sample(json!({"profiles": set.iter().map(|i| profs[*i].name).collect::<Vec<_>>(), "member": member, "scope": si, "target": format!("{:?}", TGTS[ti]), "request": format!("{:?}", reqs[ri]), "answer": p[4], "changed": changed, "allowed_by_statement": ok}));
            }
        }
    }
    if effective == 0 {
        ctx.machinery_error("vacuous: no request ever took effect".into());
    }
    ctx.set("evaluations", evals);
    ctx.set("distinct_nontrivial", nontrivial);
    ctx.set("requests_that_took_effect", effective);
    ctx.set("profile_sets", sets.len() as u64);
    ctx.set("rule", format!("profile sets (empty, each of {n} generated profiles, and pairs: all pairs in thorough, 6 chosen pairs in quick) x actor in/out of the receiver group x scope read-write / read-only / synchronise x 7 targets (person t1, person t2, group, built-in account, synchronised object, recycled entry, tombstone) x 25 requests (20 modifies incl. protected class adds/removes and class purge, 3 creates, delete, revive). Non-trivial = requests the statement forbids for that configuration"));
    ctx.set("mismatches", nbad);
    ctx.set("exhaustive", true);
    ctx.assume("soundness direction only, as the statement is phrased: a request that takes effect must be granted; refusals of granted requests are not judged (a vacuity guard requires that granted requests do take effect somewhere)");
    ctx.assume("'takes effect' = the rendering of all entries (recycled and tombstoned included) differs before and after the request inside its transaction");
    ctx.finish();
}
