//! C31 — weak or badlisted passwords can never be set.
//!
//! E1 product on a real IdmServer: minimum-length policies x every credential-setting path x a
//! password alphabet built around every length boundary (ASCII, 2-byte characters, combining
//! sequences: bytes != characters != graphemes), the maximum length, and badlisted strings in
//! different cases. Every case runs in a forked copy of one template server. Oracle: if, after
//! the request, the stored credential verifies the candidate password, then the candidate is
//! at least the account's effective minimum length and at most the maximum in graphemes and
//! its lowercase form is not in the badlist; a refused request leaves the old password in place.

use crate::idmfx::{person_entry, person_uuid, Idm, PW_GOOD};
use crate::srv;
use kanidmd_lib::idm::credupdatesession::InitCredentialUpdateEvent;
use kanidmd_lib::idm::event::UnixPasswordChangeEvent;
use kanidmd_lib::prelude::*;
use kv_engine::forkdfs::fork_eval;
use kv_engine::{Ctx, Level};
use serde_json::json;

const ASCII: &str = "q7Zp#Lw9!Rt2@Vx5^Nb8&Hk3*Md6$Jf1(Gs4)Yc0-Ua=Ie+Oq~Pw7Zr#Lt9!Rv2@Xb5^Nh8&Km3*Dj6$Fg1(Sy4)Cu0-Ai=Eo+Qp~Wz7Rl#Tr9!Vx2@Bn5^Hk8&Md3*Jf6$Gs1(Yc4)Ua0-Ie=Oq+Pw~";
const MULTI: &str = "éßøñüçåæœþðđłżžąęśćńóůřšťďňľĺŕäöëïÿâêîôûàèìòùãõāēīōūăĕĭŏŭąįųėșțğışźčžđéßøñüçåæœþðđłżžąęśćńóůřšťďňľĺŕäöëïÿâêîôûàèìòùãõāēīōūăĕĭŏŭąįųėșțğışźčžđéßøñüçåæœþðđłżžąęśćńóůřšťďňľĺŕ";
const BAD1: &str = "zephyr-quantum-walrus-7391-ok";
const BAD2: &str = "ÉCLAIR-façade-naïve-74219-Über";

fn ascii(n: usize) -> String {
    ASCII.chars().cycle().take(n).collect()
}
fn multi(n: usize) -> String {
    MULTI.chars().cycle().take(n).collect()
}
/// n graphemes, each a base letter plus a combining mark (2 chars, 3 bytes)
fn combining(n: usize) -> String {
    let marks = ['\u{0301}', '\u{0308}', '\u{0303}', '\u{0302}'];
    ASCII.chars().filter(|c| c.is_ascii_alphabetic()).cycle().take(n).enumerate().flat_map(|(i, c)| [c, marks[i % 4]]).collect()
}

/// graphemes, counted independently of the server: every char that is not a combining mark
/// (U+0300..U+036F) starts a grapheme for the strings this check builds
fn graphemes(s: &str) -> usize {
    s.chars().filter(|c| !('\u{0300}'..='\u{036f}').contains(c)).count()
}

#[derive(Clone, Copy, Debug, PartialEq, Eq)]
enum Path {
    SessionPrimary,
    SessionUnix,
    DirectUnix,
}
const PATHS: [Path; 3] = [Path::SessionPrimary, Path::SessionUnix, Path::DirectUnix];

/// policy = (configured minimum on idm_all_persons, effective minimum)
fn policies() -> Vec<(Option<u32>, usize)> {
    // the world leaves the minimum credential type at `any`, so a password can be the only
    // factor and NIST's single-factor floor (15) applies under every configured value below it
    let floor = kanidm_lib_crypto::PW_SFA_MIN_LENGTH_NIST as usize;
    vec![(None, floor), (Some(12), floor), (Some(20), 20)]
}

fn candidates(eff_mins: &[usize], max: usize) -> Vec<(String, String)> {
    let mut v: Vec<(String, String)> = Vec::new();
    let mut lens: Vec<usize> = Vec::new();
    for m in eff_mins {
        lens.extend([m - 1, *m, m + 1]);
    }
    lens.extend([8, 10, 12]);
    lens.sort();
    lens.dedup();
    for l in &lens {
        v.push((format!("ascii:{l}"), ascii(*l)));
        v.push((format!("multibyte:{l}"), multi(*l)));
        v.push((format!("combining:{l}"), combining(*l)));
    }
    for l in [max - 1, max, max + 1, max * 2] {
        v.push((format!("ascii:{l}"), ascii(l)));
    }
    for l in [max / 2 + 1, max, max + 1] {
        v.push((format!("multibyte:{l}"), multi(l)));
    }
    for (name, b) in [("bad1", BAD1), ("bad2", BAD2)] {
        v.push((format!("{name}:exact"), b.to_string()));
        v.push((format!("{name}:lower"), b.to_lowercase()));
        v.push((format!("{name}:upper"), b.to_uppercase()));
        let mixed: String = b.chars().enumerate().map(|(i, c)| if i % 2 == 0 { c.to_uppercase().next().unwrap_or(c) } else { c.to_lowercase().next().unwrap_or(c) }).collect();
        v.push((format!("{name}:mixed"), mixed));
    }
    v
}

struct Tpl {
    idm: Idm,
}

fn template() -> Tpl {
    let idm = Idm::new();
    let ct = srv::t(10);
    let die = |what: &str, e: OperationError| -> ! { kv_engine::ctx::machinery_exit(&format!("C31 setup: {what}: {e:?}")) };
    let mut e = person_entry("p0", person_uuid(0));
    e.add_ava(Attribute::Class, EntryClass::PosixAccount.to_value());
    if let Err(x) = idm.create(ct, e) {
        die("create", x);
    }
    if let Err(x) = idm.set_primary(ct, person_uuid(0), PW_GOOD, false) {
        die("primary", x);
    }
    let r = idm.write(ct, |w| {
        let ent = w.qs_write.internal_search_uuid(person_uuid(0))?;
        let ident = Identity::from_impersonate_entry_readwrite(ent);
        w.set_unix_account_password(&UnixPasswordChangeEvent::from_parts(ident, person_uuid(0), PW_GOOD.to_string())?)
    });
    if let Err(x) = r {
        die("unix password", x);
    }
    // badlist additions (stored lowercase, as the server documents)
    let r = idm.write(ct, |w| {
        let ml = ModifyList::new_list(vec![
            Modify::Present(Attribute::BadlistPassword, Value::new_iutf8(BAD1)),
            Modify::Present(Attribute::BadlistPassword, Value::new_iutf8(BAD2)),
        ]);
        w.qs_write.internal_modify_uuid(UUID_SYSTEM_CONFIG, &ml)
    });
    if let Err(x) = r {
        die("badlist", x);
    }
    Tpl { idm }
}

/// runs inside a forked child: returns "label|primary verifies cand|unix verifies cand|primary verifies old|unix verifies old"
fn run_case(t: &Tpl, policy: Option<u32>, path: Path, cand: &str) -> String {
    let idm = &t.idm;
    let ct = srv::t(100);
    if let Some(p) = policy {
        let r = idm.write(ct, |w| w.qs_write.internal_modify_uuid(UUID_IDM_ALL_PERSONS, &ModifyList::new_purge_and_set(Attribute::AuthPasswordMinimumLength, Value::Uint32(p))));
        if let Err(e) = r {
            return format!("machinery:policy:{e:?}");
        }
    }
    let ct = srv::t(101);
    let self_ident = || -> Result<Identity, OperationError> { idm.entry(person_uuid(0)).map(Identity::from_impersonate_entry_readwrite).ok_or(OperationError::NoMatchingEntries) };
    let label: String = match path {
        Path::SessionPrimary | Path::SessionUnix => (|| -> Result<String, OperationError> {
            let ident = self_ident()?;
            let (cust, _) = idm.write(ct, |w| w.init_credential_update(&InitCredentialUpdateEvent::new(ident, person_uuid(0)), ct))?;
            let set = idm.rt.block_on(async {
                let cutxn = idm.idms.cred_update_transaction().await?;
                if path == Path::SessionPrimary {
                    cutxn.credential_primary_set_password(&cust, ct, cand).map(|_| ())
                } else {
                    cutxn.credential_unix_set_password(&cust, ct, cand).map(|_| ())
                }
            });
            if let Err(e) = set {
                return Ok(format!("refused-at-set:{}", format!("{e:?}").chars().take(40).collect::<String>()));
            }
            match idm.write(ct, |w| w.commit_credential_update(&cust, ct)) {
                Ok(()) => Ok("committed".into()),
                Err(e) => Ok(format!("refused-at-commit:{e:?}")),
            }
        })()
        .unwrap_or_else(|e| format!("err:{e:?}")),
        Path::DirectUnix => {
            let ident = self_ident();
            let r = idm.write(ct, |w| w.set_unix_account_password(&UnixPasswordChangeEvent::from_parts(ident?, person_uuid(0), cand.to_string())?));
            match r {
                Ok(()) => "committed".into(),
                Err(e) => format!("refused:{}", format!("{e:?}").chars().take(40).collect::<String>()),
            }
        }
    };
    let ent = idm.entry(person_uuid(0));
    let verifies = |attr: Attribute, pw: &str| -> bool { ent.as_ref().and_then(|e| e.get_ava_single_credential(attr).cloned()).and_then(|c| c.password_ref().ok().and_then(|p| p.verify(pw).ok())).unwrap_or(false) };
    format!("{label}|{}|{}|{}|{}", verifies(Attribute::PrimaryCredential, cand), verifies(Attribute::UnixPassword, cand), verifies(Attribute::PrimaryCredential, PW_GOOD), verifies(Attribute::UnixPassword, PW_GOOD))
}

pub fn run(args: &[String]) -> ! {
    let mut ctx = Ctx::new("C31", Level::Exploration, args);
    let max = kanidm_lib_crypto::PW_MAX_LENGTH_NIST as usize;
    let pols = policies();
    let eff: Vec<usize> = {
        let mut e: Vec<usize> = pols.iter().map(|p| p.1).collect();
        e.sort();
        e.dedup();
        e
    };
    let cands = candidates(&eff, max);
    let t = template();

    let only: Option<(usize, usize, usize)> = ctx.replay.as_ref().map(|r| (r["case"]["policy"].as_u64().unwrap_or(0) as usize, r["case"]["path"].as_u64().unwrap_or(0) as usize, r["case"]["candidate"].as_u64().unwrap_or(0) as usize));

    let badlist: Vec<String> = vec![BAD1.to_lowercase(), BAD2.to_lowercase()];
    let (mut evals, mut nontrivial, mut nbad) = (0u64, 0u64, 0u64);
    let mut outcomes: std::collections::BTreeMap<String, u64> = Default::default();
    for (pi, (pol, eff_min)) in pols.iter().enumerate() {
        for (xi, path) in PATHS.iter().enumerate() {
            for (ci, (cname, cand)) in cands.iter().enumerate() {
                if let Some(o) = only {
                    if o != (pi, xi, ci) {
                        continue;
                    }
                }
                evals += 1;
                let res = match fork_eval(|| run_case(&t, *pol, *path, cand)) {
                    Ok(s) => s,
                    Err(e) => {
                        ctx.machinery_error(format!("case {pi}/{xi}/{ci}: {e}"));
                        continue;
                    }
                };
                if res.starts_with("machinery:") || res.starts_with("err:") {
                    ctx.machinery_error(format!("case policy {pol:?} {path:?} {cname}: {res}"));
                    continue;
                }
                let parts: Vec<&str> = res.split('|').collect();
                if parts.len() != 5 {
                    ctx.machinery_error(format!("bad case result {res}"));
                    continue;
                }
                let label = parts[0];
                let stored_primary = parts[1] == "true";
                let stored_unix = parts[2] == "true";
                let old_primary = parts[3] == "true";
                let old_unix = parts[4] == "true";
                *outcomes.entry(label.split(':').next().unwrap_or("").to_string()).or_insert(0) += 1;
                let g = graphemes(cand);
                let too_short = g < *eff_min;
                let too_long = g > max;
                let listed = badlist.contains(&cand.to_lowercase());
                let banned = too_short || too_long || listed;
                if banned {
                    nontrivial += 1;
                }
                let stored = stored_primary || stored_unix;
                let case = json!({"policy": pi, "path": xi, "candidate": ci, "policy_min": pol, "effective_min": eff_min, "path_name": format!("{path:?}"), "candidate_name": cname, "graphemes": g, "bytes": cand.len(), "chars": cand.chars().count(), "result": res});
                if stored && banned {
                    nbad += 1;
                    let why = if listed { "badlisted" } else if too_short { "too_short" } else { "too_long" };
                    ctx.violation(
                        &format!("{why}:{path:?}"),
                        &format!("{path:?} with configured minimum {pol:?} (effective {eff_min}) stored candidate {cname} ({g} graphemes, {} chars, {} bytes): {why}", cand.chars().count(), cand.len()),
                        case.clone(),
                    );
                }
                if !stored {
                    // refused (or not applied): the previous passwords must still be in place
                    if !old_primary || !old_unix {
                        nbad += 1;
                        ctx.violation(&format!("refused_but_changed:{path:?}"), &format!("{path:?} answered {label} for {cname}, the candidate is not stored, yet the previous password no longer verifies (primary {old_primary}, unix {old_unix})"), case.clone());
                    }
                }
                if evals % 37 == 1 {
                    ctx.sample(case);
                }
            }
        }
    }
    // vacuity: good passwords must be storable on every path under every policy
    for (pi, (pol, eff_min)) in pols.iter().enumerate() {
        for path in PATHS {
            let good = ascii(eff_min + 3);
            evals += 1;
            match fork_eval(|| run_case(&t, *pol, path, &good)) {
                Ok(s) if s.starts_with("committed|") && s.contains("true") => {}
                Ok(s) => ctx.machinery_error(format!("vacuity guard: a good {}-character password was not stored by {path:?} under policy #{pi}: {s}", eff_min + 3)),
                Err(e) => ctx.machinery_error(e),
            }
        }
    }
    ctx.set("evaluations", evals);
    ctx.set("distinct_nontrivial", nontrivial);
    ctx.set("rule", "product of 3 minimum-length configurations (unset, 12, 20 on idm_all_persons; minimum credential type any) x 3 request paths (credential update session primary password, session POSIX password, direct POSIX password change as the account) x candidates: ASCII / 2-byte-character / combining-sequence strings of every length next to each effective minimum and of 8, 10, 12, ASCII and 2-byte strings next to and beyond the maximum (128), two badlisted strings each exact / lower / UPPER / mIxEd. Non-trivial = the candidate is banned by the property (too short, too long or badlisted)");
    ctx.set("policies", json!(pols.iter().map(|p| json!({"configured": p.0, "effective": p.1})).collect::<Vec<_>>()));
    ctx.set("candidates", cands.len() as u64);
    ctx.set("outcome_histogram", json!(outcomes));
    ctx.set("mismatches", nbad);
    ctx.set("exhaustive", true);
    ctx.assume("the effective minimum is the largest configured minimum, raised to the single-factor floor (15) because the world allows password-only credentials");
    ctx.assume("length is counted in graphemes (user-perceived characters); for the strings built here that is every char that is not a combining mark");
    ctx.assume("candidates are high-entropy strings so that the strength estimator does not mask the length and badlist rules; recovery-generated passwords are not covered");
    ctx.finish();
}
