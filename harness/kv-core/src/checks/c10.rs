//! C10 — replication range comparison decides supply / refresh / refusal correctly.
//!
//! E1: every pair (consumer, supplier) of RUV range maps over 3 server uuids where each
//! server's window is absent or [min,max] with 0 <= min <= max <= 4 — 16^6 = 16 777 216 calls of
//! the real `ReplicationUpdateVector::range_diff`, compared with a decision table coded from the
//! property text.

use kanidmd_lib::server::QueryServerTransaction;
use kanidmd_lib::verif_hooks::{range_diff, ReplCidRange, VerifRangeDiff};
use kv_engine::{product, Ctx, Level};
use serde_json::json;
use std::collections::{BTreeMap, BTreeSet};
use std::time::Duration;
use uuid::Uuid;

fn windows(tmax: u64) -> Vec<Option<(u64, u64)>> {
    let mut w = vec![None];
    for min in 0..=tmax {
        for max in min..=tmax {
            w.push(Some((min, max)));
        }
    }
    w
}

#[derive(Debug, PartialEq, Eq, Clone)]
enum Expect {
    Ok(BTreeMap<usize, (u64, u64)>),
    Refresh(BTreeSet<usize>),
    Unwilling(BTreeSet<usize>),
    Critical(BTreeSet<usize>, BTreeSet<usize>),
    NoOverlap,
}

/// The decision table, straight from the property statement.
fn reference(cons: &[Option<(u64, u64)>], supp: &[Option<(u64, u64)>]) -> Expect {
    let mut common = false;
    let mut lag = BTreeSet::new();
    let mut adv = BTreeSet::new();
    let mut supply = BTreeMap::new();
    for (i, s) in supp.iter().enumerate() {
        let Some((smin, smax)) = *s else { continue };
        match cons[i] {
            None => {
                // a server the consumer has never seen: everything from it
                supply.insert(i, (0, smax));
            }
            Some((cmin, cmax)) => {
                common = true;
                if cmax < smin {
                    lag.insert(i); // consumer is behind this window
                } else if smax < cmin {
                    adv.insert(i); // consumer is ahead of it
                } else if cmax < smax {
                    supply.insert(i, (cmax, smax));
                }
            }
        }
    }
    if !common {
        return Expect::NoOverlap;
    }
    match (lag.is_empty(), adv.is_empty()) {
        (true, true) => Expect::Ok(supply),
        (false, true) => Expect::Refresh(lag),
        (true, false) => Expect::Unwilling(adv),
        (false, false) => Expect::Critical(lag, adv),
    }
}

fn uuids() -> [Uuid; 4] {
    [
        Uuid::from_u128(0x1111_0000_0000_0000_0000_0000_0000_0001),
        Uuid::from_u128(0x2222_0000_0000_0000_0000_0000_0000_0002),
        Uuid::from_u128(0x3333_0000_0000_0000_0000_0000_0000_0003),
        Uuid::from_u128(0x0444_0000_0000_0000_0000_0000_0000_0004),
    ]
}

fn to_map(ws: &[Option<(u64, u64)>]) -> BTreeMap<Uuid, ReplCidRange> {
    let u = uuids();
    ws.iter()
        .enumerate()
        .filter_map(|(i, w)| {
            w.map(|(a, b)| {
                (
                    u[i],
                    ReplCidRange {
                        ts_min: Duration::from_secs(a),
                        ts_max: Duration::from_secs(b),
                    },
                )
            })
        })
        .collect()
}

fn observed(r: VerifRangeDiff) -> Expect {
    let u = uuids();
    let idx = |k: &Uuid| u.iter().position(|x| x == k).unwrap_or(99);
    let keys = |m: &BTreeMap<Uuid, (Duration, Duration)>| m.keys().map(idx).collect::<BTreeSet<_>>();
    match r {
        VerifRangeDiff::Ok(m) => Expect::Ok(
            m.iter()
                .map(|(k, (a, b))| (idx(k), (a.as_secs(), b.as_secs())))
                .collect(),
        ),
        VerifRangeDiff::Refresh(l) => Expect::Refresh(keys(&l)),
        VerifRangeDiff::Unwilling(a) => Expect::Unwilling(keys(&a)),
        VerifRangeDiff::Critical(l, a) => Expect::Critical(keys(&l), keys(&a)),
        VerifRangeDiff::NoRuvOverlap => Expect::NoOverlap,
    }
}

fn kind(e: &Expect) -> usize {
    match e {
        Expect::Ok(m) if m.is_empty() => 0,
        Expect::Ok(_) => 1,
        Expect::Refresh(_) => 2,
        Expect::Unwilling(_) => 3,
        Expect::Critical(..) => 4,
        Expect::NoOverlap => 5,
    }
}

fn case(idx: u64, w: &[Option<(u64, u64)>], ns: usize) -> (Vec<Option<(u64, u64)>>, Vec<Option<(u64, u64)>>) {
    let n = w.len() as u64;
    let mut d = [0usize; 8];
    product::decode(idx, &vec![n; 2 * ns], &mut d);
    (
        (0..ns).map(|i| w[d[i]]).collect(),
        (0..ns).map(|i| w[d[ns + i]]).collect(),
    )
}

/// The wire answer of a REAL supplier (`supplier_provide_changes`) for consumer range maps built
/// relative to the supplier's own windows. Two real replicas are joined and exchange writes so
/// that the supplier's RUV holds two server ids; for each id the consumer's window is one of
/// {absent, identical, older but overlapping, entirely behind, entirely ahead} (25 combinations)
/// and the expected answer is the decision table's status mapped as the statement says
/// (supply / nothing to send / refresh / refuse).
fn wire_conformance(ctx: &mut Ctx) -> u64 {
    use crate::worlds::repl::{answer_kind, Cfg, Op, Repl};
    use kanidmd_lib::repl::proto::{ReplCidRange as PCidRange, ReplRuvRange};
    use kv_engine::forkdfs::World;
    let cfg = Cfg { class_edits: false, replicas: 2, slots: vec![0], names: 1, disp: true, rename: false, lifecycle: false, revive: false, members: false, refresh: false, aging: false, max_repl: 9, precreate: vec![0], same_time: false, props: ["C08"].into_iter().collect(), pre_ops: vec![], small: true };
    let mut w = Repl::new(cfg);
    // both replicas write twice and exchange, so that each holds a two-point window for both ids
    for op in [Op::SetDisp(1, 0, 0), Op::Repl(1, 0), Op::SetDisp(0, 0, 0), Op::SetMail(1, 0), Op::Repl(1, 0), Op::Repl(0, 1), Op::SetMail(0, 0)] {
        let l = w.apply(&op);
        if l.starts_with("err") {
            ctx.machinery_error(format!("wire conformance setup {op:?}: {l}"));
            return 0;
        }
    }
    let srv = &w.srvs[0];
    let own: Result<ReplRuvRange, _> = srv.rt.block_on(async {
        let mut t = srv.qs.write(crate::srv::t(900)).await?;
        t.consumer_get_state()
    });
    let (domain_uuid, ranges) = match own {
        Ok(ReplRuvRange::V1 { domain_uuid, ranges }) => (domain_uuid, ranges),
        Err(e) => {
            ctx.machinery_error(format!("cannot read the supplier's RUV: {e:?}"));
            return 0;
        }
    };
    let ids: Vec<Uuid> = ranges.keys().copied().collect();
    if ids.len() != 2 || ranges.values().any(|r| r.ts_min >= r.ts_max) {
        ctx.machinery_error(format!("wire conformance: expected two server ids with non-degenerate windows, got {ranges:?}"));
        return 0;
    }
    let supp: Vec<Option<(u64, u64)>> = ids.iter().map(|i| Some((ranges[i].ts_min.as_secs(), ranges[i].ts_max.as_secs()))).collect();
    let opts = |(smin, smax): (u64, u64)| -> Vec<(&'static str, Option<(u64, u64)>)> {
        let mut v = vec![("absent", None), ("identical", Some((smin, smax))), ("older-overlapping", Some((smin, smin))), ("ahead", Some((smax + 10, smax + 20)))];
        // a window that starts at the epoch (a server first heard of through a refresh) has nothing before it
        if smin >= 30 {
            v.push(("behind", Some((smin - 20, smin - 10))));
        }
        v
    };
    let mut n = 0;
    for (na, ca) in opts(supp[0].unwrap_or((0, 0))) {
        for (nb, cb) in opts(supp[1].unwrap_or((0, 0))) {
            let cons = vec![ca, cb];
            let want = match reference(&cons, &supp) {
                Expect::Ok(m) if m.is_empty() => "NoChangesAvailable",
                Expect::Ok(_) => "V1",
                Expect::Refresh(_) => "RefreshRequired",
                Expect::Unwilling(_) | Expect::Critical(..) | Expect::NoOverlap => "UnwillingToSupply",
            };
            let mut cr = BTreeMap::new();
            for (i, c) in cons.iter().enumerate() {
                if let Some((a, b)) = c {
                    cr.insert(ids[i], PCidRange { ts_min: Duration::from_secs(*a), ts_max: Duration::from_secs(*b) });
                }
            }
            let got = srv.rt.block_on(async {
                let mut r = srv.qs.read().await?;
                r.supplier_provide_changes(ReplRuvRange::V1 { domain_uuid, ranges: cr })
            });
            n += 1;
            match got {
                Ok(c) => {
                    let k = answer_kind(&c);
                    if k != want {
                        ctx.violation(&format!("wire_answer:{want}->{k}"), &format!("a real supplier answered {k} to a consumer whose window for server 1 is {na} and for server 2 is {nb}; the statement requires {want}"), json!({"wire": true, "consumer": [na, nb]}));
                    }
                }
                Err(e) => ctx.violation("wire_answer:error", &format!("supplier_provide_changes failed for consumer windows {na}/{nb}: {e:?}"), json!({"wire": true, "consumer": [na, nb]})),
            }
        }
    }
    n
}

#[derive(Default)]
struct Acc {
    evals: u64,
    kinds: [u64; 6],
    bad: Vec<(u64, String)>,
    nbad: u64,
}

pub fn run(args: &[String]) -> ! {
    let mut ctx = Ctx::new("C10", Level::Exploration, args);
    // (servers, tmax) configurations; quick = the property's stated bound.
    let configs: Vec<(usize, u64)> = if ctx.quick() { vec![(3, 4)] } else { vec![(3, 4), (3, 5), (4, 2)] };

    if let Some(r) = ctx.replay.clone() {
        let idx = r["case"]["index"].as_u64().unwrap_or(0);
        let ns = r["case"]["servers"].as_u64().unwrap_or(3) as usize;
        let tmax = r["case"]["tmax"].as_u64().unwrap_or(4);
        let w = windows(tmax);
        let (c, s) = case(idx, &w, ns);
        let exp = reference(&c, &s);
        let obs = observed(range_diff(&to_map(&c), &to_map(&s)));
        println!("consumer={c:?} supplier={s:?}\n expected={exp:?}\n observed={obs:?}");
        if exp != obs {
            ctx.violation("replay", "range_diff disagrees with the decision table", json!({"index": idx}));
        }
        ctx.finish();
    }

    let mut kinds = [0u64; 6];
    let mut evals = 0;
    let mut nbad = 0;
    for (ns, tmax) in configs.iter().copied() {
        let w = windows(tmax);
        let total = (w.len() as u64).pow(2 * ns as u32);
        let accs = product::par_run(
            product::ncpu(),
            total,
            4096,
            |_| Acc::default(),
            |acc, idx| {
                let (c, s) = case(idx, &w, ns);
                let exp = reference(&c, &s);
                let obs = observed(range_diff(&to_map(&c), &to_map(&s)));
                acc.evals += 1;
                acc.kinds[kind(&exp)] += 1;
                if exp != obs {
                    acc.nbad += 1;
                    if acc.bad.len() < 4 {
                        acc.bad.push((
                            idx,
                            format!("consumer={c:?} supplier={s:?} expected={exp:?} observed={obs:?}"),
                        ));
                    }
                }
            },
        );
        let mut bad: Vec<(u64, String)> = Vec::new();
        for a in accs {
            evals += a.evals;
            nbad += a.nbad;
            for i in 0..6 {
                kinds[i] += a.kinds[i];
            }
            bad.extend(a.bad);
        }
        bad.sort();
        // key: the expected status kind of the failing case, so that a different kind of
        // disagreement is a different finding.
        for (idx, what) in bad.iter() {
            let (c, s) = case(*idx, &w, ns);
            let k = format!("kind{}", kind(&reference(&c, &s)));
            ctx.violation(&k, what, json!({"index": idx, "servers": ns, "tmax": tmax, "consumer": format!("{c:?}"), "supplier": format!("{s:?}")}));
        }
        for idx in [1u64, 4369, 70000, 1234567, total - 1] {
            let (c, s) = case(idx % total, &w, ns);
            ctx.sample(json!({"consumer": format!("{c:?}"), "supplier": format!("{s:?}"), "expected": format!("{:?}", reference(&c, &s))}));
        }
    }
    let wire = if ctx.replay.is_none() { wire_conformance(&mut ctx) } else { 0 };
    evals += wire;
    ctx.set("wire_answer_cases", wire);
    ctx.set("evaluations", evals);
    // distinct & non-trivial: every case is a distinct input; non-trivial = the two sides share
    // at least one server (anything else is decided by the first test).
    let nontrivial: u64 = evals - kinds[5];
    ctx.set("distinct_nontrivial", nontrivial);
    ctx.set(
        "rule",
        "all (consumer, supplier) pairs of RUV maps over N server uuids, each window absent or [min,max] with 0<=min<=max<=T; quick: N=3,T=4 (16^6 pairs); thorough adds N=3,T=5 (22^6) and N=4,T=2 (7^8); a case is non-trivial when the two maps share at least one server",
    );
    ctx.set("configs", json!(configs));
    ctx.set("exhaustive", true);
    ctx.set(
        "expected_status_histogram",
        json!({"ok_nothing_to_send": kinds[0], "ok_supply": kinds[1], "refresh": kinds[2], "unwilling": kinds[3], "critical": kinds[4], "no_overlap": kinds[5]}),
    );
    ctx.set("mismatches", nbad);
    ctx.assume("the decision table in checks/c10.rs is a faithful reading of the property statement");
    ctx.assume("times are whole seconds on a small grid; only order relations between bounds matter to range_diff");
    ctx.finish();
}
