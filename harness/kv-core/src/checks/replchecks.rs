//! Properties decided on the REPL world: C08 convergence, C19 uniqueness across replicas,
//! C09 deletions never resurrected / laggards refused.

use crate::worlds::repl::{Cfg, Op, Repl};
use kv_engine::forkdfs::{self, Opts};
use kv_engine::{Ctx, Level};
use serde_json::json;

fn cfgs(id: &str, quick: bool) -> Vec<(&'static str, Cfg, u8)> {
    let props = |p: &[&'static str]| p.iter().copied().collect();
    match id {
        "C08" => {
            let mut v = vec![
                // concurrent edits of one entry that every replica already has
                (
                    "edit-conflicts",
                    // quick: one rename target and one displayname value, no replication steps inside the
                    // trace (every state is run to quiescence under both edge orders anyway)
                    Cfg { class_edits: false, replicas: 2, slots: vec![0], names: 2, disp: true, rename: true, lifecycle: true, revive: true, members: false, refresh: false, aging: false, max_repl: if quick { 0 } else { 1 }, precreate: vec![0], same_time: false, props: props(&["C08"]), pre_ops: vec![], small: quick },
                    if quick { 2 } else { 4 },
                ),
                // the same uuid / the same name created independently; membership vs delete
                (
                    "create-conflicts",
                    Cfg { class_edits: false, replicas: 2, slots: vec![0, 2], names: 2, disp: false, rename: false, lifecycle: true, revive: false, members: true, refresh: false, aging: false, max_repl: 1, precreate: vec![], same_time: false, props: props(&["C08"]), pre_ops: vec![], small: false },
                    if quick { 2 } else { 4 },
                ),
            ];
            if !quick {
                v.push((
                    "same-timestamp",
                    Cfg { class_edits: false, replicas: 2, slots: vec![0], names: 2, disp: true, rename: true, lifecycle: true, revive: true, members: false, refresh: true, aging: false, max_repl: 1, precreate: vec![0], same_time: true, props: props(&["C08"]), pre_ops: vec![], small: false },
                    3,
                ));
                v.push((
                    "three-replicas",
                    Cfg { class_edits: false, replicas: 3, slots: vec![0], names: 2, disp: true, rename: false, lifecycle: true, revive: false, members: false, refresh: false, aging: false, max_repl: 1, precreate: vec![0], same_time: false, props: props(&["C08"]), pre_ops: vec![], small: false },
                    3,
                ));
            }
            v
        }
        "C19" => vec![
            (
                "names-two-replicas",
                Cfg { class_edits: false, replicas: 2, slots: vec![0, 1], names: 2, disp: false, rename: true, lifecycle: true, revive: true, members: false, refresh: false, aging: false, max_repl: 1, precreate: vec![], same_time: false, props: props(&["C19"]), pre_ops: vec![], small: false },
                if quick { 2 } else { 4 },
            ),
        ],
        _ => vec![
            (
                "delete-vs-edit",
                Cfg { class_edits: false, replicas: 2, slots: vec![0], names: 1, disp: true, rename: false, lifecycle: true, revive: false, members: false, refresh: false, aging: false, max_repl: 2, precreate: vec![0], same_time: false, props: props(&["C09"]), pre_ops: vec![], small: false },
                if quick { 2 } else { 4 },
            ),
            (
                // replica 0 created, deleted and tombstoned the entry; replica 1 never saw it
                "tombstone-vs-create",
                Cfg { class_edits: false, replicas: 2, slots: vec![0], names: 1, disp: true, rename: false, lifecycle: true, revive: false, members: false, refresh: false, aging: false, max_repl: 1, precreate: vec![], same_time: false, props: props(&["C09"]), pre_ops: vec![Op::Create(0, 0, 0), Op::Delete(0, 0), Op::AgeRecycle(0)], small: true },
                if quick { 2 } else { 4 },
            ),
            (
                // the same with the roles swapped: the joined replica made the tombstone, so the
                // other side has no knowledge of its server id at all and is supplied unconditionally
                "tombstone-vs-create-swapped",
                Cfg { class_edits: false, replicas: 2, slots: vec![0], names: 1, disp: true, rename: false, lifecycle: true, revive: false, members: false, refresh: false, aging: false, max_repl: 1, precreate: vec![], same_time: false, props: props(&["C09"]), pre_ops: vec![Op::Create(1, 0, 0), Op::Delete(1, 0), Op::AgeRecycle(0)], small: true },
                if quick { 2 } else { 4 },
            ),
            (
                "aging",
                Cfg { class_edits: false, replicas: 2, slots: vec![0], names: 1, disp: false, rename: false, lifecycle: true, revive: false, members: false, refresh: false, aging: true, max_repl: 2, precreate: vec![0], same_time: false, props: props(&["C09"]), pre_ops: vec![], small: false },
                if quick { 2 } else { 5 },
            ),
        ],
    }
}

pub fn run(id: &'static str, args: &[String]) -> ! {
    let mut ctx = Ctx::new(id, Level::ModelChecking, args);
    let quick = ctx.quick();
    let all = cfgs(id, quick);

    if let Some(r) = ctx.replay.clone() {
        let name = r["case"]["world"].as_str().unwrap_or("");
        if name == "dir-single" {
            let (cfg, _) = super::dirchecks::cfg_for(id, quick);
            let mut w = crate::worlds::dir::Dir::new(cfg);
            match forkdfs::replay(&mut w, &r["case"]["trace"]) {
                Ok(v) => {
                    for (k, what) in v {
                        println!("{k}: {what}");
                        ctx.violation(&k, &what, r["case"].clone());
                    }
                }
                Err(e) => ctx.machinery_error(e),
            }
            ctx.finish();
        }
        let Some((_, cfg, _)) = all.iter().find(|c| c.0 == name) else {
            kv_engine::ctx::machinery_exit("replay names an unknown world")
        };
        let mut w = Repl::new(cfg.clone());
        match forkdfs::replay(&mut w, &r["case"]["trace"]) {
            Ok(v) => {
                for (k, what) in v {
                    println!("{k}: {what}");
                    ctx.violation(&k, &what, r["case"].clone());
                }
            }
            Err(e) => ctx.machinery_error(e),
        }
        ctx.finish();
    }

    let mut worlds = Vec::new();
    let mut capped = false;
    if id == "C19" {
        // single-server part: duplicates arriving in one request or in separate transactions
        let (cfg, depth) = super::dirchecks::cfg_for(id, quick);
        let mut w = crate::worlds::dir::Dir::new(cfg.clone());
        let opts = Opts { depth, procs: 2, deadline_s: if quick { 20.0 } else { 600.0 }, log2_slots: 22, dedup: true, max_samples: 3, par_depth: 1 };
        let rep = forkdfs::run_into_ctx(&mut ctx, &mut w, &opts, "dir-single");
        capped |= rep.capped;
        worlds.push(json!({"world": "dir-single", "depth": depth, "replicas": 1, "slots": cfg.slots, "states": rep.states, "transitions": rep.transitions, "outcomes": rep.outcomes.keys().collect::<Vec<_>>(), "complete": !rep.capped,
            "alphabet": {"names": cfg.names, "create_rename_delete_revive": true}}));
    }
    let budget = if quick { 25.0 } else { 1500.0 / all.len() as f64 };
    for (name, cfg, depth) in &all {
        let depth = ctx.opt_u64("depth").map(|d| d as u8).unwrap_or(*depth);
        let mut w = Repl::new(cfg.clone());
        let opts = Opts {
            depth,
            // fork / copy-on-write faults do not scale across cores in this sandbox (measured: 1, 2,
            // 4, 8 processes give the same wall time), so the search runs nearly sequentially
            procs: ctx.opt_u64("procs").map(|p| p as usize).unwrap_or(2),
            deadline_s: budget,
            log2_slots: 22,
            dedup: true,
            max_samples: 3,
            par_depth: ctx.opt_u64("par_depth").map(|p| p as usize).unwrap_or(1),
        };
        let rep = forkdfs::run_into_ctx(&mut ctx, &mut w, &opts, name);
        capped |= rep.capped;
        worlds.push(json!({"world": name, "depth": depth, "replicas": cfg.replicas, "slots": cfg.slots, "states": rep.states, "transitions": rep.transitions, "outcomes": rep.outcomes.keys().collect::<Vec<_>>(), "complete": !rep.capped,
            "alphabet": {"names": cfg.names, "displayname_and_mail_edits": cfg.disp, "rename": cfg.rename, "delete": cfg.lifecycle, "revive": cfg.revive, "members": cfg.members, "refresh": cfg.refresh, "aging": cfg.aging, "replication_steps_in_trace": cfg.max_repl, "precreated_everywhere": cfg.precreate, "same_timestamp": cfg.same_time}}));
    }
    ctx.set("worlds", json!(worlds));
    ctx.set("bound", "per world: all sequences of local operations on any replica and replication steps up to the stated depth; in EVERY state replication is then run to quiescence (in a forked copy) under every first-round edge order (2 replicas: both; 3 replicas: 6 topologies) and the replicas compared");
    ctx.set("exhaustive", !capped);
    if capped {
        ctx.assume("the wall-clock cap was hit in at least one world: that world is complete only below its depth");
    }
    ctx.assume("replicas are real QueryServers in one process; a replication step is the real consumer_get_state / supplier_provide_changes / consumer_apply_changes (or refresh) call chain without the network layer");
    ctx.assume("every transaction has its own timestamp from the harness clock (the same-timestamp world gives all of them one timestamp)");
    ctx.finish();
}
