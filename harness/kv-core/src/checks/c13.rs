//! C13 — backup then restore reproduces the database.
//!
//! (1) E2: at every distinct state of the REFS world (people, groups, dynamic group, OAuth2
//! client, memberships, entry managers, scope maps, recycled entries, tombstones, purges) the
//! database is backed up with and without compression, restored into a fresh backend exactly as
//! the server's restore command does, backed up again and compared; a server is started on the
//! restored database, its verify() must be clean and it must answer a battery of searches and
//! name lookups exactly as the original. Backups whose version field is changed, emptied or
//! removed must be refused.
//! (2) The same oracle on one rich identity-management state: password and TOTP credentials,
//! login sessions, API tokens (both encodings), an OAuth2 client with its keys, a recycled and a
//! tombstoned account.

use crate::bkp;
use crate::idmfx::{person_entry, person_uuid, service_entry, Idm, PW_GOOD, PW_NEW};
use crate::srv;
use crate::worlds::refs::{Cfg, Op, Refs};
use kanidmd_lib::idm::serviceaccount::GenerateApiTokenEvent;
use kanidmd_lib::prelude::*;
use kanidmd_lib::verif_hooks::identity_internal;
use kv_engine::forkdfs::{self, Opts};
use kv_engine::{Ctx, Level};
use serde_json::json;

fn worlds(quick: bool) -> Vec<(&'static str, Cfg, u8)> {
    let props: std::collections::BTreeSet<&'static str> = ["C13"].into_iter().collect();
    vec![
        (
            "references-and-lifecycle",
            Cfg { slots: vec![0, 2, 3, 5], precreate: vec![0, 2, 3, 5], pre_ops: vec![Op::AddMember(2, 0), Op::AddMember(3, 2), Op::SetManager(2, 0), Op::SetScopeMap(3)], refs: true, dynamic: false, purge: true, filters: vec![0], props: props.clone() },
            if quick { 2 } else { 3 },
        ),
        (
            "dynamic-group-and-bin",
            Cfg { slots: vec![0, 1, 4], precreate: vec![0, 1, 4], pre_ops: vec![Op::Delete(1)], refs: false, dynamic: true, purge: true, filters: vec![0, 2], props },
            if quick { 2 } else { 4 },
        ),
    ]
}

fn rich_state() -> Result<Vec<(String, String)>, String> {
    let mut idm = Idm::new();
    let e = |r: Result<(), OperationError>, what: &str| r.map_err(|e| format!("{what}: {e:?}"));
    e(idm.create(srv::t(10), person_entry("alice", person_uuid(0))), "create alice")?;
    e(idm.create(srv::t(11), person_entry("bob", person_uuid(1))), "create bob")?;
    e(idm.create(srv::t(12), person_entry("carol", person_uuid(2))), "create carol")?;
    e(idm.create(srv::t(13), person_entry("dave", person_uuid(3))), "create dave")?;
    e(idm.create(srv::t(14), service_entry("svc", person_uuid(4))), "create svc")?;
    idm.set_primary(srv::t(20), person_uuid(0), PW_GOOD, false).map_err(|e| format!("alice password: {e:?}"))?;
    idm.set_primary(srv::t(21), person_uuid(1), PW_NEW, true).map_err(|e| format!("bob password+totp: {e:?}"))?;
    // sessions
    for t in [30u64, 31] {
        let tok = idm.login_pw("alice", PW_GOOD, t == 31, srv::t(t)).map_err(|e| format!("login: {e:?}"))?;
        if tok.is_none() {
            return Err("alice could not log in".into());
        }
        idm.pump(srv::t(t));
    }
    // API tokens in both encodings
    for (i, compact) in [false, true].into_iter().enumerate() {
        idm.write(srv::t(40 + i as u64), |w| w.service_account_generate_api_token(&GenerateApiTokenEvent { ident: identity_internal(), target: person_uuid(4), label: format!("t{i}"), expiry: None, read_write: i == 0, compact }, srv::t(40 + i as u64)).map(|_| ()))
            .map_err(|e| format!("api token: {e:?}"))?;
    }
    // an OAuth2 client (keys are generated), group membership
    idm.write(srv::t(50), |w| {
        let mut d = 0usize;
        super::c04::apply(w, 5, false, None, &mut d)?;
        w.qs_write.internal_create(vec![crate::acpfx::group_entry("team", Uuid::from_u128(0xbac0_0000_0000_4000_8000_0000_0000_0001), &[person_uuid(0), person_uuid(1)])])
    })
    .map_err(|e| format!("oauth2 client / group: {e:?}"))?;
    // one account in the bin, one tombstoned
    idm.write(srv::t(60), |w| w.qs_write.internal_delete_uuid(person_uuid(3))).map_err(|e| format!("delete dave: {e:?}"))?;
    idm.write(srv::t(61), |w| w.qs_write.internal_delete_uuid(person_uuid(2))).map_err(|e| format!("delete carol: {e:?}"))?;
    let later = 61 + RECYCLEBIN_MAX_AGE + 10;
    // carol is old enough to be tombstoned only if dave is too: delete dave again later instead
    idm.write(srv::t(later), |w| w.qs_write.purge_recycled().map(|_| ())).map_err(|e| format!("purge: {e:?}"))?;
    e(idm.create(srv::t(later + 1), person_entry("erin", person_uuid(5))), "create erin")?;
    idm.write(srv::t(later + 2), |w| w.qs_write.internal_delete_uuid(person_uuid(5))).map_err(|e| format!("delete erin: {e:?}"))?;
    let uuids: Vec<Uuid> = (0..6).map(person_uuid).collect();
    let names = ["alice", "bob", "carol", "dave", "svc", "erin", "team", "verifclient"];
    let orig = idm.read(|r| bkp::observe_original(&mut r.qs_read, &uuids, &names))?;
    // the backup must really contain what the state is meant to contain
    let txt = String::from_utf8_lossy(&orig.plain).to_string();
    for needle in ["totp", "recycled", "tombstone", "api_token_session", "user_auth_token_session", "oauth2_resource_server"] {
        if !txt.to_lowercase().contains(needle) {
            return Err(format!("the prepared state lacks `{needle}` (the fixture no longer builds what it should)"));
        }
    }
    Ok(bkp::round_trip_check(&idm.rt, &orig, srv::t(later + 100), &uuids, &names))
}

pub fn run(args: &[String]) -> ! {
    let mut ctx = Ctx::new("C13", Level::ModelChecking, args);
    let ws = worlds(ctx.quick());
    if let Some(r) = ctx.replay.clone() {
        let name = r["case"]["world"].as_str().unwrap_or("");
        if name == "rich-idm-state" {
            match rich_state() {
                Ok(v) => {
                    for (k, what) in v {
                        ctx.violation(&k, &what, r["case"].clone());
                    }
                }
                Err(e) => ctx.machinery_error(e),
            }
            ctx.finish();
        }
        match ws.iter().find(|(n, _, _)| *n == name) {
            Some((_, cfg, _)) => {
                let mut w = Refs::new(cfg.clone());
                match forkdfs::replay(&mut w, &r["case"]["trace"]) {
                    Ok(v) => {
                        for (k, what) in v {
                            println!("{k}: {what}");
                            ctx.violation(&k, &what, r["case"].clone());
                        }
                    }
                    Err(e) => ctx.machinery_error(e),
                }
            }
            None => ctx.machinery_error(format!("replay names an unknown world `{name}`")),
        }
        ctx.finish();
    }
    match forkdfs::fork_eval(|| match rich_state() {
        Ok(v) => serde_json::to_string(&v).unwrap_or_default(),
        Err(e) => format!("ERR {e}"),
    }) {
        Ok(s) if s.starts_with("ERR ") => ctx.machinery_error(s),
        Ok(s) => {
            let v: Vec<(String, String)> = serde_json::from_str(&s).unwrap_or_default();
            ctx.add("rich_state_round_trips", 2);
            for (k, what) in v {
                if k.starts_with("machinery:") {
                    ctx.machinery_error(format!("{k}: {what}"));
                } else {
                    ctx.violation(&k, &what, json!({"world": "rich-idm-state"}));
                }
            }
        }
        Err(e) => ctx.machinery_error(e),
    }
    let mut summary = Vec::new();
    let mut capped_any = false;
    let budget = if ctx.quick() { 30.0 / ws.len() as f64 } else { 1500.0 / ws.len() as f64 };
    for (name, cfg, depth) in &ws {
        let depth = ctx.opt_u64("depth").map(|d| d as u8).unwrap_or(*depth);
        let mut w = Refs::new(cfg.clone());
        let opts = Opts { depth, procs: 2, deadline_s: budget, log2_slots: 22, dedup: true, max_samples: 3, par_depth: 1 };
        let rep = forkdfs::run_into_ctx(&mut ctx, &mut w, &opts, name);
        capped_any |= rep.capped;
        summary.push(json!({"world": name, "depth": depth, "states": rep.states, "transitions": rep.transitions, "capped": rep.capped, "outcomes": rep.outcomes.keys().collect::<Vec<_>>() }));
    }
    let st = ctx.get_u64("states");
    ctx.set("round_trips", st * 2);
    ctx.set("worlds", json!(summary));
    ctx.set("exhaustive", !capped_any);
    ctx.set("rule", "at every distinct state: backup x {no compression, gzip} -> restore into a fresh backend + reindex -> backup again and compare (entries, server and domain ids, maximum change time, key handles, replication metadata) -> start a server, verify(), 9 + 2 per slot + 1 per name searches and the name / spn lookups compared with the original; 3 altered version fields must be refused");
    ctx.assume("the restored database is started at the harness clock of the state; the battery compares complete entries except the last-modified change identifier, which every server start rewrites on shipped entries; the backup-of-the-restored-database comparison covers every stored byte as a multiset (arrays are compared without order, because several value kinds are stored from unordered collections)");
    ctx.finish();
}
