//! C39 — OAuth2 tokens are redeemable only as issued (world OAUTH).

use crate::worlds::oauth::{Cfg, Mutation, OAuthW, Op};
use kv_engine::forkdfs::{self, Opts};
use kv_engine::{Ctx, Level};
use serde_json::json;

fn worlds(quick: bool) -> Vec<(&'static str, Cfg, u8)> {
    let mut v = vec![
        // a fresh code at the confidential client: every way of redeeming it, then refresh and replay
        ("one-code", Cfg { clients: vec![0], max_codes: 1, max_sets: 3, lifecycle: false, ticks: vec![0], pre_ops: vec![Op::Authorise(0, 1)], legacy_crypto: false, key_revocation: false, cred_replacement: false, only_keys: vec![] }, if quick { 3 } else { 5 }),
        // tokens already issued and refreshed once: revocation, account expiry, logout, time
        ("issued-and-refreshed", Cfg { clients: vec![0], max_codes: 1, max_sets: 3, lifecycle: true, ticks: vec![1, 2], pre_ops: vec![Op::Authorise(0, 1), Op::Exchange(0, Mutation::None), Op::Refresh(0, 0)], legacy_crypto: false, key_revocation: false, cred_replacement: false, only_keys: vec![] }, if quick { 2 } else { 4 }),
    ];
    // a code waiting to be redeemed while the account expires / the parent session is logged out
    v.push(("code-then-lifecycle", Cfg { clients: vec![0], max_codes: 1, max_sets: 2, lifecycle: true, ticks: vec![0], pre_ops: vec![Op::Authorise(0, 1)], legacy_crypto: false, key_revocation: false, cred_replacement: false, only_keys: vec![] }, if quick { 2 } else { 3 }));
    if !quick {
        v.push(("public-client", Cfg { clients: vec![2], max_codes: 2, max_sets: 3, lifecycle: true, ticks: vec![0, 1], pre_ops: vec![], legacy_crypto: false, key_revocation: false, cred_replacement: false, only_keys: vec![] }, 4));
        v.push(("two-grants", Cfg { clients: vec![0, 2], max_codes: 2, max_sets: 4, lifecycle: true, ticks: vec![1], pre_ops: vec![Op::Authorise(0, 0), Op::Exchange(0, Mutation::None)], legacy_crypto: false, key_revocation: false, cred_replacement: false, only_keys: vec![] }, 4));
    }
    v
}

pub fn run(args: &[String]) -> ! {
    let mut ctx = Ctx::new("C39", Level::ModelChecking, args);
    let ws = worlds(ctx.quick());
    if let Some(r) = ctx.replay.clone() {
        let name = r["case"]["world"].as_str().unwrap_or("");
        let all = worlds(false);
        match ws.iter().chain(all.iter()).find(|(n, _, _)| *n == name) {
            Some((_, cfg, _)) => {
                let mut w = OAuthW::new(cfg.clone());
                match forkdfs::replay(&mut w, &r["case"]["trace"]) {
                    Ok(v) => {
                        for (k, what) in v {
                            println!("{k}: {what}");
                            ctx.violation(&k, &what, r["case"].clone());
                        }
                    }
                    Err(e) => ctx.machinery_error(e),
                }
            }
            None => ctx.machinery_error(format!("replay names an unknown world `{name}`")),
        }
        ctx.finish();
    }
    let mut summary = Vec::new();
    let mut capped_any = false;
    let budget = if ctx.quick() { 50.0 / ws.len() as f64 } else { 1500.0 / ws.len() as f64 };
    for (name, cfg, depth) in &ws {
        let depth = ctx.opt_u64("depth").map(|d| d as u8).unwrap_or(*depth);
        let mut w = OAuthW::new(cfg.clone());
        let opts = Opts { depth, procs: 2, deadline_s: budget, log2_slots: 22, dedup: true, max_samples: 3, par_depth: 1 };
        let rep = forkdfs::run_into_ctx(&mut ctx, &mut w, &opts, name);
        capped_any |= rep.capped;
        summary.push(json!({"world": name, "depth": depth, "states": rep.states, "transitions": rep.transitions, "capped": rep.capped, "pre_ops": format!("{:?}", cfg.pre_ops), "outcomes": rep.outcomes.keys().collect::<Vec<_>>() }));
    }
    ctx.set("worlds", json!(summary));
    ctx.set("exhaustive", !capped_any);
    if capped_any {
        ctx.assume("the wall-clock cap was hit in at least one world: that world is complete only below the stated depth");
    }
    ctx.assume("codes are obtained through the real authorisation, consent and permit steps of a real login session; every token ever issued is put to introspection and userinfo after every step");
    ctx.assume("the direction checked is the statement's: what must be refused is refused (mutated redemptions, expired codes, widened refreshes, replayed refresh tokens, revoked / expired / logged-out sessions); that the unmodified paths succeed is only required so that the search is not vacuous (a refusal there is a machinery error)");
    ctx.finish();
}
