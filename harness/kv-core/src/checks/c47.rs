//! C47 — stopping a supervisor stops everything under it.
//!
//! Delay-bounded exhaustive scheduling of the real `kanidm_actors` runtime on a single-threaded
//! tokio executor: the executor's schedule is a deterministic function of where tasks yield, so
//! every vector of extra yields (0..=k at every actor step: setup, state, run, cleanup), every
//! stop delay and every supervisor tree of a small family is one distinct, reproducible schedule.
//! All of them are run. Oracle: when `Supervisor::stop().await` (or `Runtime::exec`, after a
//! terminate signal) returns, every actor registered under that supervisor — directly or through
//! subordinate supervisors — has run its cleanup and its task has finished; the stop itself
//! completes.

use kanidm_actors::{Actor, ActorState, Runtime, RuntimeSetup, Signal, SignalHandler, SoftwareSignalSource, Supervisor};
use kv_engine::{product, Ctx, Level};
use serde_json::json;
use std::future::Future;
use std::sync::{Arc, Mutex};
use tokio::task::JoinHandle;

#[derive(Clone, Copy, Debug, PartialEq)]
enum Kind {
    /// handles n messages, then asks to stop by itself
    EndsAfter(usize),
    /// always has another message
    Forever,
    /// never has a message: waits in state() until told to stop
    Waits,
}

type Log = Arc<Mutex<Vec<String>>>;

struct TestActor {
    id: usize,
    kind: Kind,
    /// extra yields at setup, state, run, cleanup
    y: [usize; 4],
    done: usize,
    log: Log,
}

async fn yields(n: usize) {
    for _ in 0..n {
        tokio::task::yield_now().await;
    }
}

impl Actor for TestActor {
    type Message = ();

    fn setup(&mut self) -> impl Future<Output = ()> + Send {
        async move {
            yields(self.y[0]).await;
            if let Ok(mut l) = self.log.lock() {
                l.push(format!("setup {}", self.id));
            }
        }
    }

    fn state(&mut self) -> impl Future<Output = ActorState<()>> + Send {
        async move {
            yields(self.y[1]).await;
            match self.kind {
                Kind::EndsAfter(n) if self.done >= n => ActorState::Stop,
                Kind::EndsAfter(_) | Kind::Forever => {
                    // (a message source always yields at least once)
                    tokio::task::yield_now().await;
                    ActorState::Ready(())
                }
                Kind::Waits => std::future::pending().await,
            }
        }
    }

    fn run(&mut self, _m: ()) -> impl Future<Output = ()> + Send {
        async move {
            yields(self.y[2]).await;
            self.done += 1;
        }
    }

    fn cleanup(&mut self) -> impl Future<Output = ()> + Send {
        async move {
            yields(self.y[3]).await;
            if let Ok(mut l) = self.log.lock() {
                l.push(format!("cleanup {}", self.id));
            }
        }
    }
}

/// supervisor trees: a node is (actors directly under it, subordinate supervisors)
#[derive(Clone, Debug)]
struct Tree {
    actors: Vec<Kind>,
    subs: Vec<Tree>,
}

fn trees() -> Vec<(&'static str, Tree)> {
    let leaf = |a: Vec<Kind>| Tree { actors: a, subs: vec![] };
    vec![
        ("flat", Tree { actors: vec![Kind::EndsAfter(1), Kind::Forever, Kind::Waits], subs: vec![] }),
        ("one-subordinate", Tree { actors: vec![Kind::Forever], subs: vec![leaf(vec![Kind::Waits, Kind::EndsAfter(0)])] }),
        ("nested", Tree { actors: vec![Kind::Waits], subs: vec![Tree { actors: vec![Kind::Forever], subs: vec![leaf(vec![Kind::EndsAfter(2)])] }] }),
        ("siblings", Tree { actors: vec![], subs: vec![leaf(vec![Kind::Forever]), leaf(vec![Kind::Waits, Kind::Forever])] }),
    ]
}

fn count(t: &Tree) -> usize {
    t.actors.len() + t.subs.iter().map(count).sum::<usize>()
}

/// what to stop: the whole runtime (terminate signal) or the i-th subordinate of the primary
#[derive(Clone, Copy, Debug, PartialEq)]
enum Stop {
    Terminate,
    Subordinate(usize),
}

struct Built {
    /// per subordinate of the primary: (supervisor, ids under it)
    subs: Vec<(Option<Supervisor>, Vec<usize>)>,
    handles: Vec<(usize, JoinHandle<()>)>,
}

fn build<'a>(sup: &'a mut Supervisor, t: &'a Tree, ys: &'a [[usize; 4]], next: &'a mut usize, log: &'a Log, handles: &'a mut Vec<(usize, JoinHandle<()>)>, under: &'a mut Vec<usize>) -> std::pin::Pin<Box<dyn Future<Output = Vec<(Supervisor, Vec<usize>)>> + Send + 'a>> {
    Box::pin(async move {
        for k in &t.actors {
            let id = *next;
            *next += 1;
            under.push(id);
            let h = sup.spawn(TestActor { id, kind: *k, y: ys[id], done: 0, log: log.clone() });
            handles.push((id, h));
        }
        let mut out = Vec::new();
        for s in &t.subs {
            let mut child = sup.subordinate().await;
            let mut ids = Vec::new();
            let deeper = build(&mut child, s, ys, next, log, handles, &mut ids).await;
            // deeper supervisors are kept alive by being leaked into the list as well
            under.extend(ids.iter().copied());
            out.push((child, ids));
            out.extend(deeper);
        }
        out
    })
}

struct Setup {
    tree: Tree,
    ys: Vec<[usize; 4]>,
    log: Log,
    out: Arc<Mutex<Option<Built>>>,
}

impl RuntimeSetup for Setup {
    type Error = ();
    fn setup(self, supervisor: &mut Supervisor) -> impl Future<Output = Result<(), ()>> + Send {
        async move {
            let mut next = 0usize;
            let mut handles = Vec::new();
            let mut under = Vec::new();
            let subs = build(supervisor, &self.tree, &self.ys, &mut next, &self.log, &mut handles, &mut under).await;
            let first_level = self.tree.subs.len();
            let _ = first_level;
            if let Ok(mut g) = self.out.lock() {
                *g = Some(Built { subs: subs.into_iter().map(|(s, ids)| (Some(s), ids)).collect(), handles });
            }
            Ok(())
        }
    }
}

struct Quiet;
impl SignalHandler for Quiet {}

/// run one schedule; returns Err(key, what) on a violation
fn run_one(tree: &Tree, ys: &[[usize; 4]], stop: Stop, delay: usize) -> Result<String, (String, String)> {
    let rt = tokio::runtime::Builder::new_current_thread().enable_time().build().map_err(|e| ("machinery:runtime".to_string(), e.to_string()))?;
    let log: Log = Arc::new(Mutex::new(Vec::new()));
    let out: Arc<Mutex<Option<Built>>> = Arc::new(Mutex::new(None));
    let n = count(tree);
    let res: Result<Result<String, (String, String)>, tokio::time::error::Elapsed> = rt.block_on(async {
        tokio::time::timeout(std::time::Duration::from_secs(10), async {
            let (src, tx) = SoftwareSignalSource::new();
            let setup = Setup { tree: tree.clone(), ys: ys.to_vec(), log: log.clone(), out: out.clone() };
            let exec = tokio::spawn(async move { Runtime::new().exec(setup, Quiet, src).await });
            // let the tree come up and run for `delay` scheduler turns
            yields(delay).await;
            let cleaned = |log: &Log, id: usize| log.lock().map(|l| l.iter().any(|e| *e == format!("cleanup {id}"))).unwrap_or(false);
            if let Stop::Subordinate(i) = stop {
                // wait until setup has happened (the driver must hold the supervisor to stop it)
                let mut tries = 0;
                let taken = loop {
                    let t = out.lock().ok().and_then(|mut g| g.as_mut().and_then(|b| b.subs.get_mut(i).and_then(|(s, ids)| s.take().map(|s| (s, ids.clone())))));
                    if t.is_some() || tries > 1000 {
                        break t;
                    }
                    tries += 1;
                    tokio::task::yield_now().await;
                };
                let Some((sup, ids)) = taken else { return Err(("machinery:no_subordinate".to_string(), "the tree never came up".to_string())) };
                sup.stop().await;
                for id in &ids {
                    if !cleaned(&log, *id) {
                        return Err(("actor_not_cleaned_up_when_stop_returned".to_string(), format!("Supervisor::stop() returned but actor {id} under it has not run its cleanup")));
                    }
                    let fin = out.lock().ok().and_then(|g| g.as_ref().and_then(|b| b.handles.iter().find(|(h, _)| h == id).map(|(_, h)| h.is_finished()))).unwrap_or(false);
                    if !fin {
                        return Err(("actor_task_running_when_stop_returned".to_string(), format!("Supervisor::stop() returned but the task of actor {id} under it is still running")));
                    }
                }
            }
            // then the whole runtime
            let _ = tx.send(Signal::Terminate).await;
            let _ = exec.await;
            for id in 0..n {
                if !cleaned(&log, id) {
                    return Err(("actor_not_cleaned_up_when_runtime_returned".to_string(), format!("Runtime::exec returned after a terminate signal but actor {id} has not run its cleanup")));
                }
                let fin = out.lock().ok().and_then(|g| g.as_ref().and_then(|b| b.handles.iter().find(|(h, _)| *h == id).map(|(_, h)| h.is_finished()))).unwrap_or(true);
                if !fin {
                    return Err(("actor_task_running_when_runtime_returned".to_string(), format!("Runtime::exec returned but the task of actor {id} is still running")));
                }
            }
            Ok(log.lock().map(|l| l.join(" ")).unwrap_or_default())
        })
        .await
    });
    match res {
        Ok(r) => r,
        Err(_) => Err(("stop_never_completes".to_string(), "the stop did not complete (every actor step terminates)".to_string())),
    }
}

pub fn run(args: &[String]) -> ! {
    let mut ctx = Ctx::new("C47", Level::ModelChecking, args);
    let maxy = ctx.opt_u64("yields").unwrap_or(ctx.pick(1, 2)) as u64;
    let maxd = ctx.opt_u64("delay").unwrap_or(ctx.pick(6, 10)) as usize;
    let ts = trees();
    let (mut total, mut nbad) = (0u64, 0u64);
    let mut per_tree = Vec::new();
    let mut distinct_logs: std::collections::HashSet<u64> = std::collections::HashSet::new();
    for (ti, (name, tree)) in ts.iter().enumerate() {
        let n = count(tree);
        let radices = vec![maxy + 1; n * 4];
        let size = product::product_size(&radices);
        let mut stops = vec![Stop::Terminate];
        for i in 0..tree.subs.len() {
            stops.push(Stop::Subordinate(i));
        }
        if let Some(r) = ctx.replay.clone() {
            if r["case"]["tree"].as_u64() != Some(ti as u64) {
                continue;
            }
        }
        let accs = product::par_run(
            product::ncpu().min(16),
            size,
            64,
            |_| (0u64, Vec::<(String, String, serde_json::Value)>::new(), std::collections::HashSet::<u64>::new(), Vec::<serde_json::Value>::new()),
            |acc, idx| {
                let mut digits = vec![0usize; n * 4];
                product::decode(idx, &radices, &mut digits);
                let ys: Vec<[usize; 4]> = (0..n).map(|a| [digits[a * 4], digits[a * 4 + 1], digits[a * 4 + 2], digits[a * 4 + 3]]).collect();
                for (si, stop) in stops.iter().enumerate() {
                    for d in 0..=maxd {
                        acc.0 += 1;
                        match run_one(tree, &ys, *stop, d) {
                            Err((k, w)) => {
                                if acc.1.len() < 5 {
                                    acc.1.push((k, format!("tree `{name}`, stop {stop:?} after {d} turns, extra yields per actor (setup, state, run, cleanup) {ys:?}: {w}"), json!({"tree": ti, "idx": idx, "stop": si, "delay": d})));
                                }
                            }
                            Ok(events) => {
                                // the order of observable events (setup / run / cleanup per actor) of this schedule
                                if acc.2.insert(kv_engine::hash_str(&events)) && acc.3.len() < 2 && idx % 97 == 0 {
                                    acc.3.push(json!({"tree": name, "stop": format!("{stop:?}"), "after_turns": d, "extra_yields_per_actor": ys, "events": events}));
                                }
                            }
                        }
                    }
                }
            },
        );
        let mut runs = 0;
        for (r, bad, logs, smp) in accs {
            runs += r;
            distinct_logs.extend(logs);
            for x in smp.into_iter().take(1) {
                if ctx.samples_len() < 6 {
                    ctx.sample(x);
                }
            }
            for (k, w, c) in bad {
                nbad += 1;
                if k.starts_with("machinery:") {
                    ctx.machinery_error(format!("{k}: {w}"));
                } else {
                    ctx.violation(&k, &w, c);
                }
            }
        }
        total += runs;
        per_tree.push(json!({"tree": name, "actors": n, "yield_vectors": size, "stops": stops.len(), "delays": maxd + 1, "schedules": runs}));
    }
    ctx.set("evaluations", total);
    ctx.set("distinct_nontrivial", distinct_logs.len() as u64);
    ctx.set("per_tree", json!(per_tree));
    ctx.set("mismatches", nbad);
    ctx.set("rule", format!("4 supervisor trees (flat; one subordinate; nested subordinates; sibling subordinates) with actors that finish by themselves, always have work, or wait for a message; every vector of 0..={maxy} extra yields at each actor's setup / state / run / cleanup; the stop (a subordinate's Supervisor::stop, or a terminate signal to the runtime) issued after 0..={maxd} scheduler turns; on a single-threaded executor each combination is one reproducible schedule. Non-trivial / distinct = distinct orders of the observable events (setup, run, cleanup of each actor) over all schedules"));
    ctx.set("exhaustive", true);
    ctx.assume("schedules are the ones a single-threaded tokio executor produces as the yield points move (delay-bounded scheduling); interleavings that need true parallelism inside tokio's channels are not explored - the sandbox has no tool that intercepts tokio's primitives");
    ctx.finish();
}
