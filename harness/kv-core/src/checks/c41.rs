//! C41 — LDAP and SCIM filters mean what their standards say.
//!
//! E1 product on a real server: LDAP filter trees (RFC 4511: equality, presence, substring with
//! initial / any / final parts, ordering, AND / OR / NOT) and SCIM filter trees (RFC 7644: eq, ne,
//! co, sw, ew, pr, gt, ge, lt, le, and / or / not) up to depth 3 are converted by the real
//! `Filter::from_ldap_ro` / `Filter::from_scim_ro` and executed by the real search over a
//! population with multi-valued attributes, under two index layouts. Oracle: an independent
//! evaluator of the standard semantics (NOT = negation; a multi-valued attribute matches when
//! any value does); "rejected as unsupported" (conversion or search error) is always acceptable.

use crate::checks::c01::{template, vals};
use crate::srv::{self, Srv};
use kanidm_proto::scim_v1::{AttrPath, ScimFilter};
use kanidmd_lib::entry::{Entry, EntryCommitted, EntrySealed};
use kanidmd_lib::prelude::*;
use kanidmd_lib::verif_hooks::{identity_internal, IdxKey};
use kv_engine::forkdfs::fork_eval;
use kv_engine::{Ctx, Level};
use ldap3_proto::proto::{LdapFilter, LdapSubstringFilter};
use serde_json::json;
use std::collections::BTreeSet;
use std::sync::Arc;

type SE = Arc<Entry<EntrySealed, EntryCommitted>>;

#[derive(Clone, Debug, PartialEq, Eq, Hash, serde::Serialize, serde::Deserialize)]
enum T {
    L(usize),
    And(Vec<T>),
    Or(Vec<T>),
    Not(Box<T>),
}

// ---------------------------------------------------------------- LDAP leaves
const NL: usize = 12;
fn sub(a: &str, i: Option<&str>, any: &[&str], f: Option<&str>) -> LdapFilter {
    LdapFilter::Substring(a.into(), LdapSubstringFilter { initial: i.map(|s| s.to_string()), any: any.iter().map(|s| s.to_string()).collect(), final_: f.map(|s| s.to_string()) })
}
fn ldap_leaf(i: usize) -> LdapFilter {
    match i {
        0 => LdapFilter::Equality("name".into(), "aa".into()),
        1 => sub("name", Some("a"), &[], None),
        2 => sub("name", None, &[], Some("b")),
        3 => sub("name", None, &["a"], None),
        4 => sub("name", Some("c"), &["a"], Some("b")),
        5 => LdapFilter::Present("mail".into()),
        6 => LdapFilter::Equality("mail".into(), "m1x@example.com".into()),
        7 => LdapFilter::Equality("class".into(), "person".into()),
        8 => LdapFilter::Equality("gidnumber".into(), "2000".into()),
        9 => LdapFilter::Present("gidnumber".into()),
        10 => LdapFilter::GreaterOrEqual("gidnumber".into(), "2100".into()),
        _ => LdapFilter::LessOrEqual("gidnumber".into(), "2400".into()),
    }
}
fn ldap_leaf_match(i: usize, e: &SE) -> bool {
    let has = |a: Attribute, f: &dyn Fn(&str) -> bool| vals(e, &a).iter().any(|v| f(v));
    let num = |f: &dyn Fn(u64) -> bool| vals(e, &Attribute::GidNumber).iter().any(|v| v.parse::<u64>().map(|n| f(n)).unwrap_or(false));
    match i {
        0 => has(Attribute::Name, &|v| v == "aa"),
        1 => has(Attribute::Name, &|v| v.starts_with('a')),
        2 => has(Attribute::Name, &|v| v.ends_with('b')),
        3 => has(Attribute::Name, &|v| v.contains('a')),
        4 => has(Attribute::Name, &|v| v.len() >= 3 && v.starts_with('c') && v.ends_with('b') && v[1..v.len() - 1].contains('a')),
        5 => !vals(e, &Attribute::Mail).is_empty(),
        6 => has(Attribute::Mail, &|v| v == "m1x@example.com"),
        7 => has(Attribute::Class, &|v| v == "person"),
        8 => num(&|n| n == 2000),
        9 => !vals(e, &Attribute::GidNumber).is_empty(),
        10 => num(&|n| n >= 2100),
        _ => num(&|n| n <= 2400),
    }
}
fn to_ldap(t: &T) -> LdapFilter {
    match t {
        T::L(i) => ldap_leaf(*i),
        T::And(v) => LdapFilter::And(v.iter().map(to_ldap).collect()),
        T::Or(v) => LdapFilter::Or(v.iter().map(to_ldap).collect()),
        T::Not(b) => LdapFilter::Not(Box::new(to_ldap(b))),
    }
}

// ---------------------------------------------------------------- SCIM leaves
const NS: usize = 17;
/// uuid of the test person `bb` (the fourth of the template's people)
const PIVOT: &str = "c0100000-0000-4000-8000-000000000003";
fn pivot() -> Uuid {
    Uuid::parse_str(PIVOT).unwrap_or_default()
}
fn scim_leaf(i: usize) -> ScimFilter {
    let p = |a: Attribute| AttrPath { a, s: None };
    match i {
        0 => ScimFilter::Equal(p(Attribute::Name), json!("aa")),
        1 => ScimFilter::StartsWith(p(Attribute::Name), json!("a")),
        2 => ScimFilter::EndsWith(p(Attribute::Name), json!("b")),
        3 => ScimFilter::Contains(p(Attribute::Name), json!("a")),
        4 => ScimFilter::Present(p(Attribute::Mail)),
        5 => ScimFilter::Equal(p(Attribute::Mail), json!("m1x@example.com")),
        6 => ScimFilter::Equal(p(Attribute::Class), json!("person")),
        // ordering on the one ordered type the JSON front end can express: uuids
        7 => ScimFilter::Less(p(Attribute::Uuid), json!(PIVOT)),
        8 => ScimFilter::Greater(p(Attribute::Uuid), json!(PIVOT)),
        9 => ScimFilter::GreaterOrEqual(p(Attribute::Uuid), json!(PIVOT)),
        10 => ScimFilter::LessOrEqual(p(Attribute::Uuid), json!(PIVOT)),
        11 => ScimFilter::NotEqual(p(Attribute::Name), json!("aa")),
        12 => ScimFilter::Present(p(Attribute::GidNumber)),
        // ordering on a string attribute (the JSON front end only takes strings / booleans / references)
        13 => ScimFilter::Less(p(Attribute::DisplayName), json!("y")),
        14 => ScimFilter::Greater(p(Attribute::DisplayName), json!("x")),
        15 => ScimFilter::GreaterOrEqual(p(Attribute::DisplayName), json!("y")),
        _ => ScimFilter::LessOrEqual(p(Attribute::DisplayName), json!("x")),
    }
}
fn scim_leaf_match(i: usize, e: &SE) -> bool {
    let has = |a: Attribute, f: &dyn Fn(&str) -> bool| vals(e, &a).iter().any(|v| f(v));
    let _num = |f: &dyn Fn(u64) -> bool| vals(e, &Attribute::GidNumber).iter().any(|v| v.parse::<u64>().map(|n| f(n)).unwrap_or(false));
    match i {
        0 => has(Attribute::Name, &|v| v == "aa"),
        1 => has(Attribute::Name, &|v| v.starts_with('a')),
        2 => has(Attribute::Name, &|v| v.ends_with('b')),
        3 => has(Attribute::Name, &|v| v.contains('a')),
        4 => !vals(e, &Attribute::Mail).is_empty(),
        5 => has(Attribute::Mail, &|v| v == "m1x@example.com"),
        6 => has(Attribute::Class, &|v| v == "person"),
        7 => e.get_uuid() < pivot(),
        8 => e.get_uuid() > pivot(),
        9 => e.get_uuid() >= pivot(),
        10 => e.get_uuid() <= pivot(),
        11 => !has(Attribute::Name, &|v| v == "aa"),
        12 => !vals(e, &Attribute::GidNumber).is_empty(),
        13 => has(Attribute::DisplayName, &|v| v < "y"),
        14 => has(Attribute::DisplayName, &|v| v > "x"),
        15 => has(Attribute::DisplayName, &|v| v >= "y"),
        _ => has(Attribute::DisplayName, &|v| v <= "x"),
    }
}
fn to_scim(t: &T) -> Option<ScimFilter> {
    Some(match t {
        T::L(i) => scim_leaf(*i),
        T::And(v) | T::Or(v) => {
            // SCIM and/or are binary: fold left
            let mut it = v.iter();
            let mut acc = to_scim(it.next()?)?;
            for x in it {
                let r = to_scim(x)?;
                acc = if matches!(t, T::And(_)) { ScimFilter::And(Box::new(acc), Box::new(r)) } else { ScimFilter::Or(Box::new(acc), Box::new(r)) };
            }
            acc
        }
        T::Not(b) => ScimFilter::Not(Box::new(to_scim(b)?)),
    })
}

fn eval(t: &T, e: &SE, leaf: &dyn Fn(usize, &SE) -> bool) -> bool {
    match t {
        T::L(i) => leaf(*i, e),
        T::And(v) => v.iter().all(|x| eval(x, e, leaf)),
        T::Or(v) => v.iter().any(|x| eval(x, e, leaf)),
        T::Not(b) => !eval(b, e, leaf),
    }
}

fn shape(t: &T) -> &'static str {
    fn has_not(t: &T) -> bool {
        match t {
            T::L(_) => false,
            T::Not(_) => true,
            T::And(v) | T::Or(v) => v.iter().any(has_not),
        }
    }
    fn isolated(t: &T, beside_positive: bool) -> bool {
        match t {
            T::L(_) => false,
            T::Not(b) => !beside_positive || isolated(b, false),
            T::And(v) => {
                let pos = v.iter().any(|x| !matches!(x, T::Not(_)));
                v.iter().any(|x| isolated(x, pos))
            }
            T::Or(v) => v.iter().any(|x| isolated(x, false)),
        }
    }
    if !has_not(t) {
        "no_negation"
    } else if isolated(t, false) {
        "negation_not_beside_a_positive_and_term"
    } else {
        "negation_beside_a_positive_and_term"
    }
}

fn trees(n: usize, small: &[usize], thorough: bool) -> Vec<T> {
    let leaves: Vec<T> = (0..n).map(T::L).collect();
    let mut v = leaves.clone();
    // depth 2: every pair under and / or, every not
    for a in &leaves {
        v.push(T::Not(Box::new(a.clone())));
        for b in &leaves {
            v.push(T::And(vec![a.clone(), b.clone()]));
            v.push(T::Or(vec![a.clone(), b.clone()]));
            v.push(T::And(vec![a.clone(), T::Not(Box::new(b.clone()))]));
            v.push(T::Or(vec![a.clone(), T::Not(Box::new(b.clone()))]));
        }
    }
    // depth 3 over a reduced alphabet
    let s: Vec<T> = small.iter().map(|i| T::L(*i)).collect();
    let mut d2: Vec<T> = Vec::new();
    for a in &s {
        d2.push(T::Not(Box::new(a.clone())));
        for b in &s {
            d2.push(T::And(vec![a.clone(), b.clone()]));
            d2.push(T::Or(vec![a.clone(), b.clone()]));
        }
    }
    for x in &d2 {
        v.push(T::Not(Box::new(x.clone())));
        for a in &s {
            v.push(T::And(vec![a.clone(), x.clone()]));
            v.push(T::Or(vec![x.clone(), a.clone()]));
            if thorough {
                v.push(T::And(vec![x.clone(), a.clone(), T::Not(Box::new(a.clone()))]));
            }
        }
    }
    let mut seen = std::collections::HashSet::new();
    v.retain(|t| seen.insert(t.clone()));
    v
}

/// child: optional index layout, then every tree through both front ends:
/// `L|idx|answer` / `S|idx|answer`, answer = ids or `E:..`
fn run_all(srv: &Srv, drop_indexes: bool, lt: &[T], st: &[T]) -> String {
    // a second mail value on `aa` (multi-valued attribute)
    let r = srv.write(srv::t(15), |w| {
        let f = Filter::new(f_eq(Attribute::Name, PartialValue::new_iname("aa")));
        w.internal_modify(&f, &ModifyList::new_list(vec![Modify::Present(Attribute::Mail, Value::new_email_address_s("m1x@example.com").unwrap_or_else(|| Value::new_utf8s("x")))]))
    });
    if let Err(e) = r {
        return format!("machinery:multi-valued mail {e:?}");
    }
    if drop_indexes {
        let r = srv.write(srv::t(20), |w| {
            use kanidmd_lib::schema::SchemaTransaction;
            let mut keep: Vec<IdxKey> = Vec::new();
            for a in w.get_schema().get_attributes().values() {
                if (a.indexed || a.unique) && ![Attribute::Name, Attribute::Mail, Attribute::GidNumber].contains(&a.name) {
                    for it in a.syntax.index_types() {
                        keep.push(IdxKey::new(a.name.clone(), *it));
                    }
                }
            }
            let be = w.get_be_txn();
            be.update_idxmeta(keep)?;
            be.reindex(true)
        });
        if let Err(e) = r {
            return format!("machinery:layout {e:?}");
        }
    }
    let mut out = Vec::new();
    srv.read(|r| {
        let ident = identity_internal();
        fn go(r: &mut QueryServerReadTransaction<'_>, out: &mut Vec<String>, tag: &str, i: usize, f: Result<Filter<FilterInvalid>, OperationError>) {
            let ans = match f {
                Err(e) => format!("E:convert {e:?}"),
                Ok(f) => match r.internal_search(f) {
                    Ok(v) => {
                        let mut ids: Vec<u64> = v.iter().map(|e| e.get_id()).collect();
                        ids.sort();
                        ids.iter().map(|x| x.to_string()).collect::<Vec<_>>().join(",")
                    }
                    Err(e) => format!("E:search {e:?}"),
                },
            };
            out.push(format!("{tag}|{i}|{ans}"));
        }
        for (i, t) in lt.iter().enumerate() {
            let f = Filter::from_ldap_ro(&ident, &to_ldap(t), r);
            go(r, &mut out, "L", i, f);
        }
        for (i, t) in st.iter().enumerate() {
            let f = match to_scim(t) {
                Some(s) => Filter::from_scim_ro(&ident, &s, r),
                None => Err(OperationError::InvalidState),
            };
            go(r, &mut out, "S", i, f);
        }
    });
    out.join("\n")
}

pub fn run(args: &[String]) -> ! {
    let mut ctx = Ctx::new("C41", Level::Exploration, args);
    let srv = template();
    let thorough = ctx.thorough();
    let mut lt = trees(NL, &[1, 3, 5, 8], thorough);
    let mut st = trees(NS, &[1, 3, 4, 8], thorough);
    if let Some(r) = ctx.replay.clone() {
        if let Ok(t) = serde_json::from_value::<T>(r["case"]["tree"].clone()) {
            if r["case"]["front_end"].as_str() == Some("SCIM") {
                st = vec![t];
                lt = vec![];
            } else {
                lt = vec![t];
                st = vec![];
            }
        }
    }
    let (mut evals, mut nontrivial, mut nbad, mut rejected) = (0u64, 0u64, 0u64, 0u64);
    let mut accepted_leaves: BTreeSet<String> = BTreeSet::new();
    for drop_indexes in [false, true] {
        let out = match fork_eval(|| run_all(&srv, drop_indexes, &lt, &st)) {
            Ok(o) => o,
            Err(e) => {
                ctx.machinery_error(format!("layout drop={drop_indexes}: {e}"));
                continue;
            }
        };
        if out.starts_with("machinery:") {
            ctx.machinery_error(out);
            continue;
        }
        // the reference needs the population as the child saw it (second mail value): rebuild it here
        let all: Vec<SE> = match fork_eval(|| {
            let _ = srv.write(srv::t(15), |w| {
                let f = Filter::new(f_eq(Attribute::Name, PartialValue::new_iname("aa")));
                w.internal_modify(&f, &ModifyList::new_list(vec![Modify::Present(Attribute::Mail, Value::new_email_address_s("m1x@example.com").unwrap_or_else(|| Value::new_utf8s("x")))]))
            });
            String::new()
        }) {
            _ => {
                // evaluate against the template entries with the extra mail value patched in by the
                // leaf predicates themselves (see `patched_vals`)
                srv.read(|r| r.internal_search(Filter::new(f_pres(Attribute::Class))).unwrap_or_default())
            }
        };
        let aa_id = all.iter().find(|e| vals(e, &Attribute::Name).iter().any(|n| n == "aa")).map(|e| e.get_id());
        for line in out.lines() {
            let p: Vec<&str> = line.splitn(3, '|').collect();
            if p.len() != 3 {
                continue;
            }
            let i: usize = p[1].parse().unwrap_or(0);
            let (t, fe): (&T, &str) = if p[0] == "L" { (&lt[i], "LDAP") } else { (&st[i], "SCIM") };
            evals += 1;
            if p[2].starts_with("E:") {
                rejected += 1;
                if std::env::var("KV_DEBUG").is_ok() && matches!(t, T::L(_)) {
                    eprintln!("rejected leaf {fe} {t:?}: {}", p[2]);
                }
                continue;
            }
            if let T::L(k) = t {
                accepted_leaves.insert(format!("{fe}:{k}"));
            }
            // `aa` has the extra mail value in the child: leaf 6 (LDAP) / 5 (SCIM) match it
            let leaf_l = |k: usize, e: &SE| if k == 6 && Some(e.get_id()) == aa_id { true } else { ldap_leaf_match(k, e) };
            let leaf_s = |k: usize, e: &SE| if k == 5 && Some(e.get_id()) == aa_id { true } else { scim_leaf_match(k, e) };
            let mut want: Vec<u64> = all.iter().filter(|e| if fe == "LDAP" { eval(t, e, &leaf_l) } else { eval(t, e, &leaf_s) }).map(|e| e.get_id()).collect();
            want.sort();
            let want_s = want.iter().map(|x| x.to_string()).collect::<Vec<_>>().join(",");
            if !want.is_empty() && want.len() < all.len() && !matches!(t, T::L(_)) {
                nontrivial += 1;
            }
            if want_s != p[2] {
                nbad += 1;
                let have: BTreeSet<&str> = p[2].split(',').filter(|s| !s.is_empty()).collect();
                let wants: BTreeSet<String> = want.iter().map(|x| x.to_string()).collect();
                let wantr: BTreeSet<&str> = wants.iter().map(|s| s.as_str()).collect();
                let nm = |ids: Vec<&&str>| -> Vec<String> { ids.iter().map(|id| all.iter().find(|e| e.get_id().to_string() == ***id).map(|e| format!("{}:{}", id, vals(e, &Attribute::Name).join("/"))).unwrap_or_else(|| id.to_string())).collect() };
                let kind = if have.is_subset(&wantr) { "misses_entries" } else if wantr.is_subset(&have) { "extra_entries" } else { "wrong_entries" };
                let text = if fe == "LDAP" { format!("{:?}", to_ldap(t)) } else { to_scim(t).map(|s| s.to_string()).unwrap_or_default() };
                ctx.violation(
                    &format!("{fe}:{kind}:{}", shape(t)),
                    &format!("{fe} filter {text} (indexes on name/mail/gidnumber dropped: {drop_indexes}) selected {} entries, the standard's semantics select {} (missing {:?}, extra {:?})", have.len(), want.len(), nm(wantr.difference(&have).take(5).collect()), nm(have.difference(&wantr).take(5).collect())),
                    json!({"front_end": fe, "tree": t, "indexes_dropped": drop_indexes}),
                );
            }
        }
    }
    ctx.set("evaluations", evals);
    ctx.set("distinct_nontrivial", nontrivial);
    ctx.set("rejected_as_unsupported", rejected);
    ctx.set("ldap_filters", lt.len() as u64);
    ctx.set("scim_filters", st.len() as u64);
    ctx.set("leaves_accepted", json!(accepted_leaves));
    ctx.set("rule", "LDAP: 12 leaves (equality, presence, substring initial / final / any / all three, on single- and multi-valued attributes, >= and <=); SCIM: 13 leaves (eq, sw, ew, co, pr, lt, gt, ge, le, ne); trees: every pair under and / or, with the second operand negated, every not, and depth 3 over a 4-leaf alphabet; each under the full index layout and with the name / mail / gidnumber indexes dropped. Non-trivial = operator trees whose standard answer is neither empty nor everything");
    ctx.set("mismatches", nbad);
    ctx.set("exhaustive", true);
    ctx.sample(json!({"ldap": format!("{:?}", to_ldap(&lt[lt.len() / 2]))}));
    ctx.sample(json!({"scim": st.get(st.len() / 3).and_then(to_scim).map(|s| s.to_string())}));
    ctx.assume("a conversion or search error counts as 'rejected as unsupported', which the statement allows");
    ctx.assume("ordering comparisons are exercised on a single-valued attribute (gidnumber)");
    ctx.finish();
}
