//! C46 — RADIUS secrets go only to members of required groups; the VLAN is that of the last of
//! the user's groups with a mapping.
//!
//! E1: every configuration (required-group list by spn / by uuid, VLAN mapping per group, default
//! VLAN) x every ordered list of user groups of a small universe is put to the real decision
//! functions of the RADIUS module (built from a real configuration value) and compared with the
//! statement.

use kanidm_proto::internal::Group;
use kv_engine::{Ctx, Level};
use rlm_kanidm::verif_hooks::VerifModule;
use rlm_kanidm_shared::config::KanidmRadiusConfig;
use serde_json::json;

const GROUPS: [(&str, &str); 5] = [
    ("ga@example.com", "aaaaaaaa-0000-4000-8000-000000000001"),
    ("gb@example.com", "bbbbbbbb-0000-4000-8000-000000000002"),
    ("gc@example.com", "cccccccc-0000-4000-8000-000000000003"),
    ("gx@example.com", "dddddddd-0000-4000-8000-000000000004"),
    // a different group whose spn merely begins like ga's
    ("ga@example.com.au", "aaaaaaaa-0000-4000-8000-000000000011"),
];
/// the entries a required-group list is drawn from: (the configured text, the group it names)
const REQ: [(&str, Option<usize>); 5] = [
    ("ga@example.com", Some(0)),
    ("aaaaaaaa-0000-4000-8000-000000000001", Some(0)),
    ("gb@example.com", Some(1)),
    ("cccccccc-0000-4000-8000-000000000003", Some(2)),
    // a bare name is neither a uuid nor an spn: it names no group
    ("ga", None),
];
const VLANS: [u32; 3] = [10, 20, 30];

fn perms(items: &[usize]) -> Vec<Vec<usize>> {
    if items.len() <= 1 {
        return vec![items.to_vec()];
    }
    let mut out = Vec::new();
    for i in 0..items.len() {
        let mut rest = items.to_vec();
        let x = rest.remove(i);
        for mut p in perms(&rest) {
            p.insert(0, x);
            out.push(p);
        }
    }
    out
}

pub fn run(args: &[String]) -> ! {
    let mut ctx = Ctx::new("C46", Level::Exploration, args);
    let rt = crate::srv::new_rt();
    // ordered user group lists: every permutation of every subset of the 4 groups
    let mut lists: Vec<Vec<usize>> = Vec::new();
    for m in 0u32..32 {
        let items: Vec<usize> = (0..5).filter(|i| m & (1 << i) != 0).collect();
        lists.extend(perms(&items));
    }
    let (mut evals, mut allowed_n, mut nbad) = (0u64, 0u64, 0u64);
    for reqmask in 0u32..32 {
        for vlanmask in 0u32..8 {
            for default_vlan in [1u32, 0] {
                for reversed in [false, true] {
                    let required: Vec<String> = REQ.iter().enumerate().filter(|(i, _)| reqmask & (1 << i) != 0).map(|(_, (text, _))| text.to_string()).collect();
                    let mut maps: Vec<serde_json::Value> = (0..3).filter(|g| vlanmask & (1 << g) != 0).map(|g| json!({"spn": GROUPS[g].0, "vlan": VLANS[g]})).collect();
                    if reversed {
                        // the order in which mappings are configured must not matter
                        maps.reverse();
                    }
                    let cfg: KanidmRadiusConfig = match serde_json::from_value(json!({"uri": "https://idm.example.com", "auth_token": "token", "radius_required_groups": required, "radius_default_vlan": default_vlan, "radius_groups": maps})) {
                        Ok(c) => c,
                        Err(e) => kv_engine::ctx::machinery_exit(&format!("C46 config: {e}")),
                    };
                    let module = match rt.block_on(VerifModule::from_config(cfg)) {
                        Ok(m) => m,
                        Err(e) => kv_engine::ctx::machinery_exit(&format!("C46 module: {e}")),
                    };
                    for l in &lists {
                        evals += 1;
                        let groups: Vec<Group> = l.iter().map(|g| Group { spn: GROUPS[*g].0.to_string(), uuid: GROUPS[*g].1.to_string() }).collect();
                        let (got_allowed, got_vlan) = module.decide(&groups);
                        let want_allowed = l.iter().any(|g| REQ.iter().enumerate().any(|(i, (_, rg))| reqmask & (1 << i) != 0 && *rg == Some(*g)));
                        let want_vlan = l.iter().rev().find(|g| **g < 3 && vlanmask & (1 << **g) != 0).map(|g| VLANS[*g]).unwrap_or(default_vlan);
                        if want_allowed {
                            allowed_n += 1;
                        }
                        if evals % 77_773 == 1 {
                            ctx.sample(json!({"required_groups": required, "vlan_mappings": maps, "default_vlan": default_vlan, "user_groups_in_order": l.iter().map(|g| GROUPS[*g].0).collect::<Vec<_>>(), "admitted": got_allowed, "vlan": got_vlan}));
                        }
                        let describe = || format!("required groups {required:?}, VLAN mappings {:?}{}, default VLAN {default_vlan}, user groups in this order {:?}", (0..3).filter(|g| vlanmask & (1 << g) != 0).map(|g| (GROUPS[g].0, VLANS[g])).collect::<Vec<_>>(), if reversed { " (configured in reverse order)" } else { "" }, l.iter().map(|g| GROUPS[*g].0).collect::<Vec<_>>());
                        let case = json!({"req": reqmask, "vlans": vlanmask, "default": default_vlan, "reversed": reversed, "groups": l});
                        if got_allowed != want_allowed {
                            nbad += 1;
                            ctx.violation(if got_allowed { "secret_released_outside_required_groups" } else { "member_of_required_group_refused" }, &format!("{}: the module {} the user", describe(), if got_allowed { "admits" } else { "refuses" }), case.clone());
                        }
                        if got_vlan != want_vlan {
                            nbad += 1;
                            ctx.violation("wrong_vlan", &format!("{}: VLAN {got_vlan}, the statement gives {want_vlan}", describe()), case);
                        }
                    }
                }
            }
        }
    }
    ctx.set("evaluations", evals);
    ctx.set("distinct_nontrivial", allowed_n);
    ctx.set("mismatches", nbad);
    ctx.set("rule", "32 required-group lists (subsets of: ga by spn, ga by uuid, gb by spn, gc by uuid, the bare name `ga`) x 8 VLAN mapping sets over ga, gb, gc (configured in both orders) x default VLAN {1, 0} x all 326 ordered lists of user groups drawn from ga, gb, gc, an unrelated group and a group whose spn begins with ga's spn");
    ctx.set("exhaustive", true);
    ctx.assume("the decision functions are reached through a feature-gated accessor on a module built from a real configuration; fetching the user's token from the server (HTTP) is not part of this check");
    ctx.finish();
}
