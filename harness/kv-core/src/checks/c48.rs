//! C48 — upgrading the domain level preserves data and consistency.
//!
//! E1: a server is bootstrapped at the PREVIOUS supported domain level, user content is created
//! (every subset of a menu of content items), and the real start-up path then raises it to the
//! current level. Oracles: the upgrade succeeds; verify() is clean; every user-created entry is
//! still there with every attribute value the user set; every entry a freshly bootstrapped server
//! of the current level ships exists in the upgraded server and carries every value its fresh
//! definition has (attributes that differ between two fresh bootstraps — keys, secrets, change
//! ids — are not compared).

use crate::acpfx::group_entry;
use crate::idmfx::{person_entry, person_uuid, service_entry};
use crate::srv::{self, new_qs, new_rt};
use kanidmd_lib::entry::{Entry, EntryCommitted, EntrySealed};
use kanidmd_lib::prelude::*;
use kanidmd_lib::server::QueryServer;
use kanidmd_lib::verif_hooks::qs_read_verify;
use kv_engine::forkdfs::fork_map;
use kv_engine::{Ctx, Level};
use serde_json::json;
use std::collections::{BTreeMap, BTreeSet};
use std::sync::Arc;

type SE = Arc<Entry<EntrySealed, EntryCommitted>>;

const ITEMS: [&str; 10] = ["person with a display name and mail", "posix person", "group with the people as members", "group nested in that group", "service account", "OAuth2 client with a scope map to the group", "a person added to the shipped idm_admins group", "a deleted (recycled) person", "a changed description on a shipped group", "an administrator-defined attribute type entry"];
const G1: u128 = 0xc480_0000_0000_4000_8000_0000_0000_0001;
const G2: u128 = 0xc480_0000_0000_4000_8000_0000_0000_0002;
const O1: u128 = 0xc480_0000_0000_4000_8000_0000_0000_0003;

/// all entries: uuid -> attribute -> sorted values
fn dump(rt: &tokio::runtime::Runtime, qs: &QueryServer) -> Result<BTreeMap<Uuid, BTreeMap<String, Vec<String>>>, String> {
    rt.block_on(async {
        let mut r = qs.read().await.map_err(|e| format!("read: {e:?}"))?;
        let es: Vec<SE> = r.internal_search(Filter::new(f_pres(Attribute::Class))).map_err(|e| format!("search: {e:?}"))?;
        let mut out = BTreeMap::new();
        for e in es {
            let mut m = BTreeMap::new();
            for (a, vs) in e.get_ava_iter() {
                let mut v: Vec<String> = vs.to_proto_string_clone_iter().collect();
                v.sort();
                m.insert(a.to_string(), v);
            }
            out.insert(e.get_uuid(), m);
        }
        Ok(out)
    })
}

fn content(rt: &tokio::runtime::Runtime, qs: &QueryServer, mask: usize) -> Result<(), String> {
    let has = |i: usize| mask & (1 << i) != 0;
    rt.block_on(async {
        let mut w = qs.write(srv::t(100)).await.map_err(|e| format!("write: {e:?}"))?;
        let mut people = Vec::new();
        let r: Result<(), OperationError> = (|| {
            if has(0) {
                let mut e = person_entry("pa", person_uuid(0));
                e.add_ava(Attribute::Mail, Value::new_email_address_primary_s("pa@example.com").ok_or(OperationError::InvalidValueState)?);
                e.add_ava(Attribute::LegalName, Value::new_utf8s("Legal Pa"));
                w.internal_create(vec![e])?;
                people.push(person_uuid(0));
            }
            if has(1) {
                let mut e = person_entry("pb", person_uuid(1));
                e.add_ava(Attribute::Class, EntryClass::PosixAccount.to_value());
                e.add_ava(Attribute::GidNumber, Value::new_uint32(700_123));
                e.add_ava(Attribute::LoginShell, Value::new_iutf8("/bin/zsh"));
                w.internal_create(vec![e])?;
                people.push(person_uuid(1));
            }
            if has(2) {
                w.internal_create(vec![group_entry("ga", Uuid::from_u128(G1), &people)])?;
            }
            if has(3) {
                let members: Vec<Uuid> = if has(2) { vec![Uuid::from_u128(G1)] } else { vec![] };
                w.internal_create(vec![group_entry("gb", Uuid::from_u128(G2), &members)])?;
            }
            if has(4) {
                let mut e = service_entry("sa", person_uuid(4));
                e.add_ava(Attribute::Description, Value::new_utf8s("a service"));
                w.internal_create(vec![e])?;
            }
            if has(5) {
                let c = crate::o2fx::Client { name: "oa".into(), uuid: Uuid::from_u128(O1), public: false, allow_localhost: false, pkce_disabled: false, main_scopes: vec![], extra_map: false, sup_map: false, redirects: vec!["https://demo.example.com/cb"], consent_prompt: true, legacy_crypto: false };
                let mut e = c.to_entry();
                if has(2) {
                    e.add_ava(Attribute::OAuth2RsScopeMap, Value::new_oauthscopemap(Uuid::from_u128(G1), ["openid".to_string()].into_iter().collect()).ok_or(OperationError::InvalidValueState)?);
                }
                w.internal_create(vec![e])?;
            }
            if has(6) {
                w.internal_create(vec![person_entry("pc", person_uuid(6))])?;
                w.internal_modify_uuid(UUID_IDM_ADMINS, &ModifyList::new_list(vec![Modify::Present(Attribute::Member, Value::Refer(person_uuid(6)))]))?;
            }
            if has(7) {
                w.internal_create(vec![person_entry("pd", person_uuid(7))])?;
                w.internal_delete_uuid(person_uuid(7))?;
            }
            if has(9) {
                let mut e: kanidmd_lib::entry::Entry<kanidmd_lib::entry::EntryInit, kanidmd_lib::entry::EntryNew> = kanidmd_lib::entry::Entry::new();
                e.add_ava(Attribute::Class, EntryClass::Object.to_value());
                e.add_ava(Attribute::Class, EntryClass::AttributeType.to_value());
                e.add_ava(Attribute::AttributeName, Value::new_iutf8("siteattribute"));
                e.add_ava(Attribute::Uuid, Value::Uuid(Uuid::from_u128(O1 + 0x10)));
                e.add_ava(Attribute::Description, Value::new_utf8s("defined by the site's administrator"));
                e.add_ava(Attribute::MultiValue, Value::Bool(false));
                e.add_ava(Attribute::Unique, Value::Bool(false));
                e.add_ava(Attribute::Syntax, Value::new_syntaxs("UTF8STRING").ok_or(OperationError::InvalidValueState)?);
                w.internal_create(vec![e])?;
            }
            if has(8) {
                w.internal_modify_uuid(UUID_IDM_PEOPLE_ADMINS, &ModifyList::new_purge_and_set(Attribute::Description, Value::new_utf8s("site specific description")))?;
            }
            Ok(())
        })();
        r.map_err(|e| format!("content: {e:?}"))?;
        w.commit().map_err(|e| format!("content commit: {e:?}"))
    })
}

/// attributes of user-created entries that the server maintains itself
const DERIVED: [&str; 8] = ["last_modified_cid", "created_at_cid", "memberof", "directmemberof", "dynmember", "spn", "name_history", "recycleddirectmemberof"];

fn run_case(mask: usize, volatile: &BTreeSet<(Uuid, String)>, fresh: &BTreeMap<Uuid, BTreeMap<String, Vec<String>>>) -> String {
    let rt = new_rt();
    let qs = match new_qs(None, 1, DOMAIN_PREVIOUS_TGT_LEVEL, srv::t(0), &rt) {
        Ok(q) => q,
        Err(e) => return json!({"machinery": format!("bootstrap at the previous level: {e:?}")}).to_string(),
    };
    let shipped_before = match dump(&rt, &qs) {
        Ok(d) => d,
        Err(e) => return json!({"machinery": e}).to_string(),
    };
    if let Err(e) = content(&rt, &qs, mask) {
        return json!({"machinery": e}).to_string();
    }
    let before = match dump(&rt, &qs) {
        Ok(d) => d,
        Err(e) => return json!({"machinery": e}).to_string(),
    };
    let mut bad: Vec<(String, String)> = Vec::new();
    match rt.block_on(qs.initialise_helper(srv::t(1000), DOMAIN_TGT_LEVEL)) {
        Ok(()) => {}
        Err(e) => {
            bad.push(("upgrade_failed".into(), format!("raising the domain level failed: {e:?}")));
            return json!({"bad": bad}).to_string();
        }
    }
    let after = match dump(&rt, &qs) {
        Ok(d) => d,
        Err(e) => return json!({"machinery": e}).to_string(),
    };
    let v: Vec<String> = rt.block_on(async {
        match qs.read().await {
            Ok(mut r) => qs_read_verify(&mut r).into_iter().filter_map(|x| x.err()).map(|e| format!("{e:?}")).collect(),
            Err(e) => vec![format!("{e:?}")],
        }
    });
    if !v.is_empty() {
        bad.push(("verify_failed".into(), format!("after the upgrade the consistency check reports {}", v.join(", ").chars().take(300).collect::<String>())));
    }
    let level = rt.block_on(async { qs.read().await.map(|r| r.get_domain_version()).unwrap_or(0) });
    if level != DOMAIN_TGT_LEVEL {
        bad.push(("level_not_raised".into(), format!("the domain level after the upgrade is {level}, not {DOMAIN_TGT_LEVEL}")));
    }
    // user-created entries and user-set values
    for (u, attrs) in &before {
        let user_created = !shipped_before.contains_key(u);
        match after.get(u) {
            None => {
                if user_created {
                    bad.push(("user_entry_lost".into(), format!("user-created entry {} ({:?}) is gone after the upgrade", u, attrs.get("name"))));
                }
            }
            Some(now) => {
                let dead = |m: &BTreeMap<String, Vec<String>>| m.get("class").map(|c| c.iter().any(|x| x == "recycled" || x == "tombstone")).unwrap_or(false);
                if !dead(attrs) && dead(now) {
                    bad.push((if user_created { "user_entry_deleted".to_string() } else { "shipped_entry_deleted".to_string() }, format!("entry {:?} was live before the upgrade and is in the recycle bin (or a tombstone) after it", attrs.get("name").or(attrs.get("attributename")))));
                }
                if user_created {
                    for (a, vals) in attrs {
                        if DERIVED.contains(&a.as_str()) {
                            continue;
                        }
                        let got = now.get(a).cloned().unwrap_or_default();
                        for x in vals {
                            if !got.contains(x) && x != "hidden" {
                                bad.push((format!("user_value_lost:{a}"), format!("entry {:?}: value `{x}` of {a} set before the upgrade is gone (now {got:?})", attrs.get("name"))));
                            }
                        }
                    }
                } else {
                    // user changes to shipped entries: values added by the user must survive
                    let shipped = &shipped_before[u];
                    for (a, vals) in attrs {
                        if DERIVED.contains(&a.as_str()) {
                            continue;
                        }
                        for x in vals.iter().filter(|x| !shipped.get(a).map(|s| s.contains(x)).unwrap_or(false)) {
                            // a single-valued attribute the current definition also sets is the definition's to set
                            let got = now.get(a).cloned().unwrap_or_default();
                            if !got.contains(x) && a == "member" {
                                bad.push((format!("user_value_on_shipped_entry_lost:{a}"), format!("shipped entry {:?}: user-added value `{x}` of {a} is gone after the upgrade", attrs.get("name"))));
                            }
                        }
                    }
                }
            }
        }
    }
    // every shipped entry of the current level, with every value of its fresh definition
    for (u, attrs) in fresh {
        match after.get(u) {
            None => bad.push(("shipped_entry_missing".into(), format!("the entry {:?} ({u}) that a fresh server of the current level ships does not exist after the upgrade", attrs.get("name")))),
            Some(now) => {
                for (a, vals) in attrs {
                    if volatile.contains(&(*u, a.clone())) || DERIVED.contains(&a.as_str()) {
                        continue;
                    }
                    // the one shipped value this case changes on purpose
                    if mask & (1 << 8) != 0 && *u == UUID_IDM_PEOPLE_ADMINS && a == "description" {
                        continue;
                    }
                    let got = now.get(a).cloned().unwrap_or_default();
                    for x in vals {
                        if !got.contains(x) {
                            bad.push((format!("shipped_value_missing:{a}"), format!("shipped entry {:?}: value `{}` of {a} from its current definition is missing after the upgrade (has {})", attrs.get("name"), x.chars().take(120).collect::<String>(), format!("{got:?}").chars().take(200).collect::<String>())));
                        }
                    }
                }
            }
        }
    }
    json!({"bad": bad, "entries_before": before.len(), "entries_after": after.len()}).to_string()
}

pub fn run(args: &[String]) -> ! {
    let mut ctx = Ctx::new("C48", Level::Exploration, args);
    // two fresh bootstraps of the current level: what ships, and which values are generated
    let refs = fork_map(2, 2, |_| {
        let rt = new_rt();
        match new_qs(None, 1, DOMAIN_TGT_LEVEL, srv::t(0), &rt).map_err(|e| format!("{e:?}")).and_then(|qs| dump(&rt, &qs)) {
            Ok(d) => serde_json::to_string(&d.into_iter().map(|(u, m)| (u.to_string(), m)).collect::<BTreeMap<_, _>>()).unwrap_or_default(),
            Err(e) => format!("ERR {e}"),
        }
    });
    let refs = match refs {
        Ok(r) if !r.iter().any(|x| x.starts_with("ERR")) => r,
        other => kv_engine::ctx::machinery_exit(&format!("C48 references: {other:?}")),
    };
    let parse = |s: &str| -> BTreeMap<Uuid, BTreeMap<String, Vec<String>>> { serde_json::from_str::<BTreeMap<String, BTreeMap<String, Vec<String>>>>(s).unwrap_or_default().into_iter().filter_map(|(u, m)| Uuid::parse_str(&u).ok().map(|u| (u, m))).collect() };
    let (fa, fb) = (parse(&refs[0]), parse(&refs[1]));
    let mut volatile: BTreeSet<(Uuid, String)> = BTreeSet::new();
    let mut fresh = BTreeMap::new();
    for (u, attrs) in &fa {
        match fb.get(u) {
            // entries with generated uuids (key objects) are not comparable by uuid
            None => continue,
            Some(other) => {
                for (a, v) in attrs {
                    if other.get(a) != Some(v) {
                        volatile.insert((*u, a.clone()));
                    }
                }
                fresh.insert(*u, attrs.clone());
            }
        }
    }
    let n = ITEMS.len();
    let masks: Vec<usize> = if let Some(r) = ctx.replay.clone() {
        vec![r["case"]["mask"].as_u64().unwrap_or(0) as usize]
    } else if ctx.quick() {
        // nothing, every single item, every pair, everything
        (0..(1usize << n)).filter(|m| m.count_ones() <= 2 || *m == (1 << n) - 1).collect()
    } else {
        (0..(1usize << n)).collect()
    };
    let workers = kv_engine::product::ncpu().min(16);
    let results = match fork_map(workers, masks.len(), |i| run_case(masks[i], &volatile, &fresh)) {
        Ok(r) => r,
        Err(e) => kv_engine::ctx::machinery_exit(&format!("C48 cases: {e}")),
    };
    let (mut evals, mut nbad) = (0u64, 0u64);
    for (m, res) in masks.iter().zip(results.iter()) {
        evals += 1;
        let v: serde_json::Value = serde_json::from_str(res).unwrap_or_default();
        let items: Vec<&str> = (0..n).filter(|i| m & (1 << i) != 0).map(|i| ITEMS[i]).collect();
        if let Some(e) = v.get("machinery") {
            ctx.machinery_error(format!("content {items:?}: {e}"));
            continue;
        }
        for b in v["bad"].as_array().cloned().unwrap_or_default() {
            nbad += 1;
            ctx.violation(b[0].as_str().unwrap_or("?"), &format!("content {items:?}: {}", b[1].as_str().unwrap_or("")), json!({"mask": m}));
        }
        if evals % 17 == 3 {
            ctx.sample(json!({"content": items, "entries_before": v["entries_before"], "entries_after": v["entries_after"]}));
        }
    }
    ctx.set("evaluations", evals);
    ctx.set("distinct_nontrivial", evals.saturating_sub(1));
    ctx.set("mismatches", nbad);
    ctx.set("shipped_entries_compared", fresh.len() as u64);
    ctx.set("generated_values_not_compared", volatile.len() as u64);
    ctx.set("rule", format!("content = every subset of {n} items ({}) created at domain level {DOMAIN_PREVIOUS_TGT_LEVEL}, then the real start-up path raises the level to {DOMAIN_TGT_LEVEL}; quick tier: subsets of size <= 2 and the full set", ITEMS.join("; ")));
    ctx.set("exhaustive", true);
    ctx.assume("values that differ between two fresh bootstraps of the current level (keys, secrets, change ids) and entries with generated uuids are not compared with the fresh definition");
    ctx.assume("on shipped entries a user change is expected to survive for multi-valued membership; a single value the current definition also sets belongs to the definition");
    ctx.finish();
}
