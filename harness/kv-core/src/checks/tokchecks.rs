//! Properties decided on the TOKENS world: C32 bearer tokens, C33 privilege windows,
//! C36 credential removal revokes sessions.

use crate::worlds::tokens::{Cfg, Tokens, GRACE, PRIV, SESSION};
use kv_engine::forkdfs::{self, Opts};
use kv_engine::{Ctx, Level};
use serde_json::json;

fn cfg_for(id: &str, quick: bool) -> (Cfg, u8) {
    let props = [match id {
        "C32" => "C32",
        "C33" => "C33",
        _ => "C36",
    }]
    .into_iter()
    .collect();
    match id {
        "C32" => (Cfg { max_tokens: if quick { 2 } else { 3 }, api: true, reauth: false, validity: true, changepw: false, lifecycle: true, trust: false, ticks: vec![1, GRACE + 1, SESSION + 1], props }, if quick { 3 } else { 6 }),
        "C33" => (Cfg { max_tokens: if quick { 3 } else { 4 }, api: true, reauth: true, validity: false, changepw: false, lifecycle: false, trust: true, ticks: vec![1, PRIV + 1, SESSION + 1], props }, if quick { 3 } else { 6 }),
        _ => (Cfg { max_tokens: if quick { 2 } else { 3 }, api: false, reauth: true, validity: false, changepw: true, lifecycle: false, trust: false, ticks: vec![1, GRACE + 1], props }, if quick { 4 } else { 6 }),
    }
}

pub fn run(id: &'static str, args: &[String]) -> ! {
    let mut ctx = Ctx::new(id, Level::ModelChecking, args);
    let quick = ctx.quick();
    let (cfg, depth) = cfg_for(id, quick);
    let depth = ctx.opt_u64("depth").map(|d| d as u8).unwrap_or(depth);
    let mut w = Tokens::new(cfg.clone());

    if let Some(r) = ctx.replay.clone() {
        if r["case"]["world"].as_str() == Some("oauth2-sessions") {
            use crate::worlds::oauth::{Cfg as OCfg, Mutation, OAuthW, Op as OOp};
            let ocfg = OCfg { clients: vec![0], max_codes: 1, max_sets: 3, lifecycle: true, ticks: vec![1], pre_ops: vec![OOp::Authorise(0, 1), OOp::Exchange(0, Mutation::None), OOp::Refresh(0, 0)], legacy_crypto: false, key_revocation: false, cred_replacement: true, only_keys: vec!["dead_token_", "refresh_of_dead_session"] };
            let mut ow = OAuthW::new(ocfg);
            match forkdfs::replay(&mut ow, &r["case"]["trace"]) {
                Ok(v) => {
                    for (k, what) in v {
                        println!("{k}: {what}");
                        ctx.violation(&k, &what, r["case"].clone());
                    }
                }
                Err(e) => ctx.machinery_error(e),
            }
            ctx.finish();
        }
        match forkdfs::replay(&mut w, &r["case"]["trace"]) {
            Ok(v) => {
                for (k, what) in v {
                    println!("{k}: {what}");
                    ctx.violation(&k, &what, r["case"].clone());
                }
            }
            Err(e) => ctx.machinery_error(e),
        }
        ctx.finish();
    }

    let opts = Opts {
        depth,
        procs: ctx.opt_u64("procs").map(|p| p as usize).unwrap_or(2),
        deadline_s: if quick && id == "C36" { 30.0 } else if quick { 45.0 } else { 1500.0 },
        log2_slots: 22,
        dedup: true,
        max_samples: 6,
        par_depth: 1,
    };
    let rep = forkdfs::run_into_ctx(&mut ctx, &mut w, &opts, "tokens");
    let outcomes: Vec<&String> = rep.outcomes.keys().collect();
    ctx.set("distinct_outcomes", json!(outcomes));
    if !rep.outcomes.keys().any(|k| k == "ok") {
        ctx.machinery_error("vacuous exploration: no operation succeeded".into());
    }
    for k in rep.outcomes.keys() {
        if k.starts_with("machinery:") {
            ctx.machinery_error(format!("harness failure inside the world: {k}"));
        }
    }
    ctx.set("bound", format!("every sequence of <= {depth} operations; at most {} tokens alive in the history; after EVERY operation every token ever issued is presented again", cfg.max_tokens));
    ctx.set("depth", u64::from(depth));
    ctx.set("alphabet", json!({"logins": ["password (privileged or not)", "password with the session record lost", "anonymous", if cfg.trust { "OAuth2 trust provider (privileged requested or not)" } else { "-" }], "api_tokens": cfg.api, "reauth": cfg.reauth, "logout_and_destroy": true, "validity_window_edits": cfg.validity, "credential_replacement": cfg.changepw, "ticks_s": cfg.ticks}));
    let mut capped = rep.capped;
    if id == "C36" {
        // second half of the statement: OAuth2 sessions whose parent login session was revoked
        // (by replacing the credential it was made with, or by logging it out) stop being usable
        use crate::worlds::oauth::{Cfg as OCfg, Mutation, OAuthW, Op as OOp};
        let ocfg = OCfg { clients: vec![0], max_codes: 1, max_sets: 3, lifecycle: true, ticks: vec![1], pre_ops: vec![OOp::Authorise(0, 1), OOp::Exchange(0, Mutation::None), OOp::Refresh(0, 0)], legacy_crypto: false, key_revocation: false, cred_replacement: true, only_keys: vec!["dead_token_", "refresh_of_dead_session"] };
        let odepth = if quick { 2 } else { 4 };
        let mut ow = OAuthW::new(ocfg);
        let oopts = Opts { depth: odepth, procs: 2, deadline_s: if quick { 15.0 } else { 400.0 }, log2_slots: 22, dedup: true, max_samples: 2, par_depth: 1 };
        let orep = forkdfs::run_into_ctx(&mut ctx, &mut ow, &oopts, "oauth2-sessions");
        capped |= orep.capped;
        ctx.set("oauth2_world", json!({"depth": odepth, "states": orep.states, "transitions": orep.transitions, "capped": orep.capped, "outcomes": orep.outcomes.keys().collect::<Vec<_>>(), "operations": ["replace the credential of the parent login session", "log the parent session out", "revoke", "refresh", "replay a rotated refresh token", "expire the account", "time past the grace window"]}));
    }
    ctx.set("exhaustive", !capped);
    if capped {
        ctx.assume("the wall-clock cap was hit: the search is complete only below the stated depth");
    }
    ctx.assume("states are merged on the model of every token (recorded / revoked / ages relative to now), which tokens share a session, and the account validity flags");
    ctx.assume("signature and key revocation are the subject of C34; certificate, OAuth2-trust and LDAP sessions are not constructed in this world");
    ctx.finish();
}
