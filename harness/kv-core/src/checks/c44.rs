//! C44 — offline login accepts only the last password verified online, sealed by this machine.
//!
//! Exhaustive enumeration of operation sequences (online logins with either password, server
//! password changes, logins while the identity server is unreachable in three ways, a cached
//! record transplanted from another machine) on a real `Resolver` + `KanidmProvider` + software
//! TPM, over a real TCP connection to a scripted identity server. Every sequence runs on a fresh
//! machine in a worker process; the reference is a three-field model (server password, last
//! password the server confirmed to this machine, whose key sealed the cached credential).

use crate::edge::{self, group, user_token, Machine, Peer, USER};
use sparkle_resolver_common::resolver::AuthSession;
use sparkle_unix_common::unix_proto::{PamAuthRequest, PamAuthResponse, PamServiceInfo};
use kv_engine::forkdfs::fork_map;
use kv_engine::{Ctx, Level};
use serde_json::{json, Value};
use std::collections::BTreeMap;
use std::time::SystemTime;
use time::OffsetDateTime;

const PW: [&str; 3] = ["pw-alpha-1", "pw-beta-2", "pw-never-set-3"];

#[derive(Clone, Copy, Debug, PartialEq, Eq)]
enum Down {
    /// the resolver has been told it is offline
    Marked,
    /// the resolver will try to reach the server at its next opportunity and fail
    Refused,
    /// the resolver still believes it is online
    Unnoticed,
}

#[derive(Clone, Copy, Debug, PartialEq, Eq)]
enum Op {
    /// server reachable, resolver brought online, login with PW[i]
    Up(usize),
    /// the server-side password changes (alpha <-> beta)
    ChangePw,
    /// the server-side password changes and the user logs in online with the new one
    Rotate,
    /// server unreachable, login with PW[i]
    Down(Down, usize),
    /// a login is opened while the server is unreachable and left at the password prompt
    Open(Down),
    /// the login left open is answered with PW[i]
    Close(usize),
    /// the user logs in on another machine (own TPM, own machine key) and that machine's cached
    /// record replaces this machine's
    Transplant,
}

fn op_str(o: &Op) -> String {
    match o {
        Op::Up(i) => format!("up:{i}"),
        Op::ChangePw => "chg".into(),
        Op::Rotate => "rotate".into(),
        Op::Down(d, i) => format!("down:{}:{i}", down_str(d)),
        Op::Transplant => "transplant".into(),
        Op::Open(d) => format!("open:{}", down_str(d)),
        Op::Close(i) => format!("close:{i}"),
    }
}

fn down_str(d: &Down) -> &'static str {
    match d {
        Down::Marked => "marked",
        Down::Refused => "refused",
        Down::Unnoticed => "unnoticed",
    }
}

fn down_parse(s: &str) -> Option<Down> {
    match s {
        "marked" => Some(Down::Marked),
        "refused" => Some(Down::Refused),
        "unnoticed" => Some(Down::Unnoticed),
        _ => None,
    }
}

fn op_parse(s: &str) -> Option<Op> {
    let p: Vec<&str> = s.split(':').collect();
    match p.as_slice() {
        ["up", i] => Some(Op::Up(i.parse().ok()?)),
        ["chg"] => Some(Op::ChangePw),
        ["rotate"] => Some(Op::Rotate),
        ["down", d, i] => Some(Op::Down(down_parse(d)?, i.parse().ok()?)),
        ["open", d] => Some(Op::Open(down_parse(d)?)),
        ["close", i] => Some(Op::Close(i.parse().ok()?)),
        ["transplant"] => Some(Op::Transplant),
        _ => None,
    }
}

fn alphabet(quick: bool) -> Vec<Op> {
    if quick {
        vec![Op::Up(0), Op::Rotate, Op::ChangePw, Op::Down(Down::Marked, 0), Op::Down(Down::Marked, 1), Op::Down(Down::Refused, 0), Op::Transplant]
    } else {
        vec![
            Op::Up(0), Op::Up(1), Op::Rotate, Op::ChangePw,
            Op::Down(Down::Marked, 0), Op::Down(Down::Marked, 1), Op::Down(Down::Marked, 2),
            Op::Down(Down::Refused, 0), Op::Down(Down::Refused, 1),
            Op::Down(Down::Unnoticed, 0), Op::Down(Down::Unnoticed, 1),
            Op::Transplant,
        ]
    }
}

fn rt() -> tokio::runtime::Runtime {
    tokio::runtime::Builder::new_current_thread().enable_all().build().unwrap_or_else(|_| kv_engine::ctx::machinery_exit("tokio runtime"))
}

/// one worker's laboratory: the scripted server, this machine, and (made at first use) the other
/// machine. Between sequences the caches of both machines are emptied and the server is reset;
/// the TPMs, machine keys and HMAC keys stay, as they do on a machine that keeps running.
struct Lab {
    rt: tokio::runtime::Runtime,
    peer: Peer,
    m0: Machine,
    m1: Option<Machine>,
    db0: String,
    db1: String,
    allowed: Vec<String>,
}

impl Lab {
    fn new(dir: &std::path::Path, tag: usize) -> Result<Lab, String> {
        let db0 = dir.join(format!("c44-{tag}-{}-m0.sqlite", std::process::id())).to_string_lossy().to_string();
        let db1 = dir.join(format!("c44-{tag}-{}-m1.sqlite", std::process::id())).to_string_lossy().to_string();
        let rt = rt();
        let allowed = vec!["g0".to_string()];
        let peer = Peer::start(PW[0], Some(user_token(vec![group(0, "g0")], true)))?;
        let m0 = rt.block_on(edge::machine(&db0, &peer.addr, &allowed))?;
        Ok(Lab { rt, peer, m0, m1: None, db0, db1, allowed })
    }

    fn reset(&mut self) -> Result<(), String> {
        self.peer.with(|s| {
            s.up = true;
            s.password = PW[0].to_string();
            s.log.clear();
        });
        let Lab { rt, m0, m1, .. } = self;
        rt.block_on(async {
            m0.resolver.clear_cache().await.map_err(|_| "clear_cache".to_string())?;
            if let Some(o) = m1.as_ref() {
                o.resolver.clear_cache().await.map_err(|_| "clear_cache (other machine)".to_string())?;
            }
            Ok(())
        })
    }

    /// runs one sequence; returns JSON {"labels":[..], "viol":[[key, what, step]..]} or {"error":..}
    fn run(&mut self, seq: &[Op]) -> Value {
        if let Err(e) = self.reset() {
            return json!({"error": e});
        }
        let Lab { rt, peer, m0, m1, db0, db1, allowed } = self;
        let out: Result<Value, String> = rt.block_on(async {
            // reference model
            let mut server_pw = 0usize;
            let mut last_verified: Option<usize> = None;
            let mut ever_verified: Vec<usize> = Vec::new();
            let mut sealed_here = false;
            // a login that has been opened and not answered yet: the session, and the model as it
            // was when the session was opened
            let mut pending: Option<(AuthSession, Option<usize>, bool)> = None;
            let (_shutdown_tx, _) = tokio::sync::broadcast::channel::<()>(1);
            let mut labels = Vec::new();
            let mut mstates: Vec<String> = Vec::new();
            let mut viol: Vec<Value> = Vec::new();
            for (step, op) in seq.iter().enumerate() {
                if step > 0 {
                    mstates.push(format!("{server_pw}/{last_verified:?}/{sealed_here}/{}", pending.is_some()));
                }
                if *op == Op::Rotate {
                    server_pw = 1 - server_pw;
                    peer.with(|s| s.password = PW[server_pw].to_string());
                }
                let op = &(if *op == Op::Rotate { Op::Up(server_pw) } else { *op });
                match op {
                    Op::Rotate => {}
                    Op::ChangePw => {
                        server_pw = 1 - server_pw;
                        peer.with(|s| s.password = PW[server_pw].to_string());
                        labels.push("ok".to_string());
                    }
                    Op::Transplant => {
                        peer.with(|s| s.up = true);
                        if m1.is_none() {
                            *m1 = Some(edge::machine(db1, &peer.addr, allowed).await?);
                        }
                        let Some(o) = m1.as_ref() else { return Err("m1".into()) };
                        o.resolver.mark_next_check_now(SystemTime::now()).await;
                        if !o.resolver.test_connection().await {
                            return Err("the other machine cannot reach the scripted server".into());
                        }
                        let r = o.resolver.pam_account_authenticate(USER, OffsetDateTime::now_utc(), PW[server_pw]).await;
                        if r != Ok(Some(true)) {
                            return Err(format!("online login on the other machine: {r:?}"));
                        }
                        let Some((row, exp)) = edge::cached_row(db1).await? else { return Err("the other machine cached nothing".into()) };
                        edge::plant_row(db0, &row, exp).await?;
                        sealed_here = false;
                        labels.push("ok".to_string());
                    }
                    Op::Open(d) => {
                        set_down(peer, m0, *d).await;
                        let info = PamServiceInfo { service: "sshd".to_string(), tty: None, rhost: None };
                        match m0.resolver.pam_account_authenticate_init(USER, &info, OffsetDateTime::now_utc(), _shutdown_tx.subscribe()).await {
                            Ok((sess, PamAuthResponse::Password)) => {
                                labels.push(if matches!(sess, AuthSession::Offline { .. }) { "opened-offline".to_string() } else { "opened".to_string() });
                                pending = Some((sess, last_verified, sealed_here));
                            }
                            Ok((_, other)) => {
                                pending = None;
                                labels.push(format!("not-opened:{}", match other { PamAuthResponse::Unknown => "unknown", PamAuthResponse::Denied => "denied", _ => "other" }));
                            }
                            Err(()) => {
                                pending = None;
                                labels.push("not-opened:failed".to_string());
                            }
                        }
                    }
                    Op::Close(i) => {
                        let Some((mut sess, snap_last, snap_sealed)) = pending.take() else {
                            labels.push("nothing-open".to_string());
                            continue;
                        };
                        let n = peer.log_len();
                        let r = m0.resolver.pam_account_authenticate_step(&mut sess, PamAuthRequest::Password { cred: PW[*i].to_string() }).await;
                        let confirmed = peer.log_since(n).iter().any(|l| l == &format!("AUTH-OK {}", PW[*i]));
                        let accepted = matches!(r, Ok(PamAuthResponse::Success));
                        if accepted && confirmed {
                            last_verified = Some(*i);
                            if !ever_verified.contains(i) {
                                ever_verified.push(*i);
                            }
                            sealed_here = true;
                            labels.push("accepted-online".to_string());
                        } else if accepted {
                            // judged against the machine as it was when the login was opened, or as it is now
                            let fine = (snap_sealed && snap_last == Some(*i)) || (sealed_here && last_verified == Some(*i));
                            if !fine {
                                let k = if !snap_sealed && !sealed_here { "accepts_credential_sealed_by_another_machine" } else if ever_verified.contains(i) { "accepts_superseded_password" } else { "accepts_password_never_verified" };
                                viol.push(json!([k, format!("step {step} ({}): a login opened earlier was answered with `{}` and accepted from the cache; last password the server confirmed to this machine: {:?} (when the login was opened: {:?})", op_str(op), PW[*i], last_verified.map(|p| PW[p]), snap_last.map(|p| PW[p])), step]));
                            }
                            labels.push("accepted-offline".to_string());
                        } else {
                            labels.push(match r { Ok(PamAuthResponse::Denied) => "denied".to_string(), Ok(_) => "other".to_string(), Err(()) => "failed".to_string() });
                        }
                    }
                    Op::Up(i) | Op::Down(_, i) => {
                        match op {
                            Op::Up(_) => {
                                peer.with(|s| s.up = true);
                                m0.resolver.mark_next_check_now(SystemTime::now()).await;
                                let _ = m0.resolver.test_connection().await;
                            }
                            Op::Down(d, _) => set_down(peer, m0, *d).await,
                            _ => {}
                        }
                        let n = peer.log_len();
                        let r = m0.resolver.pam_account_authenticate(USER, OffsetDateTime::now_utc(), PW[*i]).await;
                        let confirmed = peer.log_since(n).iter().any(|l| l == &format!("AUTH-OK {}", PW[*i]));
                        let accepted = r == Ok(Some(true));
                        if accepted && confirmed {
                            last_verified = Some(*i);
                            if !ever_verified.contains(i) {
                                ever_verified.push(*i);
                            }
                            sealed_here = true;
                            labels.push("accepted-online".to_string());
                        } else if accepted {
                            // nobody but the cache vouched for this password
                            let unreachable = matches!(op, Op::Down(..));
                            let key = if !sealed_here {
                                Some("accepts_credential_sealed_by_another_machine")
                            } else if last_verified == Some(*i) {
                                None
                            } else if ever_verified.contains(i) {
                                Some("accepts_superseded_password")
                            } else {
                                Some("accepts_password_never_verified")
                            };
                            if let Some(k) = key {
                                viol.push(json!([k, format!("step {step} ({}): password `{}` accepted from the cache{}; last password the server confirmed to this machine: {:?}; cached credential sealed by this machine: {sealed_here}", op_str(op), PW[*i], if unreachable { " while the server was unreachable" } else { "" }, last_verified.map(|p| PW[p])), step]));
                            }
                            labels.push(if unreachable { "accepted-offline".to_string() } else { "accepted-from-cache-while-reachable".to_string() });
                        } else {
                            labels.push(match r {
                                Ok(Some(false)) => "denied".to_string(),
                                Ok(None) => "unknown".to_string(),
                                Ok(Some(true)) => "accepted".to_string(),
                                Err(()) => "failed".to_string(),
                            });
                        }
                    }
                }
            }
            mstates.push(format!("{server_pw}/{last_verified:?}/{sealed_here}/{}", pending.is_some()));
            Ok(json!({"labels": labels, "viol": viol, "model_states": mstates}))
        });
        match out {
            Ok(v) => v,
            Err(e) => json!({"error": e}),
        }
    }
}

async fn set_down(peer: &Peer, m0: &Machine, d: Down) {
    peer.with(|s| s.up = false);
    match d {
        Down::Marked => m0.resolver.mark_offline().await,
        Down::Refused => m0.resolver.mark_next_check_now(SystemTime::now()).await,
        Down::Unnoticed => {}
    }
}

thread_local! {
    static LAB: std::cell::RefCell<Option<Lab>> = const { std::cell::RefCell::new(None) };
}

/// run one sequence in this process's laboratory (made at first use)
fn run_seq(dir: &std::path::Path, tag: usize, seq: &[Op]) -> Value {
    LAB.with(|l| {
        let mut l = l.borrow_mut();
        if l.is_none() {
            match Lab::new(dir, tag) {
                Ok(x) => *l = Some(x),
                Err(e) => return json!({"error": format!("laboratory: {e}")}),
            }
        }
        match l.as_mut() {
            Some(lab) => {
                let v = lab.run(seq);
                v
            }
            None => json!({"error": "laboratory"}),
        }
    })
}

pub fn run(args: &[String]) -> ! {
    let mut ctx = Ctx::new("C44", Level::ModelChecking, args);
    let quick = ctx.quick();
    let dir = ctx.scratch_dir_fast();

    if let Some(r) = ctx.replay.clone() {
        let seq: Vec<Op> = r["case"]["trace"].as_array().map(|a| a.iter().filter_map(|s| s.as_str().and_then(op_parse)).collect()).unwrap_or_default();
        let v = run_seq(&dir, 0, &seq);
        println!("replay: {} -> {}", seq.iter().map(op_str).collect::<Vec<_>>().join(" "), v);
        if let Some(e) = v["error"].as_str() {
            ctx.machinery_error(e.to_string());
        }
        for x in v["viol"].as_array().cloned().unwrap_or_default() {
            ctx.violation(x[0].as_str().unwrap_or("?"), x[1].as_str().unwrap_or(""), r["case"].clone());
        }
        let _ = std::fs::remove_dir_all(&dir);
        ctx.finish();
    }

    let alpha = alphabet(quick);
    let depth = ctx.opt_u64("depth").unwrap_or(if quick { 3 } else { 4 }) as u32;
    // sequences that start with a login while unreachable (nothing is cached yet) or end with an
    // operation that is not a login (nothing new to judge) are prefixes / suffixes of others
    let all: Vec<Vec<Op>> = (0..alpha.len().pow(depth))
        .map(|mut k| {
            let mut v = Vec::new();
            for _ in 0..depth {
                v.push(alpha[k % alpha.len()]);
                k /= alpha.len();
            }
            v
        })
        .filter(|v| !matches!(v[0], Op::Down(..)) && !matches!(v[v.len() - 1], Op::ChangePw | Op::Transplant))
        .collect();
    // interleaved logins: one login opened while unreachable and answered later, with one
    // operation in between and a final login while unreachable
    let mut all = all;
    {
        let firsts: Vec<Op> = if quick { vec![Op::Up(0)] } else { vec![Op::Up(0), Op::Rotate] };
        let kinds: Vec<Down> = if quick { vec![Down::Marked] } else { vec![Down::Marked, Down::Refused] };
        let mids: Vec<Op> = if quick { vec![Op::Up(0), Op::Rotate, Op::ChangePw, Op::Transplant, Op::Down(Down::Marked, 0)] } else { vec![Op::Up(0), Op::Up(1), Op::Rotate, Op::ChangePw, Op::Transplant, Op::Down(Down::Marked, 0)] };
        for f in &firsts {
            for k in &kinds {
                for m in &mids {
                    for c in 0..2usize {
                        for fin in 0..2usize {
                            all.push(vec![*f, Op::Open(*k), *m, Op::Close(c), Op::Down(Down::Marked, fin)]);
                        }
                    }
                }
            }
        }
    }
    let n = all.len();
    let decode = |k: usize| -> Vec<Op> { all[k].clone() };
    let res = match fork_map(16, n, |k| run_seq(&dir, k, &decode(k)).to_string()) {
        Ok(r) => r,
        Err(e) => kv_engine::ctx::machinery_exit(&format!("C44: {e}")),
    };
    let mut outcomes: BTreeMap<String, u64> = BTreeMap::new();
    let mut steps = 0u64;
    let mut bad = 0u64;
    let mut offline_accepts = 0u64;
    let mut seqs_with_offline_accept = 0u64;
    let mut model_states: std::collections::BTreeSet<String> = Default::default();
    for (k, r) in res.iter().enumerate() {
        let seq = decode(k);
        let v: Value = serde_json::from_str(r).unwrap_or_else(|_| json!({"error": format!("unreadable worker answer: {r}")}));
        if let Some(e) = v["error"].as_str() {
            ctx.machinery_error(format!("{}: {e}", seq.iter().map(op_str).collect::<Vec<_>>().join(" ")));
            continue;
        }
        for ms in v["model_states"].as_array().cloned().unwrap_or_default() {
            model_states.insert(ms.as_str().unwrap_or("").to_string());
        }
        if v["labels"].as_array().map(|a| a.iter().any(|l| l == "accepted-offline")).unwrap_or(false) {
            seqs_with_offline_accept += 1;
        }
        if k % (n / 4).max(1) == 0 {
            ctx.sample(json!({"sequence": seq.iter().map(op_str).collect::<Vec<_>>(), "answers": v["labels"].clone()}));
        }
        for (i, l) in v["labels"].as_array().cloned().unwrap_or_default().iter().enumerate() {
            steps += 1;
            let l = l.as_str().unwrap_or("?");
            if l == "accepted-offline" {
                offline_accepts += 1;
            }
            let kind = match seq[i] { Op::Up(_) | Op::Rotate => "reachable", Op::Down(Down::Marked, _) => "marked-offline", Op::Down(Down::Refused, _) => "connection-fails", Op::Down(Down::Unnoticed, _) => "failure-unnoticed", Op::ChangePw => "change", Op::Transplant => "transplant", Op::Open(_) => "open", Op::Close(_) => "answer-later" };
            *outcomes.entry(format!("{kind}:{l}")).or_default() += 1;
        }
        for x in v["viol"].as_array().cloned().unwrap_or_default() {
            bad += 1;
            let upto = x[2].as_u64().unwrap_or(seq.len() as u64 - 1) as usize;
            let trace: Vec<String> = seq[..=upto.min(seq.len() - 1)].iter().map(op_str).collect();
            ctx.violation(x[0].as_str().unwrap_or("?"), x[1].as_str().unwrap_or(""), json!({"trace": trace}));
        }
    }
    let _ = std::fs::remove_dir_all(&dir);
    if offline_accepts == 0 {
        ctx.machinery_error("vacuous: no login was ever accepted while the server was unreachable".into());
    }
    ctx.set("traces_validated_against_impl", n as u64);
    ctx.set("depth", depth as u64);
    ctx.set("transitions", steps);
    ctx.set("states", model_states.len() as u64 + 1);
    ctx.set("logins_accepted_while_unreachable", offline_accepts);
    ctx.set("distinct_nontrivial", seqs_with_offline_accept);
    ctx.set("outcomes", json!(outcomes));
    ctx.set("mismatches", bad);
    ctx.set("exhaustive", true);
    ctx.set("alphabet", json!(alpha.iter().map(op_str).collect::<Vec<_>>()));
    ctx.set("rule", format!("every sequence of exactly {depth} operations over the alphabet that does not start with a login while unreachable and does not end with an operation that is no login{} (shorter sequences are prefixes and are judged step by step); plus the interleaved family [first login, open a login while unreachable, one operation, answer the open login, a login while unreachable], states = distinct states of the reference model reached (server password / last confirmed password / sealed here / a login open); non-trivial = sequences with at least one login accepted while unreachable; each on a machine whose cache has been emptied (real Resolver, KanidmProvider, software TPM with its own machine key, cache database on disk; one machine per worker process, reused between sequences) talking to a scripted identity server over TCP; the second machine of `transplant` has its own TPM, machine key and database", ""));
    ctx.assume("one-directional, as the statement is: an acceptance that the identity server did not confirm in that very login must be for the password the server most recently confirmed to this machine, and the cached credential must have been sealed on this machine; refusals are never judged");
    ctx.assume("the identity server is a scripted HTTP peer implementing /v1/self, /_unix/_token and /_unix/_auth; the TPM is kanidm-hsm-crypto's software TPM (a hardware TPM is not available here); `another machine` = another TPM instance with another machine key");
    ctx.finish();
}
