//! C50 — synchronisation agreements stay inside their own scope.
//!
//! E1: from a prepared server (two sync agreements, an entry owned by each, a native person, a
//! recycled synced entry) every request of a small alphabet is applied by agreement 1 through the
//! real `scim_sync_apply`, each in a forked copy of the server, and the whole directory is
//! compared before / after. A second phase lets a user with broad write access edit a synced
//! entry, with and without an attribute handed over to Kanidm's authority.

use crate::acpfx::{group_entry, Acp};
use crate::idmfx::{person_entry, person_uuid, Idm};
use crate::srv;
use kanidm_proto::internal::Filter as ProtoFilter;
use kanidm_proto::scim_v1::{ScimSyncRequest, ScimSyncRetentionMode, ScimSyncState, SCIM_SCHEMA_SYNC_1, SCIM_SCHEMA_SYNC_ACCOUNT, SCIM_SCHEMA_SYNC_GROUP, SCIM_SCHEMA_SYNC_PERSON};
use kanidmd_lib::idm::authentication::ClientAuthInfo;
use kanidmd_lib::idm::scim::{GenerateScimSyncTokenEvent, ScimSyncUpdateEvent};
use kanidmd_lib::idm::server::IdmServerTransaction;
use kanidmd_lib::prelude::*;
use kanidmd_lib::schema::SchemaTransaction;
use kanidmd_lib::verif_hooks::identity_internal;
use kv_engine::forkdfs::{fork_eval, fork_map};
use kv_engine::{Ctx, Level};
use scim_proto::{ScimAttr, ScimEntry, ScimValue};
use serde_json::json;
use std::collections::{BTreeMap, BTreeSet};

const S1: u128 = 0xc500_0000_0000_4000_8000_0000_0000_0001;
const S2: u128 = 0xc500_0000_0000_4000_8000_0000_0000_0002;
const OWN: u128 = 0xc500_0000_0000_4000_8000_0000_0000_0011;
const OTHER: u128 = 0xc500_0000_0000_4000_8000_0000_0000_0012;
const RECYCLED: u128 = 0xc500_0000_0000_4000_8000_0000_0000_0013;
const NEWID: u128 = 0xc500_0000_0000_4000_8000_0000_0000_0014;
const SYSTEM_ID: u128 = 0x0000_0000_0000_0000_0000_ffff_0000_c500;
const BOSSGRP: u128 = 0xc500_0000_0000_4000_8000_0000_0000_0021;
const NATIVE: usize = 3;
const BOSS: usize = 4;

const IDS: [&str; 6] = ["new", "own", "other-agreement", "native", "recycled-own", "system-range"];
fn id_of(k: usize) -> Uuid {
    match k {
        0 => Uuid::from_u128(NEWID),
        1 => Uuid::from_u128(OWN),
        2 => Uuid::from_u128(OTHER),
        3 => person_uuid(NATIVE),
        4 => Uuid::from_u128(RECYCLED),
        _ => Uuid::from_u128(SYSTEM_ID),
    }
}
const SCHEMAS: [&str; 3] = ["person", "group", "person + a class sync may not set"];
const ATTRS: [&str; 5] = ["name", "name + a changed displayname", "name + a different uuid", "name + another agreement as sync parent", "name, sent WITHOUT an external id next to a second, new entry that has one"];
const RETAIN: [&str; 5] = ["ignore", "delete other-agreement's entry", "delete the native person", "delete own entry", "retain nothing"];

fn sync_entry(name: &str, u: u128) -> kanidmd_lib::entry::Entry<kanidmd_lib::entry::EntryInit, kanidmd_lib::entry::EntryNew> {
    let mut e = kanidmd_lib::entry::Entry::new();
    e.add_ava(Attribute::Class, EntryClass::Object.to_value());
    e.add_ava(Attribute::Class, EntryClass::SyncAccount.to_value());
    e.add_ava(Attribute::Name, Value::new_iname(name));
    e.add_ava(Attribute::Uuid, Value::Uuid(Uuid::from_u128(u)));
    e.add_ava(Attribute::Description, Value::new_utf8s("sync agreement"));
    e
}

fn scim_person(id: Uuid, name: &str, extra: &[(&str, &str)]) -> ScimEntry {
    let mut attrs: BTreeMap<String, ScimValue> = BTreeMap::new();
    attrs.insert("name".into(), ScimValue::Simple(ScimAttr::String(name.into())));
    attrs.insert("displayname".into(), ScimValue::Simple(ScimAttr::String(format!("D {name}"))));
    for (k, v) in extra {
        attrs.insert(k.to_string(), ScimValue::Simple(ScimAttr::String(v.to_string())));
    }
    ScimEntry { schemas: vec![SCIM_SCHEMA_SYNC_PERSON.to_string(), SCIM_SCHEMA_SYNC_ACCOUNT.to_string()], id, external_id: Some(format!("cn={name},dc=ext")), meta: None, attrs }
}

struct Prepared {
    idm: Idm,
    idents: [Identity; 2],
}

fn sync_ident(idm: &Idm, u: u128, ct: std::time::Duration) -> Result<Identity, String> {
    let tok = idm.write(ct, |w| w.scim_sync_generate_token(&GenerateScimSyncTokenEvent { ident: identity_internal(), target: Uuid::from_u128(u), label: "connector".into() }, ct)).map_err(|e| format!("sync token: {e:?}"))?;
    idm.write(ct, |w| w.validate_sync_client_auth_info_to_ident(ClientAuthInfo::new(Source::Internal, None, Some(tok.clone()), None), ct)).map_err(|e| format!("sync ident: {e:?}"))
}

fn apply_sync(idm: &Idm, ident: &Identity, req: &ScimSyncRequest, ct: std::time::Duration) -> Result<(), OperationError> {
    let sse = ScimSyncUpdateEvent { ident: ident.clone() };
    idm.write(ct, |w| w.scim_sync_apply(&sse, req, ct))
}

fn prepare(yield_displayname: bool) -> Result<Prepared, String> {
    let idm = Idm::new();
    let ct = srv::t(10);
    idm.write(ct, |w| {
        w.qs_write.internal_create(vec![sync_entry("agreement1", S1), sync_entry("agreement2", S2), person_entry("native", person_uuid(NATIVE)), person_entry("boss", person_uuid(BOSS)), group_entry("bosses", Uuid::from_u128(BOSSGRP), &[person_uuid(BOSS)])])?;
        // the boss may write the attributes used below on every person
        let acp = Acp {
            name: "boss_writes_people".into(),
            uuid: Uuid::from_u128(BOSSGRP + 1),
            receiver_group: Uuid::from_u128(BOSSGRP),
            target: Some(ProtoFilter::Eq("class".into(), "person".into())),
            search_attrs: vec![Attribute::Class, Attribute::Name, Attribute::Uuid, Attribute::DisplayName, Attribute::LegalName, Attribute::Mail],
            modify_present_attrs: vec![Attribute::DisplayName, Attribute::LegalName, Attribute::Mail, Attribute::Description],
            modify_removed_attrs: vec![Attribute::DisplayName, Attribute::LegalName, Attribute::Mail, Attribute::Description],
            ..Default::default()
        };
        w.qs_write.internal_create(vec![acp.to_entry()])
    })
    .map_err(|e| format!("prepare: {e:?}"))?;
    let i1 = sync_ident(&idm, S1, srv::t(12))?;
    let i2 = sync_ident(&idm, S2, srv::t(13))?;
    // initial content through the real path: each agreement creates its own entries
    let first = |entries: Vec<ScimEntry>| ScimSyncRequest { from_state: ScimSyncState::Refresh, to_state: ScimSyncState::Active { cookie: vec![1] }, entries, retain: ScimSyncRetentionMode::Ignore };
    apply_sync(&idm, &i1, &first(vec![scim_person(Uuid::from_u128(OWN), "own", &[]), scim_person(Uuid::from_u128(RECYCLED), "gone", &[])]), srv::t(20)).map_err(|e| format!("initial sync 1: {e:?}"))?;
    apply_sync(&idm, &i2, &first(vec![scim_person(Uuid::from_u128(OTHER), "theirs", &[])]), srv::t(21)).map_err(|e| format!("initial sync 2: {e:?}"))?;
    // agreement 1 deletes one of its entries (it goes to the recycle bin)
    let del = ScimSyncRequest { from_state: ScimSyncState::Active { cookie: vec![1] }, to_state: ScimSyncState::Active { cookie: vec![2] }, entries: vec![], retain: ScimSyncRetentionMode::Delete(vec![Uuid::from_u128(RECYCLED)]) };
    apply_sync(&idm, &i1, &del, srv::t(22)).map_err(|e| format!("initial delete: {e:?}"))?;
    // the hand-over happens after the entries exist (a request that carries a handed-over
    // attribute is refused as a whole)
    if yield_displayname {
        idm.write(srv::t(30), |w| w.qs_write.internal_modify_uuid(Uuid::from_u128(S1), &ModifyList::new_purge_and_set(Attribute::SyncYieldAuthority, Value::new_iutf8("displayname")))).map_err(|e| format!("yield: {e:?}"))?;
    }
    Ok(Prepared { idm, idents: [i1, i2] })
}

/// uuid -> (life, attribute -> values), change ids excluded
fn dump(idm: &Idm) -> BTreeMap<Uuid, (String, BTreeMap<String, Vec<String>>)> {
    idm.read(|r| {
        let mut out = BTreeMap::new();
        for e in r.qs_read.internal_search(Filter::new(f_pres(Attribute::Class))).unwrap_or_default() {
            let mut m = BTreeMap::new();
            for (a, vs) in e.get_ava_iter() {
                if *a == Attribute::LastModifiedCid || *a == Attribute::CreatedAtCid {
                    continue;
                }
                let mut v: Vec<String> = vs.to_proto_string_clone_iter().collect();
                v.sort();
                m.insert(a.to_string(), v);
            }
            let life = if e.attribute_equality(Attribute::Class, &EntryClass::Tombstone.into()) { "tombstone" } else if e.attribute_equality(Attribute::Class, &EntryClass::Recycled.into()) { "recycled" } else { "live" };
            out.insert(e.get_uuid(), (life.to_string(), m));
        }
        out
    })
}

fn in_system_range(u: &Uuid) -> bool {
    u.as_u128() < 0x0000_0000_0000_0001_0000_0000_0000_0000
}

fn run_case(p: &Prepared, yielded: bool, idk: usize, sch: usize, att: usize, refresh: bool, ret: usize) -> String {
    let before = dump(&p.idm);
    let id = id_of(idk);
    let mut attrs: BTreeMap<String, ScimValue> = BTreeMap::new();
    attrs.insert("name".into(), ScimValue::Simple(ScimAttr::String(format!("n{idk}x"))));
    match att {
        1 => {
            attrs.insert("displayname".into(), ScimValue::Simple(ScimAttr::String("Changed By Sync".into())));
        }
        2 => {
            attrs.insert("uuid".into(), ScimValue::Simple(ScimAttr::String(Uuid::from_u128(NEWID + 100).to_string())));
        }
        3 => {
            attrs.insert("sync_parent_uuid".into(), ScimValue::Simple(ScimAttr::String(Uuid::from_u128(S2).to_string())));
        }
        _ => {}
    }
    if sch != 1 && att != 1 && !yielded {
        attrs.insert("displayname".into(), ScimValue::Simple(ScimAttr::String("D".into())));
    }
    let schemas = match sch {
        0 => vec![SCIM_SCHEMA_SYNC_PERSON.to_string(), SCIM_SCHEMA_SYNC_ACCOUNT.to_string()],
        1 => vec![SCIM_SCHEMA_SYNC_GROUP.to_string()],
        _ => vec![SCIM_SCHEMA_SYNC_PERSON.to_string(), SCIM_SCHEMA_SYNC_ACCOUNT.to_string(), format!("{SCIM_SCHEMA_SYNC_1}system")],
    };
    let entry = ScimEntry { schemas, id, external_id: if att == 4 { None } else { Some(format!("cn=case{idk},dc=ext")) }, meta: None, attrs };
    let mut entries = vec![entry];
    if att == 4 {
        entries.push(scim_person(Uuid::from_u128(NEWID + 7), "companion", &[]));
    }
    let retain = match ret {
        0 => ScimSyncRetentionMode::Ignore,
        1 => ScimSyncRetentionMode::Delete(vec![Uuid::from_u128(OTHER)]),
        2 => ScimSyncRetentionMode::Delete(vec![person_uuid(NATIVE)]),
        3 => ScimSyncRetentionMode::Delete(vec![Uuid::from_u128(OWN)]),
        _ => ScimSyncRetentionMode::Retain(vec![]),
    };
    let req = ScimSyncRequest { from_state: if refresh { ScimSyncState::Refresh } else { ScimSyncState::Active { cookie: vec![2] } }, to_state: ScimSyncState::Active { cookie: vec![3] }, entries, retain };
    let res = apply_sync(&p.idm, &p.idents[0], &req, srv::t(100));
    let after = dump(&p.idm);
    let s1 = Uuid::from_u128(S1).to_string();
    let owned = |m: &BTreeMap<String, Vec<String>>| m.get("sync_parent_uuid").map(|v| v.iter().any(|x| x.contains(&s1))).unwrap_or(false);
    let sync_allowed: BTreeSet<String> = p.idm.read(|r| r.qs_read.get_schema().get_attributes().iter().filter(|(_, a)| a.sync_allowed).map(|(k, _)| k.to_string()).collect());
    let mut bad: Vec<(String, String)> = Vec::new();
    if res.is_err() && before != after {
        bad.push(("refused_request_left_a_trace".into(), format!("the request was refused ({:?}) but the directory changed", res.as_ref().err())));
    }
    for (u, (life, attrs)) in &before {
        let Some((life2, attrs2)) = after.get(u) else {
            if !owned(attrs) {
                bad.push(("foreign_entry_removed".into(), format!("entry {:?} not owned by the agreement disappeared", attrs.get("name"))));
            }
            continue;
        };
        if *u == Uuid::from_u128(S1) {
            continue; // the agreement's own record (cookie)
        }
        if !owned(attrs) {
            // (membership of dynamic groups and the memberof of entries follow from the
            // agreement's own entries; they are computed by the server, not set by the agreement)
            let derived = ["dynmember", "memberof", "directmemberof"];
            let changed: BTreeSet<&String> = attrs.keys().chain(attrs2.keys()).filter(|k| attrs.get(*k) != attrs2.get(*k) && !derived.contains(&k.as_str())).collect();
            if life != life2 || !changed.is_empty() {
                let kind = if *u == Uuid::from_u128(OTHER) { "entry_of_another_agreement" } else if *u == person_uuid(NATIVE) { "native_entry" } else if in_system_range(u) { "system_entry" } else { "other_entry" };
                bad.push((format!("changed_{kind}"), format!("{kind} {:?} was changed by the agreement: {life} -> {life2}, attributes {changed:?}", attrs.get("name"))));
            }
        } else if life == "live" && life2 == "live" {
            for k in attrs.keys().chain(attrs2.keys()).collect::<BTreeSet<_>>() {
                if attrs.get(k) == attrs2.get(k) {
                    continue;
                }
                if yielded && k == "displayname" {
                    bad.push(("changed_attribute_handed_over_to_kanidm".into(), format!("own entry {:?}: the agreement changed {k}, which is handed over to Kanidm's authority", attrs.get("name"))));
                } else if !sync_allowed.contains(k) && !["class", "sync_external_id", "sync_class", "spn", "name_history", "memberof", "directmemberof", "dynmember"].contains(&k.as_str()) {
                    bad.push((format!("changed_unsynchronisable_attribute:{k}"), format!("own entry {:?}: the agreement changed {k}, which is not synchronisable", attrs.get("name"))));
                }
            }
        }
    }
    for (u, (_, attrs)) in &after {
        if before.contains_key(u) {
            continue;
        }
        if in_system_range(u) {
            bad.push(("created_entry_in_system_range".into(), format!("the agreement created {u} ({:?}) in the reserved system range", attrs.get("name"))));
        }
        if !owned(attrs) {
            bad.push(("created_entry_not_owned".into(), format!("the agreement created {:?} which it does not own (sync parent {:?})", attrs.get("name"), attrs.get("sync_parent_uuid"))));
        }
        if attrs.get("uuid").map(|v| v != &vec![u.to_string()]).unwrap_or(false) {
            bad.push(("created_entry_uuid_differs".into(), format!("created entry's stored uuid {:?} differs from its id {u}", attrs.get("uuid"))));
        }
    }
    json!({"ok": res.is_ok(), "err": res.err().map(|e| format!("{e:?}").chars().take(60).collect::<String>()), "bad": bad}).to_string()
}

/// the user side: the boss edits the synced entry
fn user_case(p: &Prepared, yielded: bool) -> Vec<(String, String)> {
    let mut bad = Vec::new();
    let ct = srv::t(200);
    let boss = p.idm.read(|r| r.qs_read.internal_search_uuid(person_uuid(BOSS)).map(|e| Identity::from_impersonate_entry_readwrite(e)));
    let Ok(boss) = boss else { return vec![("machinery:boss".into(), "no boss".into())] };
    for (attr, val) in [(Attribute::DisplayName, Value::new_utf8s("By Boss")), (Attribute::LegalName, Value::new_utf8s("Legal By Boss")), (Attribute::Description, Value::new_utf8s("described by boss"))] {
        let before = dump(&p.idm);
        let ml = ModifyList::new_purge_and_set(attr.clone(), val.clone());
        let f = Filter::new(f_eq(Attribute::Uuid, PartialValue::Uuid(Uuid::from_u128(OWN))));
        let r = p.idm.write_abort_result(ct, |w| {
            let me = kanidmd_lib::event::ModifyEvent::from_internal_parts(boss.clone(), &ml, &f, &w.qs_write)?;
            w.qs_write.modify(&me)
        });
        let handed_over = yielded && attr == Attribute::DisplayName;
        match (r.is_ok(), handed_over) {
            (true, false) => bad.push((format!("user_changed_synced_attribute:{attr}"), format!("a user changed {attr} of a synchronised entry although it is not handed over to Kanidm's authority"))),
            (false, true) => bad.push(("machinery:handed_over_attribute_refused".into(), format!("the boss could not change {attr} although it is handed over: {:?}", r.err()))),
            _ => {}
        }
        let _ = before;
        // and on the native person the same edit is allowed (the access profile really grants it)
        let f2 = Filter::new(f_eq(Attribute::Uuid, PartialValue::Uuid(person_uuid(NATIVE))));
        let r2 = p.idm.write_abort_result(ct, |w| {
            let me = kanidmd_lib::event::ModifyEvent::from_internal_parts(boss.clone(), &ml, &f2, &w.qs_write)?;
            w.qs_write.modify(&me)
        });
        if r2.is_err() {
            bad.push(("machinery:boss_cannot_write".into(), format!("the boss cannot change {attr} of a native person: {:?}", r2.err())));
        }
    }
    bad
}

pub fn run(args: &[String]) -> ! {
    let mut ctx = Ctx::new("C50", Level::Exploration, args);
    // cases
    let mut cases: Vec<(bool, usize, usize, usize, bool, usize)> = Vec::new();
    for y in [false, true] {
        for idk in 0..IDS.len() {
            for sch in 0..SCHEMAS.len() {
                for att in 0..ATTRS.len() {
                    for refresh in [false, true] {
                        for ret in 0..RETAIN.len() {
                            cases.push((y, idk, sch, att, refresh, ret));
                        }
                    }
                }
            }
        }
    }
    if ctx.quick() {
        // quick: the retention modes are combined with the plain request only, the request
        // shapes with `ignore` only
        cases.retain(|(_, _, sch, att, _, ret)| *ret == 0 || (*sch == 0 && *att == 0));
    }
    if let Some(r) = ctx.replay.clone() {
        let c = &r["case"];
        let pick = (c["yielded"].as_bool().unwrap_or(false), c["id"].as_u64().unwrap_or(0) as usize, c["schema"].as_u64().unwrap_or(0) as usize, c["attrs"].as_u64().unwrap_or(0) as usize, c["refresh"].as_bool().unwrap_or(false), c["retain"].as_u64().unwrap_or(0) as usize);
        cases = vec![pick];
    }
    let workers = kv_engine::product::ncpu().min(16).min(cases.len().max(1));
    let chunk = cases.len().div_ceil(workers);
    let results = match fork_map(workers, workers, |w| {
        let mine: Vec<_> = cases.iter().skip(w * chunk).take(chunk).cloned().collect();
        let mut preps: [Option<Prepared>; 2] = [None, None];
        let mut out = Vec::new();
        for (y, idk, sch, att, refresh, ret) in mine {
            if preps[y as usize].is_none() {
                match prepare(y) {
                    Ok(p) => preps[y as usize] = Some(p),
                    Err(e) => return json!({"machinery": e}).to_string(),
                }
            }
            let Some(p) = preps[y as usize].as_ref() else { continue };
            let r = fork_eval(|| run_case(p, y, idk, sch, att, refresh, ret)).unwrap_or_else(|e| json!({"machinery": e}).to_string());
            out.push(json!({"case": {"yielded": y, "id": idk, "schema": sch, "attrs": att, "refresh": refresh, "retain": ret}, "res": serde_json::from_str::<serde_json::Value>(&r).unwrap_or_default()}));
        }
        // the user side, once per worker 0 / yield setting
        if w == 0 {
            for y in [false, true] {
                match prepare(y) {
                    Ok(p) => {
                        let v = user_case(&p, y);
                        out.push(json!({"user": y, "bad": v}));
                    }
                    Err(e) => return json!({"machinery": e}).to_string(),
                }
            }
        }
        serde_json::Value::Array(out).to_string()
    }) {
        Ok(r) => r,
        Err(e) => kv_engine::ctx::machinery_exit(&format!("C50: {e}")),
    };
    let (mut evals, mut accepted, mut nbad) = (0u64, 0u64, 0u64);
    let mut refusals: BTreeMap<String, u64> = BTreeMap::new();
    for res in &results {
        let v: serde_json::Value = serde_json::from_str(res).unwrap_or_default();
        if let Some(m) = v.get("machinery") {
            ctx.machinery_error(m.to_string());
            continue;
        }
        for item in v.as_array().cloned().unwrap_or_default() {
            if item.get("user").is_some() {
                for b in item["bad"].as_array().cloned().unwrap_or_default() {
                    let (k, w) = (b[0].as_str().unwrap_or("?"), b[1].as_str().unwrap_or(""));
                    if k.starts_with("machinery:") {
                        ctx.machinery_error(format!("{k}: {w}"));
                    } else {
                        nbad += 1;
                        ctx.violation(k, &format!("displayname handed over: {}: {w}", item["user"]), json!({"user": item["user"]}));
                    }
                }
                evals += 3;
                continue;
            }
            evals += 1;
            let c = &item["case"];
            let r = &item["res"];
            if let Some(m) = r.get("machinery") {
                ctx.machinery_error(m.to_string());
                continue;
            }
            if r["ok"].as_bool().unwrap_or(false) {
                accepted += 1;
            } else {
                *refusals.entry(r["err"].as_str().unwrap_or("?").to_string()).or_insert(0) += 1;
            }
            let describe = format!("agreement 1 ({}) sends id {}, schema {}, attributes {}, {} , retention {}", if c["yielded"].as_bool().unwrap_or(false) { "displayname handed over" } else { "nothing handed over" }, IDS[c["id"].as_u64().unwrap_or(0) as usize], SCHEMAS[c["schema"].as_u64().unwrap_or(0) as usize], ATTRS[c["attrs"].as_u64().unwrap_or(0) as usize], if c["refresh"].as_bool().unwrap_or(false) { "refresh" } else { "active" }, RETAIN[c["retain"].as_u64().unwrap_or(0) as usize]);
            for b in r["bad"].as_array().cloned().unwrap_or_default() {
                nbad += 1;
                ctx.violation(b[0].as_str().unwrap_or("?"), &format!("{describe}: {}", b[1].as_str().unwrap_or("")), c.clone());
            }
            if evals % 131 == 7 {
                ctx.sample(json!({"request": describe, "accepted": r["ok"], "error": r["err"]}));
            }
        }
    }
    ctx.set("evaluations", evals);
    ctx.set("distinct_nontrivial", accepted);
    ctx.set("refusals_by_kind", json!(refusals));
    ctx.set("mismatches", nbad);
    ctx.set("rule", format!("yield authority {{none, displayname}} x entry id {IDS:?} x schema {SCHEMAS:?} x attributes {ATTRS:?} x state {{active, refresh}} x retention {RETAIN:?}, each applied by agreement 1 through the real scim_sync_apply in a forked copy of a prepared server (two agreements with one entry each, a native person, a recycled synced entry); plus a user with a broad write profile editing displayname / legalname / description of the synced entry and of a native person"));
    ctx.set("exhaustive", true);
    ctx.assume("the whole directory (every entry in every lifecycle state, change ids excluded) is compared before / after each request");
    ctx.finish();
}
