//! C06 — a read transaction sees one consistent committed state.
//!
//! E3 controlled scheduling of the real code: one reader thread and one writer thread on a real
//! IdmServer over a file-backed database (connection pool 4). Both threads stop at named points —
//! the reader at every snapshot acquisition inside `read()` (schema, change id, backend, entry
//! cache, database connection / BEGIN, index caches, access controls ...) and before each of its
//! queries; the writer before its transaction, before commit and at every publication step of
//! the commit path (database COMMIT, each cache, schema, access controls, domain settings, the
//! IDM-level configuration). A controller decides who moves. Every schedule with at most two
//! preemptions is run (thorough: three), for three cache temperatures, each in a forked child on
//! its own copy of the database.
//!
//! The writer's single transaction changes two related entries, adds an access control profile
//! and an OAuth2 client, and renames the domain. Inside ONE read transaction the reader asks for
//! both entries, an indexed search, the domain display name, an access decision that depends on
//! the new profile, the OAuth2 client, and then repeats the first three queries.
//! Oracle: the answers are all those of the state before the writer's transaction or all those of
//! the state after it, and a repeated query gives the same answer.

use super::c04::{apply, copy_db, make_template, open};
use crate::idmfx::{person_uuid, Idm};
use crate::srv::{self, new_rt};
use kanidmd_lib::event::SearchEvent;
use kanidmd_lib::idm::server::IdmServerProxyReadTransaction;
use kanidmd_lib::prelude::*;
use kanidmd_lib::verif_hooks::{point, set_point_handler};
use kv_engine::forkdfs::{fork_eval, fork_map};
use kv_engine::{Ctx, Level};
use serde_json::json;
use std::cell::Cell;
use std::path::Path;
use std::sync::{Arc, Condvar, Mutex};
use std::time::Duration;

const R: usize = 0;
const W: usize = 1;

thread_local! {
    static ROLE: Cell<Option<usize>> = const { Cell::new(None) };
}

#[derive(Default)]
struct St {
    budget: [usize; 2],
    passed: [usize; 2],
    at: [Option<&'static str>; 2],
    done: [bool; 2],
    trace: Vec<(usize, &'static str)>,
}

struct Sched {
    st: Mutex<St>,
    cv: Condvar,
}

fn is_sched_point(role: usize, p: &str) -> bool {
    if role == R {
        // (the sql.r.* points are inside the connection-pool mutex, which the writer needs when it
        // returns its connection: stopping there only produces schedules in which the writer
        // waits for the reader, i.e. the ones where the reader moves first)
        p.starts_with("qs.r.") || p.starts_with("be.r.") || p.starts_with("arc.r.") || p.starts_with("h.r.")
    } else {
        p.starts_with("qs.c.") || p.starts_with("be.c.") || p.starts_with("arc.c.") || p == "sql.w.commit" || p.starts_with("schema.c.") || p.starts_with("acp.c.") || p.starts_with("h.w.")
    }
}

impl Sched {
    fn at_point(&self, role: usize, name: &'static str) {
        let mut g = match self.st.lock() {
            Ok(g) => g,
            Err(_) => return,
        };
        loop {
            if g.budget[role] > 0 {
                g.budget[role] -= 1;
                g.passed[role] += 1;
                g.at[role] = None;
                g.trace.push((role, name));
                return;
            }
            g.at[role] = Some(name);
            self.cv.notify_all();
            g = match self.cv.wait(g) {
                Ok(g) => g,
                Err(_) => return,
            };
        }
    }
    fn finished(&self, role: usize) {
        if let Ok(mut g) = self.st.lock() {
            g.done[role] = true;
            g.at[role] = None;
            self.cv.notify_all();
        }
    }
    /// let `role` pass `k` points; returns when it is stopped at its next point or has finished.
    /// Err = it neither stopped nor finished in time (it is blocked on the other thread).
    fn advance(&self, role: usize, k: usize) -> Result<(), String> {
        let mut g = self.st.lock().map_err(|_| "poisoned")?;
        g.budget[role] = k;
        self.cv.notify_all();
        let deadline = std::time::Instant::now() + Duration::from_secs(20);
        loop {
            if g.done[role] || (g.budget[role] == 0 && g.at[role].is_some()) {
                g.budget[role] = 0;
                return Ok(());
            }
            let left = deadline.saturating_duration_since(std::time::Instant::now());
            if left.is_zero() {
                return Err(format!("thread {role} neither reached its next point nor finished (last trace {:?})", g.trace.last()));
            }
            g = self.cv.wait_timeout(g, left).map_err(|_| "poisoned")?.0;
        }
    }
}

fn reader_queries(r: &mut IdmServerProxyReadTransaction<'_>) -> Vec<String> {
    let dn = |r: &mut IdmServerProxyReadTransaction<'_>, u: Uuid| match r.qs_read.internal_search_uuid(u) {
        Ok(e) => e.get_ava_set(Attribute::DisplayName).map(|vs| vs.to_proto_string_clone_iter().collect::<Vec<_>>().join(",")).unwrap_or_default(),
        Err(e) => format!("err:{e:?}"),
    };
    let idx = |r: &mut IdmServerProxyReadTransaction<'_>| match r.qs_read.internal_search(Filter::new(f_eq(Attribute::DisplayName, PartialValue::new_utf8s("modified")))) {
        Ok(v) => {
            let mut n: Vec<String> = v.iter().map(|e| e.get_ava_set(Attribute::Name).map(|vs| vs.to_proto_string_clone_iter().collect::<Vec<_>>().join(",")).unwrap_or_default()).collect();
            n.sort();
            format!("{n:?}")
        }
        Err(e) => format!("err:{e:?}"),
    };
    let mut out = Vec::new();
    let _ = point("h.r.q1");
    out.push(format!("target:{}", dn(r, person_uuid(1))));
    let _ = point("h.r.q2");
    out.push(format!("second:{}", dn(r, person_uuid(0))));
    let _ = point("h.r.q3");
    out.push(format!("indexed_search:{}", idx(r)));
    let _ = point("h.r.q4");
    out.push(format!("domain_display_name:{}", r.qs_read.get_domain_display_name()));
    let _ = point("h.r.q5");
    let seen = match r.qs_read.internal_search_uuid(person_uuid(0)) {
        Ok(actor) => {
            let ident = Identity::from_impersonate_entry_readwrite(actor).project_with_scope(AccessScope::ReadOnly);
            let f = Filter::new(f_eq(Attribute::Name, PartialValue::new_iname("target")));
            match SearchEvent::from_internal_message(ident, &f, None, &mut r.qs_read).and_then(|se| r.qs_read.search_ext(&se)) {
                Ok(v) => {
                    let mut a: Vec<String> = v.iter().flat_map(|e| e.get_ava_iter().map(|(a, _)| a.to_string()).collect::<Vec<_>>()).collect();
                    a.sort();
                    format!("{a:?}")
                }
                Err(e) => format!("err:{e:?}"),
            }
        }
        Err(e) => format!("err:{e:?}"),
    };
    out.push(format!("access_decision:{seen}"));
    let _ = point("h.r.q6");
    out.push(format!("oauth2_client:{}", r.oauth2_openid_discovery("verifclient").is_ok()));
    let _ = point("h.r.q7");
    out.push(format!("target_again:{}", dn(r, person_uuid(1))));
    let _ = point("h.r.q8");
    out.push(format!("second_again:{}", dn(r, person_uuid(0))));
    let _ = point("h.r.q9");
    out.push(format!("indexed_search_again:{}", idx(r)));
    // an indexed search for the OLD display names, with the display name each returned entry
    // actually carries: an index list from one state used on entries of the other shows up as a
    // hit that does not match the filter
    let _ = point("h.r.q10");
    let old_hits = match r.qs_read.internal_search(Filter::new(f_or(vec![f_eq(Attribute::DisplayName, PartialValue::new_utf8s("target")), f_eq(Attribute::DisplayName, PartialValue::new_utf8s("reader"))]))) {
        Ok(v) => {
            let mut n: Vec<String> = v.iter().map(|e| format!("{}={}", e.get_ava_set(Attribute::Name).map(|vs| vs.to_proto_string_clone_iter().collect::<Vec<_>>().join(",")).unwrap_or_default(), e.get_ava_set(Attribute::DisplayName).map(|vs| vs.to_proto_string_clone_iter().collect::<Vec<_>>().join(",")).unwrap_or_default())).collect();
            n.sort();
            format!("{n:?}")
        }
        Err(e) => format!("err:{e:?}"),
    };
    out.push(format!("old_value_search:{old_hits}"));
    out
}

fn writer_txn(idm: &Idm) -> Result<(), OperationError> {
    let rt = new_rt();
    rt.block_on(async {
        let _ = point("h.w.begin");
        let mut w = idm.idms.proxy_write(srv::t(3000)).await?;
        let mut d = 0usize;
        // two related entries
        apply(&mut w, 1, false, None, &mut d)?;
        w.qs_write.internal_modify_uuid(person_uuid(0), &ModifyList::new_purge_and_set(Attribute::DisplayName, Value::new_utf8s("modified")))?;
        // access control profile, OAuth2 client, domain display name
        apply(&mut w, 4, false, None, &mut d)?;
        apply(&mut w, 5, false, None, &mut d)?;
        apply(&mut w, 6, false, None, &mut d)?;
        let _ = point("h.w.commit");
        w.commit()?;
        let _ = point("h.w.done");
        Ok(())
    })
}

fn reader_txn(idm: &Idm) -> Vec<String> {
    let rt = new_rt();
    rt.block_on(async {
        let _ = point("h.r.begin");
        match idm.idms.proxy_read().await {
            Ok(mut r) => reader_queries(&mut r),
            Err(e) => vec![format!("read transaction failed: {e:?}")],
        }
    })
}

/// the steps of a schedule: (thread, number of points it may pass; usize::MAX = to the end)
type Schedule = Vec<(usize, usize)>;

#[derive(Clone, Copy, Debug)]
enum Temp {
    Cold,
    WarmFirst,
    WarmAll,
}

/// child: run one schedule; returns the reader's answers, the points passed by each thread, the trace
fn run_schedule(tpl: &Path, db: &Path, temp: Temp, schedule: &Schedule) -> String {
    if let Err(e) = copy_db(tpl, db) {
        return format!("machinery|{e}");
    }
    let idm = match open(db) {
        Ok(i) => i,
        Err(e) => return format!("machinery|{e}"),
    };
    // cache temperature
    match temp {
        Temp::Cold => {}
        Temp::WarmFirst => idm.read(|r| {
            let _ = r.qs_read.internal_search_uuid(person_uuid(1));
        }),
        Temp::WarmAll => idm.read(|r| {
            let _ = reader_queries(r);
        }),
    }
    let sched = Arc::new(Sched { st: Mutex::new(St::default()), cv: Condvar::new() });
    let s2 = sched.clone();
    set_point_handler(Some(Arc::new(move |p: &'static str| {
        if let Some(role) = ROLE.with(|r| r.get()) {
            if is_sched_point(role, p) {
                s2.at_point(role, p);
            }
        }
        Ok(())
    })));
    let mut answers: Vec<String> = Vec::new();
    let mut wres: Result<(), OperationError> = Ok(());
    let mut err = String::new();
    std::thread::scope(|s| {
        let (sr, sw) = (sched.clone(), sched.clone());
        let idm = &idm;
        let hr = s.spawn(move || {
            ROLE.with(|r| r.set(Some(R)));
            let a = reader_txn(idm);
            sr.finished(R);
            a
        });
        let hw = s.spawn(move || {
            ROLE.with(|r| r.set(Some(W)));
            let a = writer_txn(idm);
            sw.finished(W);
            a
        });
        // both threads first stop at their first point
        for role in [R, W] {
            if let Err(e) = sched.advance(role, 0) {
                err = e;
            }
        }
        for (role, k) in schedule {
            if !err.is_empty() {
                break;
            }
            if let Err(e) = sched.advance(*role, *k) {
                err = e;
            }
        }
        // whatever is left runs to the end (reader first)
        if let Ok(mut g) = sched.st.lock() {
            g.budget = [usize::MAX, usize::MAX];
            sched.cv.notify_all();
        }
        answers = hr.join().unwrap_or_else(|_| vec!["reader panicked".into()]);
        wres = hw.join().unwrap_or(Err(OperationError::InvalidState));
    });
    set_point_handler(None);
    if !err.is_empty() {
        return format!("blocked|{err}");
    }
    if let Err(e) = wres {
        return format!("machinery|writer failed: {e:?}");
    }
    let g = match sched.st.lock() {
        Ok(g) => g,
        Err(_) => return "machinery|poisoned".into(),
    };
    let trace: Vec<String> = g.trace.iter().map(|(r, p)| format!("{}:{p}", if *r == R { "R" } else { "W" })).collect();
    format!("ran|{}|{}|{}|{}", g.passed[R], g.passed[W], answers.join("\u{7}"), trace.join(" "))
}

pub fn run(args: &[String]) -> ! {
    let mut ctx = Ctx::new("C06", Level::ModelChecking, args);
    let dir = ctx.scratch_dir_fast();
    let tpl = dir.join("template.db");
    if let Err(e) = fork_eval(|| make_template(&tpl).err().unwrap_or_default()).and_then(|s| if s.is_empty() { Ok(()) } else { Err(s) }) {
        kv_engine::ctx::machinery_exit(&format!("C06 template: {e}"));
    }
    let temps: Vec<Temp> = if ctx.quick() { vec![Temp::WarmFirst] } else { vec![Temp::Cold, Temp::WarmFirst, Temp::WarmAll] };
    let preempt = ctx.opt_u64("preemptions").unwrap_or(ctx.pick(2, 3));
    let workers = ctx.opt_u64("workers").map(|w| w as usize).unwrap_or(kv_engine::product::ncpu().min(16));
    let end = usize::MAX;
    let (mut evals, mut nbad, mut blocked, mut mixed_possible) = (0u64, 0u64, 0u64, 0u64);
    let mut outcomes: std::collections::BTreeMap<String, u64> = Default::default();
    let mut sizes = Vec::new();
    for temp in &temps {
        // reference runs: reader entirely before the writer, and entirely after it
        let parse = |s: &str| -> Result<(usize, usize, Vec<String>, String), String> {
            let p: Vec<&str> = s.splitn(5, '|').collect();
            if p.len() == 5 && p[0] == "ran" {
                Ok((p[1].parse().unwrap_or(0), p[2].parse().unwrap_or(0), p[3].split('\u{7}').map(|x| x.to_string()).collect(), p[4].to_string()))
            } else {
                Err(s.to_string())
            }
        };
        let refs: Vec<Result<(usize, usize, Vec<String>, String), String>> = [vec![(R, end), (W, end)], vec![(W, end), (R, end)]].iter().map(|sc| fork_eval(|| run_schedule(&tpl, &dir.join("ref.db"), *temp, sc)).and_then(|s| parse(&s))).collect();
        let (old, new, m, n) = match (&refs[0], &refs[1]) {
            (Ok(a), Ok(b)) => (a.2.clone(), b.2.clone(), a.0, a.1),
            (a, b) => kv_engine::ctx::machinery_exit(&format!("C06 reference runs: {a:?} {b:?}")),
        };
        if old == new || old.iter().zip(new.iter()).any(|(a, b)| a == b) {
            ctx.machinery_error(format!("the writer's transaction does not change every observed answer: before {old:?} after {new:?}"));
        }
        sizes.push(json!({"cache": format!("{temp:?}"), "reader_points": m, "writer_points": n}));
        // schedules with at most `preempt` preemptions: alternate R/W segments; each of the first
        // `preempt` segments ends at a chosen position of its thread, the rest run to the end
        let mut schedules: Vec<Schedule> = Vec::new();
        for first in [R, W] {
            let lens = |role: usize| if role == R { m } else { n };
            // positions are cumulative points passed per thread
            fn rec(seg: u64, preempt: u64, role: usize, pos: [usize; 2], lens: &dyn Fn(usize) -> usize, cur: &mut Schedule, out: &mut Vec<Schedule>) {
                if seg == preempt {
                    let mut s = cur.clone();
                    s.push((role, usize::MAX));
                    s.push((1 - role, usize::MAX));
                    out.push(s);
                    return;
                }
                // this segment stops (is preempted) after k more points, 1 <= k, staying short of the end
                let left = lens(role) - pos[role];
                if left == 0 {
                    return;
                }
                for k in 1..left {
                    let mut p = pos;
                    p[role] += k;
                    cur.push((role, k));
                    rec(seg + 1, preempt, 1 - role, p, lens, cur, out);
                    cur.pop();
                }
            }
            for p in 0..=preempt {
                // exactly p preemptions
                rec(0, p, first, [0, 0], &lens, &mut Vec::new(), &mut schedules);
            }
        }
        if let Some(r) = ctx.replay.clone() {
            if r["case"]["cache"].as_str() != Some(&format!("{temp:?}")) {
                continue;
            }
            let sc: Schedule = r["case"]["schedule"].as_array().map(|a| a.iter().map(|x| (x[0].as_u64().unwrap_or(0) as usize, x[1].as_u64().map(|v| v as usize).unwrap_or(usize::MAX))).collect()).unwrap_or_default();
            schedules = vec![sc];
        }
        let results = match fork_map(workers, schedules.len(), |i| run_schedule(&tpl, &dir.join(format!("s{}.db", i % workers)), *temp, &schedules[i])) {
            Ok(r) => r,
            Err(e) => kv_engine::ctx::machinery_exit(&format!("C06 schedules: {e}")),
        };
        for (sc, res) in schedules.iter().zip(results.iter()) {
            evals += 1;
            let sc_json: Vec<serde_json::Value> = sc.iter().map(|(r, k)| if *k == usize::MAX { json!([r, null]) } else { json!([r, k]) }).collect();
            match parse(res) {
                Ok((_, _, ans, trace)) => {
                    // the last answer (the old-value search) is judged on its own below: it is the
                    // probe for "an index list of one state applied to entries of the other"
                    let probe = ans.len() - 1;
                    let (ans9, old9, new9) = (&ans[..probe], &old[..probe], &new[..probe]);
                    let probe_neither = ans[probe] != old[probe] && ans[probe] != new[probe];
                    let kind = if ans9 == old9 && !probe_neither {
                        "all-before"
                    } else if ans9 == new9 && !probe_neither {
                        "all-after"
                    } else {
                        "mixed"
                    };
                    *outcomes.entry(kind.to_string()).or_insert(0) += 1;
                    if kind == "mixed" {
                        nbad += 1;
                        let short = |a: &str| a.split(':').next().unwrap_or("").to_string();
                        let from_old: Vec<String> = ans9.iter().zip(old9.iter()).filter(|(a, o)| a == o).map(|(a, _)| short(a)).collect();
                        let from_new: Vec<String> = ans9.iter().zip(new9.iter()).filter(|(a, o)| a == o).map(|(a, _)| short(a)).collect();
                        let other: Vec<&String> = ans.iter().zip(old.iter().zip(new.iter())).filter(|(a, (o, n))| a != o && a != n).map(|(a, _)| a).collect();
                        // did the writer's publication window overlap the reader's snapshot acquisition?
                        let pos = |what: &str| trace.split(' ').position(|p| p == what);
                        let overlap = match (pos("R:qs.r.schema"), pos("R:h.r.q1"), pos("W:arc.c.db"), pos("W:h.w.done")) {
                            (Some(rs), Some(re), Some(ws), Some(we)) => !(re < ws || we < rs),
                            _ => true,
                        };
                        // the key names WHAT disagrees and in which window, not the schedule
                        let first_six: Vec<String> = from_new.iter().filter(|f| !f.ends_with("_again")).cloned().collect();
                        let key = format!("{}:after={}", if overlap { "commit_overlaps_snapshot_acquisition" } else { "commit_outside_snapshot_acquisition" }, first_six.join("+"));
                        if ans9 != old9 && ans9 != new9 {
                        ctx.violation(&key, &format!("cache {temp:?}: one read transaction answered {from_old:?} from the state before the writer's transaction and {from_new:?} from the state after it{}; schedule: {trace}", if other.is_empty() { String::new() } else { format!(" (and {other:?} from neither)") }), json!({"cache": format!("{temp:?}"), "schedule": sc_json}));
                        }
                        for (a, b) in [(0usize, 6usize), (1, 7), (2, 8)] {
                            let (x, y) = (ans[a].split_once(':').map(|p| p.1).unwrap_or(""), ans[b].split_once(':').map(|p| p.1).unwrap_or(""));
                            if x != y {
                                ctx.violation(&format!("repeated_query_differs:{}", short(&ans[a])), &format!("cache {temp:?}: inside one read transaction the same query answered `{x}` and later `{y}`; schedule: {trace}"), json!({"cache": format!("{temp:?}"), "schedule": sc_json}));
                            }
                        }
                        if !other.is_empty() {
                            // (the key carries the answer itself: WHICH entries came back matters)
                            ctx.violation(&format!("answer_from_neither_state:{temp:?}:{}", other.iter().map(|o| o.replace(['"', '[', ']', ' '], "")).collect::<Vec<_>>().join("+")), &format!("cache {temp:?}: answers {other:?} belong neither to the state before nor to the state after; schedule: {trace}"), json!({"cache": format!("{temp:?}"), "schedule": sc_json}));
                        }
                    }
                    if evals % 211 == 7 {
                        ctx.sample(json!({"cache": format!("{temp:?}"), "outcome": kind, "schedule": trace.chars().take(400).collect::<String>()}));
                    }
                }
                Err(e) if e.starts_with("blocked|") => {
                    blocked += 1;
                    if blocked < 3 {
                        ctx.sample(json!({"blocked_schedule": sc_json, "why": e}));
                    }
                }
                Err(e) => ctx.machinery_error(format!("schedule {sc_json:?}: {e}")),
            }
        }
        mixed_possible += 1;
    }
    let _ = mixed_possible;
    let _ = std::fs::remove_dir_all(&dir);
    ctx.set("evaluations", evals);
    ctx.set("schedules", evals);
    ctx.set("distinct_nontrivial", outcomes.len() as u64);
    ctx.set("outcomes", json!(outcomes));
    ctx.set("preemption_bound", preempt);
    ctx.set("points", json!(sizes));
    ctx.set("schedules_in_which_a_thread_waited_for_the_other", blocked);
    ctx.set("mismatches", nbad);
    ctx.set("rule", "all schedules of one reader and one writer thread with at most the stated number of preemptions, over the named points of read() / the reader's queries and of the writer's commit path, per cache temperature; each schedule in a forked child on its own copy of a file-backed database (pool 4)");
    ctx.set("exhaustive", true);
    ctx.assume("scheduling points are the named hook points (snapshot acquisitions, publication steps, query boundaries); code between two points runs without interruption, and memory-ordering effects inside the concurrent data structures are not explored");
    ctx.finish();
}
