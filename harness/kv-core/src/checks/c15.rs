//! C15 — every stored entry satisfies the schema (single server part; see the level note).

use crate::worlds::schemaw::{Cfg, Op, SchemaW, MOD_NAMES, NMODS};
use kv_engine::forkdfs::{self, Opts};
use kv_engine::{Ctx, Level};
use serde_json::json;

fn worlds(quick: bool) -> Vec<(&'static str, Cfg, u8)> {
    let all: Vec<usize> = (0..NMODS).collect();
    if quick {
        vec![
            ("person", Cfg { slots: vec![0], precreate: vec![0], pre_ops: vec![], mods: all.clone() }, 2),
            ("posix-group-and-creates", Cfg { slots: vec![1, 2], precreate: vec![1], pre_ops: vec![Op::Modify(1, 0)], mods: vec![0, 2, 6, 8, 10, 13, 14, 18], }, 2),
        ]
    } else {
        vec![
            ("person", Cfg { slots: vec![0], precreate: vec![0], pre_ops: vec![], mods: all.clone() }, 3),
            ("group", Cfg { slots: vec![1], precreate: vec![1], pre_ops: vec![], mods: all.clone() }, 3),
            ("service-account", Cfg { slots: vec![2], precreate: vec![2], pre_ops: vec![], mods: all.clone() }, 3),
            ("creates-and-deletes", Cfg { slots: vec![0, 1, 2], precreate: vec![], pre_ops: vec![], mods: vec![0, 6, 13, 15, 17] }, 4),
        ]
    }
}

pub fn run(args: &[String]) -> ! {
    let mut ctx = Ctx::new("C15", Level::ModelChecking, args);
    let ws = worlds(ctx.quick());
    if let Some(r) = ctx.replay.clone() {
        let name = r["case"]["world"].as_str().unwrap_or("");
        match ws.iter().find(|(n, _, _)| *n == name) {
            Some((_, cfg, _)) => {
                let mut w = SchemaW::new(cfg.clone());
                match forkdfs::replay(&mut w, &r["case"]["trace"]) {
                    Ok(v) => {
                        for (k, what) in v {
                            println!("{k}: {what}");
                            ctx.violation(&k, &what, r["case"].clone());
                        }
                    }
                    Err(e) => ctx.machinery_error(e),
                }
            }
            None if name == "replicated-posix-group" => {
                use crate::worlds::repl::{Cfg as RCfg, Op as ROp, Repl};
                let cfg = RCfg { class_edits: true, replicas: 2, slots: vec![2], names: 1, disp: false, rename: false, lifecycle: true, revive: false, members: false, refresh: false, aging: false, max_repl: 2, precreate: vec![2], same_time: false, props: ["C15"].into_iter().collect(), pre_ops: vec![ROp::PosixOn(0), ROp::Repl(0, 1)], small: true };
                let mut w = Repl::new(cfg);
                match forkdfs::replay(&mut w, &r["case"]["trace"]) {
                    Ok(v) => {
                        for (k, what) in v {
                            println!("{k}: {what}");
                            ctx.violation(&k, &what, r["case"].clone());
                        }
                    }
                    Err(e) => ctx.machinery_error(e),
                }
            }
            None => ctx.machinery_error(format!("replay names an unknown world `{name}`")),
        }
        ctx.finish();
    }
    let mut summary = Vec::new();
    let mut capped_any = false;
    let budget = if ctx.quick() { 40.0 / ws.len() as f64 } else { 1500.0 / ws.len() as f64 };
    for (name, cfg, depth) in &ws {
        let depth = ctx.opt_u64("depth").map(|d| d as u8).unwrap_or(*depth);
        let mut w = SchemaW::new(cfg.clone());
        let opts = Opts { depth, procs: 2, deadline_s: budget, log2_slots: 22, dedup: true, max_samples: 3, par_depth: 1 };
        let rep = forkdfs::run_into_ctx(&mut ctx, &mut w, &opts, name);
        capped_any |= rep.capped;
        summary.push(json!({"world": name, "depth": depth, "states": rep.states, "transitions": rep.transitions, "capped": rep.capped, "requests": cfg.mods.iter().map(|m| MOD_NAMES[*m]).collect::<Vec<_>>(), "outcomes": rep.outcomes.keys().collect::<Vec<_>>() }));
    }
    // replicated half: a POSIX group on two replicas; class edits on both sides, then merges
    {
        use crate::worlds::repl::{Cfg as RCfg, Op as ROp, Repl};
        let quick = ctx.quick();
        let rws: Vec<(&'static str, RCfg, u8)> = vec![
            ("replicated-posix-group", RCfg { class_edits: true, replicas: 2, slots: vec![2], names: 1, disp: false, rename: false, lifecycle: !quick, revive: false, members: false, refresh: false, aging: false, max_repl: if quick { 1 } else { 2 }, precreate: vec![2], same_time: false, props: ["C15"].into_iter().collect(), pre_ops: vec![ROp::PosixOn(0), ROp::Repl(0, 1)], small: true }, if quick { 3 } else { 4 }),
        ];
        for (name, cfg, depth) in &rws {
            let depth = ctx.opt_u64("depth").map(|d| d as u8).unwrap_or(*depth);
            let mut w = Repl::new(cfg.clone());
            let opts = Opts { depth, procs: 2, deadline_s: if quick { 25.0 } else { 600.0 }, log2_slots: 22, dedup: true, max_samples: 3, par_depth: 1 };
            let rep = forkdfs::run_into_ctx(&mut ctx, &mut w, &opts, name);
            capped_any |= rep.capped;
            summary.push(json!({"world": name, "depth": depth, "replicas": 2, "states": rep.states, "transitions": rep.transitions, "capped": rep.capped, "requests": ["posix_on", "posix_off", "add_class", "replicate 0->1", "replicate 1->0"], "outcomes": rep.outcomes.keys().collect::<Vec<_>>() }));
        }
    }
    ctx.set("worlds", json!(summary));
    ctx.set("exhaustive", !capped_any);
    ctx.assume("the checker reads the schema in force from the server (classes: required / allowed attributes, supplements, excludes; attributes: single-valued, syntax) and applies its own validation to every live entry, shipped entries included");
    ctx.assume("at the current domain level the schema is built from shipped migration data, so schema additions at run time are not part of the alphabet; the replicated world merges concurrent class edits of one group on two replicas and applies the same checker on both after every step and at quiescence");
    ctx.finish();
}
