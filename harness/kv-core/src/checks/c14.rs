//! C14 — replication wire framing survives any fragmentation.
//!
//! Subject: `server/core/src/repl/codec.rs`, compiled into this crate by `#[path]` inclusion (the
//! module is private to kanidmd_core; inclusion builds the working tree's file as it is).
//!
//! Enumeration (E1): every sequence of <= N messages (requests for the supplier-side decoder,
//! responses for the consumer-side decoder) is encoded back-to-back by the real encoder, then
//! EVERY way of cutting the byte stream into <= K reads is fed to the real decoder, `decode`
//! being called after every read until it returns `None`, exactly as tokio's `Framed` does.
//! Oracle: the decoded sequence equals the sent sequence (compared as canonical JSON), nothing
//! is left in the buffer, and nothing is produced early. Limits: frame-size limits around each
//! frame's size, zero-length frames, oversize headers without body, every proper header prefix.

#[path = "/repo/server/core/src/repl/codec.rs"]
#[allow(dead_code)]
mod codec;

use bytes::BytesMut;
use codec::{ConsumerCodec, ConsumerRequest, SupplierCodec, SupplierResponse};
use kanidmd_lib::repl::proto::{ReplCidRange, ReplIncrementalContext, ReplRefreshContext, ReplRuvRange};
use kv_engine::{product, Ctx, Level};
use serde_json::{json, Value};
use std::collections::BTreeMap;
use std::time::Duration;
use tokio_util::codec::{Decoder, Encoder};
use uuid::Uuid;

const BIG: usize = 1 << 20;

fn requests() -> Vec<ConsumerRequest> {
    let mut ranges = BTreeMap::new();
    ranges.insert(Uuid::from_u128(1), ReplCidRange { ts_min: Duration::from_secs(1), ts_max: Duration::from_secs(2) });
    vec![
        ConsumerRequest::Ping,
        ConsumerRequest::Refresh,
        ConsumerRequest::Incremental(ReplRuvRange::V1 { domain_uuid: Uuid::from_u128(7), ranges }),
    ]
}

fn responses() -> Vec<SupplierResponse> {
    vec![
        SupplierResponse::Pong,
        SupplierResponse::Incremental(ReplIncrementalContext::NoChangesAvailable),
        SupplierResponse::Incremental(ReplIncrementalContext::RefreshRequired),
        SupplierResponse::Refresh(ReplRefreshContext::V1 {
            domain_version: 1,
            domain_devel: false,
            domain_uuid: Uuid::from_u128(7),
            ranges: BTreeMap::new(),
            schema_entries: vec![],
            meta_entries: vec![],
            entries: vec![],
        }),
    ]
}

fn jreq(m: &ConsumerRequest) -> String {
    serde_json::to_string(m).unwrap_or_default()
}
fn jresp(m: &SupplierResponse) -> String {
    serde_json::to_string(m).unwrap_or_default()
}

/// Which side's decoder is under test.
#[derive(Clone, Copy, PartialEq, Eq, Debug)]
enum Side {
    /// supplier decodes requests
    Supplier,
    /// consumer decodes responses
    Consumer,
}

struct Stream {
    side: Side,
    msgs: Vec<usize>,
    bytes: Vec<u8>,
    want: Vec<String>,
    /// end offset of every frame in `bytes`
    ends: Vec<usize>,
}

fn build_stream(side: Side, msgs: &[usize]) -> Result<Stream, String> {
    let mut dst = BytesMut::new();
    let mut want = Vec::new();
    let mut ends = Vec::new();
    match side {
        Side::Supplier => {
            // requests are written by the consumer-side encoder
            let mut enc = ConsumerCodec::new(BIG);
            for &m in msgs {
                let all = requests();
                want.push(jreq(&all[m]));
                let mut all = all;
                enc.encode(all.swap_remove(m), &mut dst).map_err(|e| format!("encode failed: {e}"))?;
                ends.push(dst.len());
            }
        }
        Side::Consumer => {
            let mut enc = SupplierCodec::new(BIG);
            for &m in msgs {
                let all = responses();
                want.push(jresp(&all[m]));
                let mut all = all;
                enc.encode(all.swap_remove(m), &mut dst).map_err(|e| format!("encode failed: {e}"))?;
                ends.push(dst.len());
            }
        }
    }
    Ok(Stream { side, msgs: msgs.to_vec(), bytes: dst.to_vec(), want, ends })
}

/// Feed `bytes` cut at `cuts` (ascending offsets, may repeat = an empty read) to the real decoder.
/// Returns Ok(decoded json strings, per-read counts) or Err(description).
fn feed(side: Side, bytes: &[u8], cuts: &[usize], limit: usize) -> Result<(Vec<String>, Vec<usize>, usize), String> {
    let mut buf = BytesMut::new();
    let mut out = Vec::new();
    let mut after_read = Vec::new();
    let mut sup = SupplierCodec::new(limit);
    let mut con = ConsumerCodec::new(limit);
    let mut start = 0;
    let mut bounds: Vec<usize> = cuts.to_vec();
    bounds.push(bytes.len());
    for end in bounds {
        buf.extend_from_slice(&bytes[start..end]);
        start = end;
        let mut guard = 0;
        loop {
            guard += 1;
            if guard > 64 {
                return Err("decode did not return None after 64 frames from one read".into());
            }
            let before = buf.len();
            // a panic inside the decoder (an assertion, a slice out of range) is an answer too:
            // the frame was neither decoded nor rejected
            let r = match std::panic::catch_unwind(std::panic::AssertUnwindSafe(|| match side {
                Side::Supplier => sup.decode(&mut buf).map(|o| o.map(|m| jreq(&m))),
                Side::Consumer => con.decode(&mut buf).map(|o| o.map(|m| jresp(&m))),
            })) {
                Ok(r) => r,
                Err(_) => return Err("decoder panicked".into()),
            };
            match r {
                Ok(Some(s)) => {
                    if buf.len() >= before {
                        return Err("a frame was produced without consuming any bytes".into());
                    }
                    out.push(s)
                }
                Ok(None) => break,
                Err(e) => return Err(format!("decode error: {e}")),
            }
        }
        after_read.push(out.len());
    }
    Ok((out, after_read, buf.len()))
}

/// All ascending cut vectors with exactly k cuts in 1..len (positions strictly inside the stream),
/// visited by index so the space can be split over threads.
fn nth_cuts(mut idx: u64, len: usize, k: usize, out: &mut Vec<usize>) {
    // combinations of k positions out of (len-1), in lexicographic order, via combinatorial number system
    out.clear();
    let n = len - 1; // positions 1..=n
    let mut pos = 1usize;
    let mut remaining = k;
    while remaining > 0 {
        // number of combinations that start with `pos`
        let c = binom((n - pos) as u64, (remaining - 1) as u64);
        if idx < c {
            out.push(pos);
            remaining -= 1;
        } else {
            idx -= c;
        }
        pos += 1;
    }
}

fn binom(n: u64, k: u64) -> u64 {
    if k > n {
        return 0;
    }
    let k = std::cmp::min(k, n - k);
    let mut r: u128 = 1;
    for i in 0..k {
        r = r * (n - i) as u128 / (i + 1) as u128;
    }
    r as u64
}

fn check_stream(s: &Stream, cuts: &[usize]) -> Option<(String, String)> {
    match feed(s.side, &s.bytes, cuts, BIG) {
        Err(e) => Some(("decode_failed".into(), format!("{:?} msgs {:?} cut at {:?}: {e}", s.side, s.msgs, cuts))),
        Ok((got, after_read, left)) => {
            if got != s.want {
                return Some(("sequence_changed".into(), format!("{:?} msgs {:?} cut at {:?}: decoded {:?}, sent {:?}", s.side, s.msgs, cuts, got, s.want)));
            }
            if left != 0 {
                return Some(("bytes_left_over".into(), format!("{:?} msgs {:?} cut at {:?}: {left} bytes left in the buffer after the last frame", s.side, s.msgs, cuts)));
            }
            // nothing early, nothing late: after the read ending at offset e, exactly the frames
            // that end at or before e have been produced
            let mut bounds: Vec<usize> = cuts.to_vec();
            bounds.push(s.bytes.len());
            for (i, e) in bounds.iter().enumerate() {
                let complete = s.ends.iter().filter(|x| **x <= *e).count();
                if after_read[i] != complete {
                    return Some(("frame_timing".into(), format!("{:?} msgs {:?} cut at {:?}: after {e} bytes {} frames were produced, {complete} were complete", s.side, s.msgs, cuts, after_read[i])));
                }
            }
            None
        }
    }
}

#[derive(Default)]
struct Acc {
    evals: u64,
    bad: Vec<(String, String, Value)>,
    nbad: u64,
}

pub fn run(args: &[String]) -> ! {
    let mut ctx = Ctx::new("C14", Level::Exploration, args);
    let max_msgs = 3usize;
    let max_cuts = ctx.pick(2usize, 3usize);

    if let Some(r) = ctx.replay.clone() {
        let side = if r["case"]["side"].as_str() == Some("Consumer") { Side::Consumer } else { Side::Supplier };
        let msgs: Vec<usize> = r["case"]["msgs"].as_array().map(|a| a.iter().filter_map(|x| x.as_u64()).map(|x| x as usize).collect()).unwrap_or_default();
        let cuts: Vec<usize> = r["case"]["cuts"].as_array().map(|a| a.iter().filter_map(|x| x.as_u64()).map(|x| x as usize).collect()).unwrap_or_default();
        match build_stream(side, &msgs) {
            Ok(s) => {
                if let Some((k, what)) = check_stream(&s, &cuts) {
                    println!("{k}: {what}");
                    ctx.violation(&k, &what, r["case"].clone());
                }
            }
            Err(e) => ctx.machinery_error(e),
        }
        ctx.finish();
    }

    // decoder panics are caught and reported as violations; keep their messages off stderr
    std::panic::set_hook(Box::new(|_| {}));
    // ---- all message sequences
    let mut streams: Vec<Stream> = Vec::new();
    for side in [Side::Supplier, Side::Consumer] {
        let n = if side == Side::Supplier { requests().len() } else { responses().len() };
        for len in 1..=max_msgs {
            let total = (n as u64).pow(len as u32);
            for idx in 0..total {
                let mut d = vec![0usize; len];
                product::decode(idx, &vec![n as u64; len], &mut d);
                match build_stream(side, &d) {
                    Ok(s) => streams.push(s),
                    Err(e) => ctx.machinery_error(e),
                }
            }
        }
    }
    // encoder self-consistency: every frame is 8-byte big-endian length + that many bytes of JSON
    for s in &streams {
        let mut off = 0;
        for (i, e) in s.ends.iter().enumerate() {
            let l = u64::from_be_bytes(s.bytes[off..off + 8].try_into().unwrap_or([0; 8])) as usize;
            if off + 8 + l != *e || std::str::from_utf8(&s.bytes[off + 8..*e]).ok() != Some(s.want[i].as_str()) {
                ctx.violation("encoder_frame_wrong", &format!("{:?} msgs {:?}: frame {i} is not header+json", s.side, s.msgs), json!({"side": format!("{:?}", s.side), "msgs": s.msgs, "cuts": []}));
            }
            off = *e;
        }
    }

    let mut evals = 0u64;
    let mut nontrivial = 0u64;
    let mut nbad = 0u64;
    let mut lens: Vec<usize> = Vec::new();
    for s in &streams {
        lens.push(s.bytes.len());
        for k in 0..=max_cuts {
            if k >= 3 && s.bytes.len() > 260 {
                // three cuts are enumerated on every stream of up to 260 bytes (all one- and
                // two-message streams and the shorter three-message ones)
                continue;
            }
            let total = binom((s.bytes.len() - 1) as u64, k as u64);
            let accs = product::par_run(
                product::ncpu(),
                total,
                2048,
                |_| (Acc::default(), Vec::with_capacity(4)),
                |(acc, cuts), idx| {
                    nth_cuts(idx, s.bytes.len(), k, cuts);
                    acc.evals += 1;
                    if let Some((key, what)) = check_stream(s, cuts) {
                        acc.nbad += 1;
                        if acc.bad.len() < 2 {
                            acc.bad.push((key, what, json!({"side": format!("{:?}", s.side), "msgs": s.msgs, "cuts": cuts})));
                        }
                    }
                },
            );
            for (a, _) in accs {
                evals += a.evals;
                nbad += a.nbad;
                if k > 0 {
                    nontrivial += a.evals;
                }
                for (key, what, case) in a.bad {
                    ctx.violation(&key, &what, case);
                }
            }
        }
        // an empty read between any two bytes changes nothing (decode called with no new data)
        for p in 1..s.bytes.len() {
            evals += 1;
            if let Some((key, what)) = check_stream(s, &[p, p]) {
                nbad += 1;
                ctx.violation(&format!("empty_read:{key}"), &what, json!({"side": format!("{:?}", s.side), "msgs": s.msgs, "cuts": [p, p]}));
            }
        }
    }

    // ---- limits (single frames and the second frame of a pair)
    let mut limit_cases = 0u64;
    for s in streams.iter().filter(|s| s.msgs.len() <= 2) {
        let first_len = s.ends[0] - 8;
        let last_len = s.ends[s.ends.len() - 1] - if s.ends.len() > 1 { s.ends[s.ends.len() - 2] } else { 0 } - 8;
        let biggest = std::cmp::max(first_len, last_len);
        for (limit, must_ok) in [(biggest - 1, false), (biggest, true), (biggest + 1, true)] {
            limit_cases += 1;
            // whole stream in one read and byte-by-byte
            let every: Vec<usize> = (1..s.bytes.len()).collect();
            for cuts in [Vec::new(), every] {
                let r = feed(s.side, &s.bytes, &cuts, limit);
                match (r, must_ok) {
                    (Ok((got, _, left)), true) => {
                        if got != s.want || left != 0 {
                            nbad += 1;
                            ctx.violation("limit_accepts_wrongly", &format!("{:?} msgs {:?} with frame limit {limit}: decoded {:?}", s.side, s.msgs, got), json!({"side": format!("{:?}", s.side), "msgs": s.msgs, "cuts": cuts, "limit": limit}));
                        }
                    }
                    (Err(e), true) => {
                        nbad += 1;
                        ctx.violation("frame_within_limit_rejected", &format!("{:?} msgs {:?}: frame of {biggest} bytes rejected with limit {limit}: {e}", s.side, s.msgs), json!({"side": format!("{:?}", s.side), "msgs": s.msgs, "cuts": cuts, "limit": limit}));
                    }
                    (Ok((got, _, _)), false) => {
                        nbad += 1;
                        ctx.violation("oversize_frame_accepted", &format!("{:?} msgs {:?}: a frame of {biggest} bytes was accepted with limit {limit} (decoded {} frames)", s.side, s.msgs, got.len()), json!({"side": format!("{:?}", s.side), "msgs": s.msgs, "cuts": cuts, "limit": limit}));
                    }
                    (Err(_), false) => {}
                }
            }
        }
    }
    // headers alone
    for side in [Side::Supplier, Side::Consumer] {
        let limit = 64usize;
        // every proper prefix of a header: wait
        for n in 0..8 {
            limit_cases += 1;
            let hdr = (10u64).to_be_bytes();
            match feed(side, &hdr[..n], &[], limit) {
                Ok((got, _, left)) if got.is_empty() && left == n => {}
                other => {
                    nbad += 1;
                    ctx.violation("partial_header_not_waited_for", &format!("{side:?}: {n} header bytes gave {other:?}"), json!({"side": format!("{side:?}"), "header_bytes": n}));
                }
            }
        }
        // zero length: rejected, with and without following bytes
        for extra in [0usize, 1, 5] {
            limit_cases += 1;
            let mut b = 0u64.to_be_bytes().to_vec();
            b.extend(std::iter::repeat(b'x').take(extra));
            if feed(side, &b, &[], limit).is_ok() {
                nbad += 1;
                ctx.violation("empty_frame_accepted", &format!("{side:?}: a zero-length frame (+{extra} bytes) was not rejected"), json!({"side": format!("{side:?}"), "extra": extra}));
            }
        }
        // larger than the limit: rejected as soon as the header is complete (never buffered)
        for declared in [limit as u64 + 1, 1 << 20, 1 << 40, u64::MAX] {
            for extra in [0usize, 3] {
                limit_cases += 1;
                let mut b = declared.to_be_bytes().to_vec();
                b.extend(std::iter::repeat(b'x').take(extra));
                if feed(side, &b, &[], limit).is_ok() {
                    nbad += 1;
                    ctx.violation("oversize_header_buffered", &format!("{side:?}: a header declaring {declared} bytes (limit {limit}) with {extra} body bytes present was not rejected"), json!({"side": format!("{side:?}"), "declared": declared, "extra": extra}));
                }
            }
        }
        // a frame whose declared length cuts the JSON short, or runs into the next frame: rejected
        // or at least never decoded as the original message
        for (delta, name) in [(-1i64, "short"), (1, "long")] {
            limit_cases += 1;
            if let Ok(s) = build_stream(side, &[0, 0]) {
                let mut b = s.bytes.clone();
                let l = u64::from_be_bytes(b[0..8].try_into().unwrap_or([0; 8])) as i64 + delta;
                b[0..8].copy_from_slice(&(l as u64).to_be_bytes());
                if let Ok((got, _, _)) = feed(side, &b, &[], BIG) {
                    if got == s.want {
                        nbad += 1;
                        ctx.violation("corrupt_length_ignored", &format!("{side:?}: first frame's length altered ({name}) yet the original sequence was decoded"), json!({"side": format!("{side:?}"), "delta": delta}));
                    }
                }
            }
        }
    }

    ctx.set("evaluations", evals + limit_cases);
    ctx.set("distinct_nontrivial", nontrivial);
    ctx.set("rule", format!("every sequence of 1..={max_msgs} messages (3 request kinds for the supplier-side decoder, 4 response kinds for the consumer-side decoder) encoded back to back by the real encoder; every set of <= {max_cuts} cut positions strictly inside the byte stream (each is a distinct fragmentation; three cuts only on streams of <= 260 bytes), plus an empty read at every position; non-trivial = at least one cut"));
    ctx.set("streams", streams.len() as u64);
    ctx.set("stream_lengths_min_max", json!([lens.iter().min(), lens.iter().max()]));
    ctx.set("limit_cases", limit_cases);
    ctx.set("mismatches", nbad);
    ctx.set("exhaustive", true);
    for s in streams.iter().filter(|s| s.msgs.len() == 2).take(3) {
        ctx.sample(json!({"side": format!("{:?}", s.side), "msgs": s.msgs, "stream_len": s.bytes.len(), "frame_ends": s.ends, "example_cuts": [3, s.ends[0] - 1]}));
    }
    ctx.assume("the decoder is driven as tokio_util's Framed drives it: decode() after every read until it returns None");
    ctx.assume("message payloads are small (frames of 6..200 bytes); payload size enters the codec only through the length header, whose comparisons are exercised by the limit cases");
    ctx.finish();
}
