//! C23 — searches never disclose what the caller may not read.
//!
//! E1 product on a real server: sets of generated search profiles (receiver group x target scope
//! x attribute list) on top of the shipped ones x group memberships of the caller x a filter
//! alphabet (equality / presence terms on readable and unreadable attributes, AND / OR / AND-NOT
//! shapes) x requested attribute lists, through the access-checked `search_ext` and `exists`.
//! Each profile set is installed in a forked copy of one template server.
//!
//! Reference (written from the statement): the grants are read from the RAW access control
//! profile entries stored in the directory (built-in and generated alike) — receiver groups or
//! entry-manager receivers against the caller's memberships, target scope against the entry.
//! For every returned entry: it is live; at least one grant applies; the filter is definitely
//! true when every term on an attribute the caller may not read for that entry is treated as
//! unknown (three-valued logic); every returned attribute is granted and was requested.

use crate::acpfx::{group_entry, Acp};
use crate::idmfx::person_uuid;
use crate::srv::{self, Srv};
use kanidm_proto::internal::Filter as ProtoFilter;
use kanidmd_lib::entry::{Entry, EntryCommitted, EntryInit, EntryNew, EntrySealed};
use kanidmd_lib::event::{ExistsEvent, SearchEvent};
use kanidmd_lib::prelude::*;
use kv_engine::forkdfs::fork_eval;
use kv_engine::{Ctx, Level};
use serde_json::json;
use std::collections::BTreeSet;
use std::sync::Arc;

type SE = Arc<Entry<EntrySealed, EntryCommitted>>;

const G1: u128 = 0xac23_0000_0000_4000_8000_0000_0000_0001;
const G2: u128 = 0xac23_0000_0000_4000_8000_0000_0000_0002;
const ACP0: u128 = 0xac23_0000_0000_4000_8000_0000_0000_0100;
const ACTOR: usize = 0;

// ---- generated profiles
#[derive(Clone, Debug)]
struct Prof {
    recv: u128,
    scope: usize, // 0 class=person, 1 name=t1, 2 memberof=G2
    attrs: Vec<&'static str>,
}
fn scope_proto(s: usize) -> ProtoFilter {
    match s {
        0 => ProtoFilter::Eq("class".into(), "person".into()),
        1 => ProtoFilter::Eq("name".into(), "t1".into()),
        _ => ProtoFilter::Eq("memberof".into(), Uuid::from_u128(G2).to_string()),
    }
}
fn profiles() -> Vec<Prof> {
    let mut v = Vec::new();
    for recv in [G1, G2] {
        for scope in 0..3 {
            for attrs in [vec!["name"], vec!["name", "mail"], vec!["displayname"], vec!["class", "name", "uuid"]] {
                v.push(Prof { recv, scope, attrs });
            }
        }
    }
    v
}

// ---- filter alphabet with three-valued evaluation
#[derive(Clone, Debug)]
enum F {
    Eq(&'static str, &'static str),
    Pres(&'static str),
    And(Vec<F>),
    Or(Vec<F>),
    Not(Box<F>),
}
fn to_fc(f: &F) -> FC {
    match f {
        F::Eq(a, v) => {
            let attr = Attribute::from(*a);
            let pv = match *a {
                "name" => PartialValue::new_iname(v),
                "mail" => PartialValue::EmailAddress(v.to_string()),
                "class" => PartialValue::new_iutf8(v),
                _ => PartialValue::new_utf8s(v),
            };
            FC::Eq(attr, pv)
        }
        F::Pres(a) => FC::Pres(Attribute::from(*a)),
        F::And(v) => FC::And(v.iter().map(to_fc).collect()),
        F::Or(v) => FC::Or(v.iter().map(to_fc).collect()),
        F::Not(b) => FC::AndNot(Box::new(to_fc(b))),
    }
}
/// Some(true/false) or None = unknown (a term on an attribute that may not be read)
fn kleene(f: &F, e: &SE, readable: &BTreeSet<String>) -> Option<bool> {
    let vals = |a: &str| -> Vec<String> { e.get_ava_set(Attribute::from(a)).map(|v| v.to_proto_string_clone_iter().collect()).unwrap_or_default() };
    match f {
        F::Eq(a, v) => {
            if !readable.contains(*a) {
                return None;
            }
            Some(vals(a).iter().any(|x| x.eq_ignore_ascii_case(v)))
        }
        F::Pres(a) => {
            if !readable.contains(*a) {
                return None;
            }
            Some(!vals(a).is_empty())
        }
        F::And(v) => {
            let rs: Vec<Option<bool>> = v.iter().map(|x| kleene(x, e, readable)).collect();
            if rs.iter().any(|r| *r == Some(false)) {
                Some(false)
            } else if rs.iter().any(|r| r.is_none()) {
                None
            } else {
                Some(true)
            }
        }
        F::Or(v) => {
            let rs: Vec<Option<bool>> = v.iter().map(|x| kleene(x, e, readable)).collect();
            if rs.iter().any(|r| *r == Some(true)) {
                Some(true)
            } else if rs.iter().any(|r| r.is_none()) {
                None
            } else {
                Some(false)
            }
        }
        F::Not(b) => kleene(b, e, readable).map(|x| !x),
    }
}
fn filters() -> Vec<F> {
    use F::*;
    let person = || Eq("class", "person");
    vec![
        Eq("name", "t1"),
        Eq("name", "t2"),
        Eq("mail", "m1@example.com"),
        Eq("mail", "m2@example.com"),
        Eq("displayname", "d1"),
        Pres("mail"),
        Pres("displayname"),
        Pres("name"),
        person(),
        And(vec![person(), Pres("mail")]),
        And(vec![person(), Eq("mail", "m1@example.com")]),
        And(vec![Eq("name", "t1"), Eq("displayname", "d1")]),
        Or(vec![Eq("name", "t1"), Eq("mail", "m2@example.com")]),
        Or(vec![Eq("mail", "m1@example.com"), Eq("displayname", "d2")]),
        Or(vec![Eq("name", "t3"), Pres("mail")]),
        And(vec![person(), Not(Box::new(Eq("mail", "m1@example.com")))]),
        And(vec![person(), Not(Box::new(Pres("mail")))]),
        And(vec![Pres("name"), Not(Box::new(Eq("displayname", "d1")))]),
        And(vec![person(), Or(vec![Eq("mail", "m1@example.com"), Eq("name", "t3")])]),
        Or(vec![And(vec![person(), Not(Box::new(Pres("mail")))]), Eq("name", "t1")]),
    ]
}
fn attr_requests() -> Vec<Option<Vec<String>>> {
    vec![None, Some(vec!["name".into()]), Some(vec!["mail".into(), "displayname".into()])]
}

// ---- fixture
struct Tpl {
    srv: Srv,
}
fn template() -> Tpl {
    let srv = Srv::new();
    let r = srv.write(srv::t(10), |w| {
        let mut ps = Vec::new();
        for (i, (n, mail, dn)) in [("actor", None, "actor"), ("t1", Some("m1@example.com"), "d1"), ("t2", Some("m2@example.com"), "d2"), ("t3", None, "d3"), ("binned", Some("m4@example.com"), "d4"), ("dead", Some("m5@example.com"), "d5")].iter().enumerate() {
            let mut e: Entry<EntryInit, EntryNew> = Entry::new();
            e.add_ava(Attribute::Class, EntryClass::Object.to_value());
            e.add_ava(Attribute::Class, EntryClass::Account.to_value());
            e.add_ava(Attribute::Class, EntryClass::Person.to_value());
            e.add_ava(Attribute::Uuid, Value::Uuid(person_uuid(i)));
            e.add_ava(Attribute::Name, Value::new_iname(n));
            e.add_ava(Attribute::DisplayName, Value::new_utf8s(dn));
            if let Some(m) = mail {
                e.add_ava(Attribute::Mail, Value::new_email_address_primary_s(m).unwrap_or_else(|| Value::new_utf8s("x")));
            }
            ps.push(e);
        }
        w.internal_create(ps)?;
        w.internal_create(vec![group_entry("g1", Uuid::from_u128(G1), &[]), group_entry("g2", Uuid::from_u128(G2), &[person_uuid(2)])])?;
        w.internal_delete_uuid(person_uuid(5))
    });
    if let Err(e) = r {
        kv_engine::ctx::machinery_exit(&format!("C23 setup: {e:?}"));
    }
    let r = srv.write(srv::t(20 + RECYCLEBIN_MAX_AGE), |w| w.purge_recycled().map(|_| ()));
    if let Err(e) = r {
        kv_engine::ctx::machinery_exit(&format!("C23 setup (tombstone): {e:?}"));
    }
    let r = srv.write(srv::t(30 + RECYCLEBIN_MAX_AGE), |w| w.internal_delete_uuid(person_uuid(4)));
    if let Err(e) = r {
        kv_engine::ctx::machinery_exit(&format!("C23 setup (recycle): {e:?}"));
    }
    Tpl { srv }
}
fn now() -> Duration {
    srv::t(40 + RECYCLEBIN_MAX_AGE)
}

struct RawAcp {
    name: String,
    receiver_groups: Vec<Uuid>,
    entry_manager: bool,
    target: Option<ProtoFilter>,
    attrs: BTreeSet<String>,
}

fn load_raw_acps(r: &mut QueryServerReadTransaction<'_>) -> Vec<RawAcp> {
    let es = r.internal_search(Filter::new(f_eq(Attribute::Class, EntryClass::AccessControlSearch.into()))).unwrap_or_default();
    es.iter()
        .map(|e| RawAcp {
            name: e.get_ava_set(Attribute::Name).and_then(|n| n.to_proto_string_clone_iter().next()).unwrap_or_default(),
            receiver_groups: e.get_ava_as_refuuid(Attribute::AcpReceiverGroup).map(|i| i.collect()).unwrap_or_default(),
            entry_manager: e.attribute_equality(Attribute::Class, &EntryClass::AccessControlReceiverEntryManager.into()),
            target: e.get_ava_single_protofilter(Attribute::AcpTargetScope).cloned(),
            attrs: e.get_ava_set(Attribute::AcpSearchAttr).map(|v| v.to_proto_string_clone_iter().collect()).unwrap_or_default(),
        })
        .collect()
}

/// attributes of `e` the actor may read according to the raw profiles
fn readable(r: &mut QueryServerReadTransaction<'_>, acps: &[RawAcp], actor: &SE, ident: &Identity, e: &SE) -> (BTreeSet<String>, Vec<String>) {
    let mut groups: BTreeSet<Uuid> = actor.get_ava_as_refuuid(Attribute::MemberOf).map(|i| i.collect()).unwrap_or_default();
    groups.insert(actor.get_uuid());
    let mut out = BTreeSet::new();
    let mut by = Vec::new();
    for a in acps {
        let recv = a.receiver_groups.iter().any(|g| groups.contains(g)) || (a.entry_manager && e.get_ava_as_refuuid(Attribute::EntryManagedBy).map(|mut i| i.any(|u| groups.contains(&u))).unwrap_or(false));
        if !recv {
            continue;
        }
        let Some(t) = &a.target else { continue };
        // the target scope is matched with the server's own filter engine (its correctness is the
        // subject of C01/C02); the profile LOGIC is what this reference re-derives
        let m = Filter::from_ro(ident, t, r).ok().and_then(|f| f.validate(r.get_schema()).ok()).and_then(|f| f.resolve(ident, None, None).ok()).map(|f| e.entry_match_no_index(&f)).unwrap_or(false);
        if m {
            out.extend(a.attrs.iter().cloned());
            by.push(a.name.clone());
        }
    }
    // built-in visibility rule (server/access/profiles.rs): the right to read memberof implies the
    // right to read directmemberof
    if out.contains("memberof") {
        out.insert("directmemberof".into());
    }
    (out, by)
}

/// child: install the set, run everything, return violation lines `key\x02what` and a counters line
fn run_set(t: &Tpl, set: &[usize], quick: bool) -> String {
    let profs = profiles();
    let r = t.srv.write(now(), |w| {
        let es: Vec<Entry<EntryInit, EntryNew>> = set
            .iter()
            .map(|i| {
                let p = &profs[*i];
                Acp { name: format!("gen{i}"), uuid: Uuid::from_u128(ACP0 + *i as u128), receiver_group: Uuid::from_u128(p.recv), target: Some(scope_proto(p.scope)), search_attrs: p.attrs.iter().map(|a| Attribute::from(*a)).collect(), ..Default::default() }.to_entry()
            })
            .collect();
        if !es.is_empty() {
            w.internal_create(es)?;
        }
        Ok(())
    });
    if let Err(e) = r {
        return format!("machinery:install:{e:?}");
    }
    let mut viol: Vec<String> = Vec::new();
    let (mut evals, mut returned, mut nontrivial) = (0u64, 0u64, 0u64);
    let fs = filters();
    let memberships: Vec<(bool, bool)> = if quick { vec![(false, false), (true, false), (true, true)] } else { vec![(false, false), (true, false), (false, true), (true, true)] };
    for (m1, m2) in memberships {
        let r = t.srv.write(now(), |w| {
            for (g, m) in [(G1, m1), (G2, m2)] {
                let ml = if m { ModifyList::new_list(vec![Modify::Present(Attribute::Member, Value::Refer(person_uuid(ACTOR)))]) } else { ModifyList::new_list(vec![Modify::Removed(Attribute::Member, PartialValue::Refer(person_uuid(ACTOR)))]) };
                w.internal_modify_uuid(Uuid::from_u128(g), &ml)?;
            }
            Ok(())
        });
        if let Err(e) = r {
            return format!("machinery:membership:{e:?}");
        }
        t.srv.read(|r| {
            let acps = load_raw_acps(r);
            let Ok(actor) = r.internal_search_uuid(person_uuid(ACTOR)) else {
                viol.push("machinery:no actor\u{2}".into());
                return;
            };
            let ident = Identity::from_impersonate_entry_readwrite(actor.clone()).project_with_scope(AccessScope::ReadOnly);
            let live: Vec<SE> = r.internal_search(Filter::new(f_pres(Attribute::Class))).unwrap_or_default();
            let dead: BTreeSet<Uuid> = [person_uuid(4), person_uuid(5)].into_iter().collect();
            for f in &fs {
                for ar in attr_requests() {
                    evals += 1;
                    let filt = Filter::new_ignore_hidden(to_fc(f));
                    let se = match SearchEvent::from_internal_message(ident.clone(), &filt, ar.as_deref(), r) {
                        Ok(se) => se,
                        Err(e) => {
                            viol.push(format!("machinery:search event {e:?}\u{2}"));
                            continue;
                        }
                    };
                    let res = match r.search_ext(&se) {
                        Ok(v) => v,
                        Err(_) => continue, // an explicit refusal discloses nothing
                    };
                    let ctxs = format!("memberships g1={m1} g2={m2}, filter {f:?}, requested {ar:?}");
                    for re in &res {
                        returned += 1;
                        let u = re.get_uuid();
                        if dead.contains(&u) {
                            viol.push(format!("dead_entry_returned\u{2}{ctxs}: a recycled / tombstoned entry {u} was returned"));
                            continue;
                        }
                        let Some(full) = live.iter().find(|x| x.get_uuid() == u) else {
                            viol.push(format!("unknown_entry_returned\u{2}{ctxs}: entry {u} is not a live entry"));
                            continue;
                        };
                        let (allowed, by) = readable(r, &acps, &actor, &ident, full);
                        if allowed.is_empty() {
                            viol.push(format!("entry_without_grant\u{2}{ctxs}: entry {u} returned but no profile grants the caller anything on it"));
                            continue;
                        }
                        if !allowed.iter().all(|a| ["class", "uuid", "name", "spn"].contains(&a.as_str())) || by.iter().any(|b| b.starts_with("gen")) {
                            nontrivial += 1;
                        }
                        match kleene(f, full, &allowed) {
                            Some(true) => {}
                            other => viol.push(format!("revealed_through_unreadable_term\u{2}{ctxs}: entry {u} returned although the filter is {} once terms on unreadable attributes are unknown (readable: {allowed:?} via {by:?})", if other.is_none() { "not decidable" } else { "false" })),
                        }
                        for (a, _) in re.get_ava_iter() {
                            if !allowed.contains(a.as_str()) {
                                viol.push(format!("attribute_without_grant:{a}\u{2}{ctxs}: entry {u} came back with attribute {a}, readable set is {allowed:?} via {by:?}"));
                            }
                            if let Some(req) = &ar {
                                if !req.iter().any(|x| x == a.as_str()) {
                                    viol.push(format!("unrequested_attribute:{a}\u{2}{ctxs}: entry {u} came back with attribute {a} that was not requested"));
                                }
                            }
                        }
                    }
                    // existence check
                    if ar.is_none() {
                        evals += 1;
                        if let Ok(fv) = Filter::new(to_fc(f)).validate(r.get_schema()) {
                            let ee = ExistsEvent { ident: ident.clone(), filter: fv.clone().into_ignore_hidden(), filter_orig: fv };
                            if let Ok(true) = r.exists(&ee) {
                                let justified = live.iter().any(|x| {
                                    let (allowed, _) = readable(r, &acps, &actor, &ident, x);
                                    !allowed.is_empty() && kleene(f, x, &allowed) == Some(true)
                                });
                                if !justified {
                                    viol.push(format!("exists_leaks\u{2}{ctxs}: exists() answered true although no entry the caller may see definitely matches"));
                                }
                            }
                        }
                    }
                }
            }
        });
    }
    viol.sort();
    viol.dedup_by(|a, b| a.split('\u{2}').next() == b.split('\u{2}').next());
    format!("C|{evals}|{returned}|{nontrivial}\n{}", viol.join("\n"))
}

pub fn run(args: &[String]) -> ! {
    let mut ctx = Ctx::new("C23", Level::Exploration, args);
    let t = template();
    let profs = profiles();
    let n = profs.len();
    let mut sets: Vec<Vec<usize>> = vec![vec![]];
    for i in 0..n {
        sets.push(vec![i]);
    }
    // pairs: union of attribute grants from different receivers / scopes
    let pairs: Vec<(usize, usize)> = if ctx.thorough() { (0..n).flat_map(|i| (i + 1..n).map(move |j| (i, j))).collect() } else { vec![(0, 14), (1, 6), (2, 13), (3, 22), (5, 18), (8, 21), (0, 2), (9, 11)] };
    for (i, j) in pairs {
        sets.push(vec![i, j]);
    }
    if let Some(r) = ctx.replay.clone() {
        let set: Vec<usize> = r["case"]["profiles"].as_array().map(|a| a.iter().filter_map(|x| x.as_u64()).map(|x| x as usize).collect()).unwrap_or_default();
        sets = vec![set];
    }
    let quick = ctx.quick();
    let (mut evals, mut returned, mut nontrivial, mut nbad) = (0u64, 0u64, 0u64, 0u64);
    for set in &sets {
        let out = match fork_eval(|| run_set(&t, set, quick)) {
            Ok(s) => s,
            Err(e) => {
                ctx.machinery_error(format!("profile set {set:?}: {e}"));
                continue;
            }
        };
        if out.starts_with("machinery:") {
            ctx.machinery_error(format!("profile set {set:?}: {out}"));
            continue;
        }
        for line in out.lines() {
            if let Some(rest) = line.strip_prefix("C|") {
                let p: Vec<u64> = rest.split('|').filter_map(|x| x.parse().ok()).collect();
                if p.len() == 3 {
                    evals += p[0];
                    returned += p[1];
                    nontrivial += p[2];
                }
                continue;
            }
            if line.is_empty() {
                continue;
            }
            let (k, what) = line.split_once('\u{2}').unwrap_or((line, ""));
            if k.starts_with("machinery:") {
                ctx.machinery_error(format!("set {set:?}: {k}"));
                continue;
            }
            nbad += 1;
            let names: Vec<String> = set.iter().map(|i| format!("{:?}", profs[*i])).collect();
            ctx.violation(k, &format!("with generated profiles {names:?}: {what}"), json!({"profiles": set}));
        }
    }
    if returned == 0 {
        ctx.machinery_error("vacuous: no search returned anything".into());
    }
    ctx.set("evaluations", evals);
    ctx.set("distinct_nontrivial", nontrivial);
    ctx.set("profile_sets", sets.len() as u64);
    ctx.set("rule", format!("profile sets (none, each of {n} generated search profiles = 2 receiver groups x 3 target scopes x 4 attribute lists, and pairs: all in thorough / 8 chosen in quick) on top of the shipped profiles x caller memberships of the two receiver groups x 20 filters (equality / presence on name, mail, displayname, class; AND, OR, AND-NOT, nested) x 3 requested-attribute lists, through search_ext and exists as a read-only identity. Non-trivial = a returned entry whose grant involves a generated profile or an attribute beyond class/uuid/name/spn"));
    ctx.set("mismatches", nbad);
    ctx.set("exhaustive", true);
    ctx.sample(json!({"profile": format!("{:?}", profs[1]), "filter": format!("{:?}", filters()[10]), "requested": ["mail", "displayname"]}));
    ctx.sample(json!({"profile": format!("{:?}", profs[8]), "filter": format!("{:?}", filters()[15]), "requested": null}));
    ctx.assume("soundness only, as the statement is phrased: nothing outside the grants is returned; entries that could have been returned but were not are not judged");
    ctx.assume("target scopes of raw profiles are matched against entries with the server's own filter matcher; receiver and attribute logic is re-derived independently from the raw profile entries");
    ctx.assume("LDAP search and compare go through the same access path and are exercised in C40");
    ctx.finish();
}
