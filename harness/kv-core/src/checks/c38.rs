//! C38 — OAuth2 authorisation happens only on registered terms.
//!
//! E1: every client configuration x every request of a small alphabet is put to the real
//! `check_oauth2_authorisation` (and, for granted requests, through the real consent -> permit ->
//! token exchange chain) and compared with a reference predicate written from the statement.

use crate::idmfx::{Idm, PW_GOOD};
use crate::o2fx::{self, auth_request, Client, Pkce};
use crate::srv;
use kanidm_proto::oauth2::{AccessTokenRequest, AuthorisationRequest, GrantTypeReq};
use kanidmd_lib::idm::authentication::ClientAuthInfo;
use kanidmd_lib::idm::oauth2::{AuthorisationRequestContext, AuthoriseResponse, Oauth2Error};
use kanidmd_lib::prelude::*;
use kv_engine::forkdfs::fork_eval;
use kv_engine::{Ctx, Level};
use serde_json::json;
use std::collections::BTreeSet;

const REGISTERED: &str = "https://demo.example.com/oauth2/result";
const REGISTERED_Q: &str = "https://portal.example.com/?custom=foo";
const APP_URI: &str = "app://cheese";

fn clients() -> Vec<Client> {
    let mut v = Vec::new();
    let mut n = 0u128;
    for (public, allow_localhost, pkce_disabled) in [(false, false, false), (false, false, true), (true, false, false), (true, true, false)] {
        for main_scopes in [vec!["openid"], vec!["openid", "email"]] {
            for (extra_map, sup_map) in [(false, false), (true, true)] {
                n += 1;
                v.push(Client {
                    name: format!("client{n}"),
                    uuid: Uuid::from_u128(0x0c38_0000_0000_4000_8000_0000_0000_0000 + n),
                    public,
                    allow_localhost,
                    pkce_disabled,
                    main_scopes: main_scopes.clone(),
                    extra_map,
                    sup_map,
                    redirects: vec![REGISTERED, REGISTERED_Q, APP_URI],
                    consent_prompt: true,
                    legacy_crypto: false,
                });
            }
        }
    }
    v
}

/// (label, uri, is it exactly one of the registered uris, is it a loopback uri)
fn redirects() -> Vec<(&'static str, &'static str, bool, bool)> {
    vec![
        ("registered", REGISTERED, true, false),
        ("registered-with-query", REGISTERED_Q, true, false),
        ("registered-app-uri", APP_URI, true, false),
        // (the landing page of a client is one of its registered uris)
        ("landing-page", "https://demo.example.com/", true, false),
        ("other-path", "https://demo.example.com/oauth2/other", false, false),
        ("path-prefix", "https://demo.example.com/oauth2/result/more", false, false),
        ("trailing-slash", "https://demo.example.com/oauth2/result/", false, false),
        ("extra-query", "https://demo.example.com/oauth2/result?x=1", false, false),
        ("query-changed", "https://portal.example.com/?custom=bar", false, false),
        ("fragment", "https://demo.example.com/oauth2/result#frag", false, false),
        ("other-host", "https://evil.example.net/oauth2/result", false, false),
        ("subdomain", "https://x.demo.example.com/oauth2/result", false, false),
        ("userinfo-trick", "https://demo.example.com@evil.example.net/oauth2/result", false, false),
        ("port", "https://demo.example.com:8443/oauth2/result", false, false),
        ("http-downgrade", "http://demo.example.com/oauth2/result", false, false),
        ("upper-case-host", "https://DEMO.example.com/oauth2/result", true, false),
        ("other-app-uri", "app://wine", false, false),
        ("localhost", "http://localhost:8080/cb", false, true),
        ("ipv4-loopback", "http://127.0.0.1:9999/", false, true),
        ("ipv6-loopback", "http://[::1]:1234/cb", false, true),
        ("localhost-lookalike", "http://localhost.evil.example.net/cb", false, false),
        ("ipv4-not-loopback", "http://128.0.0.1/cb", false, false),
    ]
}

fn scope_sets() -> Vec<BTreeSet<String>> {
    let all = ["openid", "email", "groups", "supplement", "bogus"];
    let mut v = Vec::new();
    for m in 1u32..(1 << all.len()) {
        if m.count_ones() <= 3 {
            v.push(all.iter().enumerate().filter(|(i, _)| m & (1 << i) != 0).map(|(_, s)| s.to_string()).collect());
        }
    }
    v
}

/// the statement, as a predicate: Ok(granted scopes) or Err(reason)
fn reference(c: &Client, registered_exact: bool, loopback: bool, who: Who, requested: &BTreeSet<String>, pkce: Pkce) -> Result<BTreeSet<String>, &'static str> {
    let redirect_ok = registered_exact || (c.public && c.allow_localhost && loopback);
    if !redirect_ok {
        return Err("redirect uri not registered");
    }
    let pkce_required = c.public || !c.pkce_disabled;
    if pkce == Pkce::Absent && pkce_required {
        return Err("pkce required");
    }
    let (in_main, in_extra, in_sup) = match who {
        Who::Nobody => return Err("not authenticated"),
        Who::Anonymous => return Err("anonymous"),
        Who::User(i) => (i & 1 != 0, i & 2 != 0, i & 4 != 0),
    };
    let held = c.held(in_main, in_extra);
    if !requested.is_subset(&held) {
        return Err("scope not held");
    }
    let mut granted = requested.clone();
    if in_sup && c.sup_map {
        granted.insert("supplement".to_string());
    }
    Ok(granted)
}

#[derive(Clone, Copy, Debug, PartialEq, Eq)]
enum Who {
    Nobody,
    Anonymous,
    User(usize),
}

fn run_all(_quick: bool, only: Option<&serde_json::Value>) -> String {
    let cs = clients();
    let idm: Idm = match o2fx::build(&cs, 8) {
        Ok(i) => i,
        Err(e) => return json!({"machinery": e}).to_string(),
    };
    let ct = srv::t(100);
    // identities: real logins
    let mut idents: Vec<(Who, Option<Identity>)> = vec![(Who::Nobody, None)];
    for i in 0..8 {
        match idm.login_pw(&o2fx::user_name(i), PW_GOOD, false, ct).ok().flatten().and_then(|t| idm.present(&t, ct).ok()) {
            Some(id) => idents.push((Who::User(i), Some(id))),
            None => return json!({"machinery": format!("user{i} could not log in")}).to_string(),
        }
    }
    // anonymous
    {
        use kanidm_proto::v1::{AuthCredential, AuthIssueSession, AuthMech, AuthStep};
        use kanidmd_lib::idm::authentication::AuthState;
        let r = idm.auth_step(None, AuthStep::Init2 { username: "anonymous".into(), issue: AuthIssueSession::Token, privileged: false }, ct);
        let tok = r.ok().and_then(|r| {
            let sid = r.sessionid;
            idm.auth_step(Some(sid), AuthStep::Begin(AuthMech::Anonymous), ct).ok()?;
            match idm.auth_step(Some(sid), AuthStep::Cred(AuthCredential::Anonymous), ct).ok()?.state {
                AuthState::Success(t, _) => Some(*t),
                _ => None,
            }
        });
        match tok.and_then(|t| idm.present(&t, ct).ok()) {
            Some(id) => idents.push((Who::Anonymous, Some(id))),
            None => return json!({"machinery": "anonymous could not log in"}).to_string(),
        }
    }
    let reds = redirects();
    let scopes = scope_sets();
    let (mut evals, mut granted_n, mut chains) = (0u64, 0u64, 0u64);
    let mut bad: Vec<serde_json::Value> = Vec::new();
    let mut samples: Vec<serde_json::Value> = Vec::new();
    let mut reasons: std::collections::BTreeMap<String, u64> = Default::default();
    let ctxa = AuthorisationRequestContext::default();
    for (ci, c) in cs.iter().enumerate() {
        for (ri, (rlabel, ruri, exact, loopback)) in reds.iter().enumerate() {
            let Ok(url) = Url::parse(ruri) else { continue };
            for (si, sc) in scopes.iter().enumerate() {
                for pk in [Pkce::Absent, Pkce::S256] {
                    for (who, ident) in &idents {
                        let case = json!({"client": ci, "redirect": ri, "scopes": si, "pkce": format!("{pk:?}"), "who": format!("{who:?}")});
                        if let Some(o) = only {
                            if *o != case {
                                continue;
                            }
                        }
                        evals += 1;
                        let req: AuthorisationRequest = auth_request(&c.name, &url, sc, pk);
                        let got = idm.read(|r| r.check_oauth2_authorisation(ident.as_ref(), &req, &ctxa, ct));
                        let want = reference(c, *exact, *loopback, *who, sc, pk);
                        let describe = || format!("client {{public: {}, localhost allowed: {}, pkce disabled: {}, G_MAIN -> {:?}, extra map: {}, sup map: {}}}, redirect `{ruri}` ({rlabel}), scopes {sc:?}, pkce {pk:?}, {who:?}", c.public, c.allow_localhost, c.pkce_disabled, c.main_scopes, c.extra_map, c.sup_map);
                        if evals % 997 == 1 && samples.len() < 6 {
                            samples.push(json!({"request": describe(), "answer": match &got { Ok(AuthoriseResponse::ConsentRequested { scopes, .. }) => format!("consent requested for {scopes:?}"), Ok(_) => "permitted / other".to_string(), Err(e) => format!("refused: {}", oe(e)) }}));
                        }
                        match (&got, &want) {
                            (Ok(AuthoriseResponse::ConsentRequested { scopes: g, consent_token, .. }), Ok(w)) => {
                                granted_n += 1;
                                let g: BTreeSet<String> = g.iter().cloned().collect();
                                if &g != w {
                                    bad.push(json!({"key": "granted_scopes_differ", "what": format!("{}: granted {g:?}, the statement gives {w:?}", describe()), "case": case}));
                                }
                                // the whole chain for the exact-redirect, S256 / absent cases of two scope sets
                                if *rlabel == "registered" && si < 3 {
                                    chains += 1;
                                    if let Some(id) = ident {
                                        let permit = idm.write(ct, |wtx| wtx.check_oauth2_authorise_permit(id, consent_token, ct));
                                        match permit {
                                            Ok(p) => {
                                                let secret = o2fx::basic_secret(&idm, c);
                                                let grant = GrantTypeReq::AuthorizationCode { code: p.code.clone(), redirect_uri: url.clone(), code_verifier: if pk == Pkce::S256 { Some(o2fx::VERIFIER.to_string()) } else { None } };
                                                let (cai, treq) = if c.public {
                                                    (ClientAuthInfo::new(Source::Internal, None, None, None), AccessTokenRequest { grant_type: grant, client_post_auth: (c.name.clone(), None).into() })
                                                } else {
                                                    (ClientAuthInfo::new(Source::Internal, None, None, Some(o2fx::b64(format!("{}:{}", c.name, secret.unwrap_or_default()).as_bytes()))), grant.into())
                                                };
                                                match idm.write(ct, |wtx| wtx.check_oauth2_token_exchange(&cai, &treq, ct).map_err(|e| OperationError::InvalidAttribute(format!("{e:?}")))) {
                                                    Ok(t) => {
                                                        if &t.scope != w {
                                                            bad.push(json!({"key": "token_scopes_differ", "what": format!("{}: the issued token carries {:?}, the statement gives {w:?}", describe(), t.scope), "case": case}));
                                                        }
                                                    }
                                                    Err(e) => bad.push(json!({"key": "granted_code_not_redeemable", "what": format!("{}: the code could not be redeemed: {e:?}", describe()), "case": case})),
                                                }
                                            }
                                            Err(e) => bad.push(json!({"key": "consent_not_permitted", "what": format!("{}: permit failed: {e:?}", describe()), "case": case})),
                                        }
                                    }
                                }
                            }
                            (Ok(AuthoriseResponse::Permitted(_)), Ok(_)) => granted_n += 1,
                            (Ok(AuthoriseResponse::ConsentRequested { .. }) | Ok(AuthoriseResponse::Permitted(_)), Err(why)) => {
                                bad.push(json!({"key": format!("authorised_against_the_terms:{}", why.replace(' ', "_")), "what": format!("{}: an authorisation was offered although: {why}", describe()), "case": case}));
                            }
                            (Ok(AuthoriseResponse::AuthenticationRequired { .. }), Err("not authenticated")) => {
                                *reasons.entry("authentication required".into()).or_insert(0) += 1;
                            }
                            (Ok(other), _) => {
                                let k = match other {
                                    AuthoriseResponse::AuthenticationRequired { .. } => "authentication_required",
                                    AuthoriseResponse::ReauthenticationRequired { .. } => "reauthentication_required",
                                    _ => "other",
                                };
                                if want.is_ok() {
                                    bad.push(json!({"key": format!("legitimate_request_not_authorised:{k}"), "what": format!("{}: answered {k} although every term is met", describe()), "case": case}));
                                } else {
                                    *reasons.entry(k.into()).or_insert(0) += 1;
                                }
                            }
                            (Err(e), Ok(_)) => {
                                bad.push(json!({"key": format!("legitimate_request_refused:{}", oe(e)), "what": format!("{}: refused with {} although every term is met", describe(), oe(e)), "case": case}));
                            }
                            (Err(e), Err(_)) => {
                                *reasons.entry(oe(e)).or_insert(0) += 1;
                            }
                        }
                    }
                }
            }
        }
    }
    json!({"samples": samples, "evals": evals, "granted": granted_n, "chains": chains, "bad": bad, "refusals": reasons, "clients": cs.len(), "redirects": reds.len(), "scope_sets": scopes.len()}).to_string()
}

fn oe(e: &Oauth2Error) -> String {
    format!("{e:?}").split('(').next().unwrap_or("").to_string()
}

pub fn run(args: &[String]) -> ! {
    let mut ctx = Ctx::new("C38", Level::Exploration, args);
    let quick = ctx.quick();
    let only = ctx.replay.as_ref().map(|r| r["case"].clone());
    let out = match fork_eval(|| run_all(quick, only.as_ref())) {
        Ok(o) => o,
        Err(e) => kv_engine::ctx::machinery_exit(&format!("C38: {e}")),
    };
    let v: serde_json::Value = serde_json::from_str(&out).unwrap_or_default();
    if let Some(m) = v.get("machinery") {
        ctx.machinery_error(m.to_string());
        ctx.finish();
    }
    for b in v["bad"].as_array().cloned().unwrap_or_default() {
        ctx.violation(b["key"].as_str().unwrap_or("?"), b["what"].as_str().unwrap_or(""), b["case"].clone());
    }
    for sm in v["samples"].as_array().cloned().unwrap_or_default() {
        ctx.sample(sm);
    }
    ctx.set("evaluations", v["evals"].as_u64().unwrap_or(0));
    ctx.set("distinct_nontrivial", v["granted"].as_u64().unwrap_or(0));
    ctx.set("full_chains_consent_permit_exchange", v["chains"].as_u64().unwrap_or(0));
    ctx.set("refusals_by_kind", v["refusals"].clone());
    ctx.set("rule", format!("{} client configurations (basic / basic without PKCE / public / public with localhost redirects; 2 scope maps; with and without a second scope map and a supplementary map) x {} redirect uris (4 registered incl. the landing page, 15 near misses and tricks, 3 loopback forms) x {} scope sets (<= 3 of openid, email, groups, supplement, bogus) x PKCE {{absent, S256}} x identities (nobody, anonymous, all 8 users by membership of the three groups)", v["clients"], v["redirects"], v["scope_sets"]));
    let _ = quick;
    ctx.set("exhaustive", true);
    ctx.assume("the reference is the statement: redirect exactly registered (or loopback for a public client that allows it), authenticated and not anonymous, every requested scope held through the scope maps, PKCE S256 present when required; granted = requested plus held supplementary scopes");
    ctx.assume("prompt / max_age handling (re-authentication) is not part of the alphabet; requests are made with a fresh session");
    ctx.finish();
}
