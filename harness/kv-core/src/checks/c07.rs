//! C07 — change identifiers strictly increase.
//!
//! E1: every sequence (bounded length) over the alphabet
//!   write transaction starting at {a time far in the past, the same time as the last one, one
//!   second later} x {committed, abandoned},  restart of the server on the same files at {a time
//!   far in the past, a later time}
//! run against a real QueryServer on a file-backed database. Oracle: the change identifier of
//! every committed transaction is strictly greater than that of every transaction the server
//! committed before (including the transactions the server itself performs while starting), the
//! identifier stamped on the entry it wrote is that identifier, and every stamp that appears
//! during a restart is greater than everything committed before the restart.

use crate::idmfx::{person_entry, person_uuid};
use crate::srv::{self, new_qs, new_rt};
use kanidmd_lib::prelude::*;
use kanidmd_lib::server::QueryServer;
use kanidmd_lib::verif_hooks::txn_cid;
use kv_engine::{product, Ctx, Level};
use serde_json::json;
use std::collections::BTreeSet;
use std::path::{Path, PathBuf};
use std::time::Duration;

const NOPS: u64 = 8;
const NAMES: [&str; 8] = ["write@past,commit", "write@past,abandon", "write@same,commit", "write@same,abandon", "write@later,commit", "write@later,abandon", "restart@past", "restart@later"];

fn copy_db(from: &Path, to: &Path) -> Result<(), String> {
    for suffix in ["", "-wal", "-shm"] {
        let f = PathBuf::from(format!("{}{suffix}", from.display()));
        let t = PathBuf::from(format!("{}{suffix}", to.display()));
        let _ = std::fs::remove_file(&t);
        if f.exists() {
            std::fs::copy(&f, &t).map_err(|e| format!("copy {f:?}: {e}"))?;
        }
    }
    Ok(())
}

fn stamps(rt: &tokio::runtime::Runtime, qs: &QueryServer) -> Result<BTreeSet<String>, String> {
    rt.block_on(async {
        let mut r = qs.read().await.map_err(|e| format!("read: {e:?}"))?;
        let es = r.internal_search(Filter::new(f_pres(Attribute::Class))).map_err(|e| format!("search: {e:?}"))?;
        let mut out = BTreeSet::new();
        for e in es {
            let s = srv::render_entry(&e, &[]);
            for part in s.split(';') {
                if let Some(v) = part.strip_prefix("last_modified_cid=").or_else(|| part.strip_prefix("created_at_cid=")) {
                    out.insert(v.to_string());
                }
            }
        }
        Ok(out)
    })
}

fn stamp_of(rt: &tokio::runtime::Runtime, qs: &QueryServer, u: Uuid) -> Result<String, String> {
    rt.block_on(async {
        let mut r = qs.read().await.map_err(|e| format!("read: {e:?}"))?;
        let e = r.internal_search_uuid(u).map_err(|e| format!("search: {e:?}"))?;
        let s = srv::render_entry(&e, &[]);
        Ok(s.split(';').find_map(|p| p.strip_prefix("last_modified_cid=")).unwrap_or("").to_string())
    })
}

struct Out {
    evals: u64,
    commits: u64,
    restarts: u64,
    bumped: u64,
    viols: Vec<(String, String, Vec<usize>)>,
    errs: Vec<String>,
}

/// run one sequence on a fresh copy of the template
fn run_seq(tpl: &Path, db: &Path, seq: &[usize], out: &mut Out) {
    if let Err(e) = copy_db(tpl, db) {
        out.errs.push(e);
        return;
    }
    let rt = new_rt();
    let far_past = Duration::from_secs(1_000);
    let mut last_ct = srv::t(100);
    let mut qs = match new_qs(Some(db), 2, DOMAIN_TGT_LEVEL, last_ct, &rt) {
        Ok(q) => q,
        Err(e) => {
            out.errs.push(format!("open: {e:?}"));
            return;
        }
    };
    let mut committed: BTreeSet<String> = match stamps(&rt, &qs) {
        Ok(s) => s,
        Err(e) => {
            out.errs.push(e);
            return;
        }
    };
    for (i, op) in seq.iter().enumerate() {
        let max_before = committed.iter().next_back().cloned().unwrap_or_default();
        let here = || seq[..=i].to_vec();
        if *op < 6 {
            let ct = match op / 2 {
                0 => far_past,
                1 => last_ct,
                _ => last_ct + Duration::from_secs(1),
            };
            let commit = op % 2 == 0;
            let r: Result<String, OperationError> = rt.block_on(async {
                let mut w = qs.write(ct).await?;
                let cid = format!("{}", txn_cid(&w));
                w.internal_modify_uuid(person_uuid(0), &ModifyList::new_purge_and_set(Attribute::Description, Value::new_utf8s(&format!("step {i}"))))?;
                if commit {
                    w.commit()?;
                }
                Ok(cid)
            });
            let cid = match r {
                Ok(c) => c,
                Err(OperationError::InvalidReplChangeId) => {
                    out.viols.push((format!("not_increasing:{}", NAMES[*op]), format!("step {i} ({}) was refused because its change identifier was not greater than one already committed (InvalidReplChangeId)", NAMES[*op]), here()));
                    return;
                }
                Err(e) => {
                    out.errs.push(format!("{:?}: write failed {e:?}", here()));
                    return;
                }
            };
            if ct > last_ct {
                last_ct = ct;
            }
            if commit {
                out.commits += 1;
                if ct <= Duration::from_nanos(max_before[..32].parse::<u128>().unwrap_or(0) as u64) {
                    out.bumped += 1;
                }
                if cid <= max_before {
                    out.viols.push((format!("not_increasing:{}", NAMES[*op]), format!("the transaction committed by step {i} ({}) got change identifier {cid}, not greater than {max_before} which this server had already committed", NAMES[*op]), here()));
                }
                match stamp_of(&rt, &qs, person_uuid(0)) {
                    Ok(s) if s == cid => {}
                    Ok(s) => out.viols.push((format!("stamp_differs:{}", NAMES[*op]), format!("step {i} ({}) ran as {cid} but the entry it wrote is stamped {s}", NAMES[*op]), here())),
                    Err(e) => out.errs.push(e),
                }
                committed.insert(cid);
            } else {
                // nothing of an abandoned transaction may be stamped anywhere
                match stamp_of(&rt, &qs, person_uuid(0)) {
                    Ok(s) if s == cid => out.viols.push((format!("abandoned_visible:{}", NAMES[*op]), format!("step {i} ({}) was abandoned but the entry carries its identifier {cid}", NAMES[*op]), here())),
                    Ok(_) => {}
                    Err(e) => out.errs.push(e),
                }
            }
        } else {
            out.restarts += 1;
            let at = if *op == 6 { far_past } else { last_ct + Duration::from_secs(1) };
            drop(qs);
            qs = match new_qs(Some(db), 2, DOMAIN_TGT_LEVEL, at, &rt) {
                Ok(q) => q,
                // the replication metadata refuses a change identifier that is not greater than
                // the ones it holds: the server tried to go backwards
                Err(OperationError::InvalidReplChangeId) => {
                    out.viols.push((format!("not_increasing:{}", NAMES[*op]), format!("step {i} ({}): the server could not start because the first change identifier it chose was not greater than one it had committed (InvalidReplChangeId)", NAMES[*op]), here()));
                    return;
                }
                Err(e) => {
                    out.errs.push(format!("{:?}: reopen: {e:?}", here()));
                    return;
                }
            };
            if at > last_ct {
                last_ct = at;
            }
            match stamps(&rt, &qs) {
                Ok(now) => {
                    for s in now.iter().filter(|s| !committed.contains(*s)) {
                        if *s <= max_before {
                            out.viols.push((format!("not_increasing:{}", NAMES[*op]), format!("during step {i} ({}) the server stamped {s}, not greater than {max_before} which it had committed before", NAMES[*op]), here()));
                        }
                    }
                    committed.extend(now);
                }
                Err(e) => out.errs.push(e),
            }
        }
    }
    drop(qs);
}

pub fn run(args: &[String]) -> ! {
    let mut ctx = Ctx::new("C07", Level::Exploration, args);
    let dir = ctx.scratch_dir_fast();
    let tpl = dir.join("template.db");
    {
        let rt = new_rt();
        let qs = new_qs(Some(&tpl), 2, DOMAIN_TGT_LEVEL, srv::t(0), &rt).unwrap_or_else(|e| kv_engine::ctx::machinery_exit(&format!("C07 template: {e:?}")));
        let r: Result<(), OperationError> = rt.block_on(async {
            let mut w = qs.write(srv::t(10)).await?;
            w.internal_create(vec![person_entry("subject", person_uuid(0))])?;
            w.commit()
        });
        if let Err(e) = r {
            kv_engine::ctx::machinery_exit(&format!("C07 template: {e:?}"));
        }
    }
    let depth = ctx.opt_u64("depth").unwrap_or(ctx.pick(3, 4)) as usize;
    let mut seqs: Vec<Vec<usize>> = Vec::new();
    if let Some(r) = ctx.replay.clone() {
        seqs.push(r["case"]["ops"].as_array().map(|a| a.iter().filter_map(|x| x.as_u64()).map(|x| x as usize).collect()).unwrap_or_default());
    } else {
        // only maximal sequences: every shorter one is a prefix of one of them and the oracle is
        // evaluated after every step
        let total = NOPS.pow(depth as u32);
        let radices = vec![NOPS; depth];
        for idx in 0..total {
            let mut v = vec![0usize; depth];
            product::decode(idx, &radices, &mut v);
            seqs.push(v);
        }
    }
    let threads = product::ncpu().min(16);
    let accs = product::par_run(
        threads,
        seqs.len() as u64,
        4,
        |t| (dir.join(format!("w{t}.db")), Out { evals: 0, commits: 0, restarts: 0, bumped: 0, viols: vec![], errs: vec![] }),
        |(db, out), i| {
            out.evals += 1;
            run_seq(&tpl, db, &seqs[i as usize], out);
        },
    );
    let (mut evals, mut commits, mut restarts, mut bumped) = (0, 0, 0, 0);
    for (_, o) in accs {
        evals += o.evals;
        commits += o.commits;
        restarts += o.restarts;
        bumped += o.bumped;
        for e in o.errs.into_iter().take(3) {
            ctx.machinery_error(e);
        }
        for (k, w, ops) in o.viols {
            let names: Vec<&str> = ops.iter().map(|o| NAMES[*o]).collect();
            ctx.violation(&k, &format!("{w}; sequence {names:?}"), json!({"ops": ops}));
        }
    }
    let _ = std::fs::remove_dir_all(&dir);
    for i in [0, seqs.len() / 2, seqs.len().saturating_sub(1)] {
        if let Some(sq) = seqs.get(i) {
            ctx.sample(json!({"operations": sq.iter().map(|o| NAMES[*o]).collect::<Vec<_>>()}));
        }
    }
    ctx.set("evaluations", evals);
    ctx.set("distinct_nontrivial", bumped);
    ctx.set("depth", depth as u64);
    ctx.set("committed_transactions_checked", commits);
    ctx.set("restarts", restarts);
    ctx.set("rule", "all sequences of the stated depth over 8 steps (write at a time far in the past / the same time / one second later, committed or abandoned; restart on the same files at a time far in the past / later); oracle after every step. Non-trivial = commits whose start time was not after the greatest committed identifier, i.e. where the server had to move the identifier forward itself");
    ctx.set("exhaustive", true);
    ctx.assume("identifiers are compared through their canonical 32-digit rendering (time in nanoseconds, then server id)");
    ctx.finish();
}
