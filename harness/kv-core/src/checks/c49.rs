//! C49 — accounts outside their validity window cannot authenticate anywhere.
//!
//! E1 product on a real IdmServer: 9 validity windows (valid-from absent / past / future x
//! expiry absent / past / future) x every front end x every asking identity. Each case runs in a
//! forked copy of one template server (person with primary, POSIX and RADIUS credentials, a
//! pre-issued login token; a service account with an API token; a RADIUS-server service
//! account). Oracle: outside the window no path yields a success, a token, or a secret; inside
//! the window every path works (vacuity guard).

use crate::idmfx::{person_entry, person_uuid, service_entry, Idm, PW_GOOD};
use crate::srv;
use compact_jwt::JwsCompact;
use kanidmd_lib::idm::event::{LdapAuthEvent, LdapTokenAuthEvent, RadiusAuthTokenEvent, RegenerateRadiusSecretEvent, UnixPasswordChangeEvent, UnixUserAuthEvent, UnixUserTokenEvent};
use kanidmd_lib::idm::serviceaccount::GenerateApiTokenEvent;
use kanidmd_lib::prelude::*;
use kanidmd_lib::verif_hooks::identity_internal;
use kv_engine::forkdfs::fork_eval;
use kv_engine::{Ctx, Level};
use serde_json::json;

const NOW: u64 = 5000;
const P: usize = 0; // person
const S: usize = 9; // service account with an API token
const R: usize = 8; // RADIUS server service account

#[derive(Clone, Copy, Debug, PartialEq, Eq)]
enum W {
    None,
    Past,
    Future,
}
const WS: [W; 3] = [W::None, W::Past, W::Future];

fn inside(vf: W, exp: W) -> bool {
    vf != W::Future && exp != W::Past
}

const PATHS: [&str; 12] = [
    "interactive_login",
    "posix_password_check",
    "ldap_password_bind",
    "ldap_token_bind_then_identity",
    "present_login_token",
    "radius_secret_as_self",
    "radius_secret_as_radius_server",
    "unix_user_token_valid_flag",
    "api_token_present(service account window)",
    "ldap_api_token_bind_then_identity(service account window)",
    "reauth_existing_session",
    "ldap_search_on_session_bound_before_the_window_changed",
];

struct Tpl {
    idm: Idm,
    uat: JwsCompact,
    apit: JwsCompact,
    rad_api: JwsCompact,
}

fn template() -> Tpl {
    let mut idm = Idm::new();
    let ct = srv::t(10);
    let die = |what: &str, e: OperationError| -> ! { kv_engine::ctx::machinery_exit(&format!("C49 setup: {what}: {e:?}")) };
    let mut e = person_entry("p0", person_uuid(P));
    e.add_ava(Attribute::Class, EntryClass::PosixAccount.to_value());
    if let Err(x) = idm.create(ct, e) {
        die("create person", x);
    }
    for (n, name) in [(S, "s0"), (R, "radsvc")] {
        if let Err(x) = idm.create(ct, service_entry(name, person_uuid(n))) {
            die("create service account", x);
        }
    }
    if let Err(x) = idm.set_primary(ct, person_uuid(P), PW_GOOD, false) {
        die("primary", x);
    }
    let r = idm.write(ct, |w| {
        let ent = w.qs_write.internal_search_uuid(person_uuid(P))?;
        let ident = Identity::from_impersonate_entry_readwrite(ent);
        w.set_unix_account_password(&UnixPasswordChangeEvent::from_parts(ident.clone(), person_uuid(P), PW_GOOD.to_string())?)?;
        w.regenerate_radius_secret(&RegenerateRadiusSecretEvent::from_parts(ident, person_uuid(P))?)?;
        // the RADIUS server account joins the shipped radius servers group; LDAP password binds on
        w.qs_write.internal_modify_uuid(UUID_IDM_RADIUS_SERVERS, &ModifyList::new_list(vec![Modify::Present(Attribute::Member, Value::Refer(person_uuid(R)))]))?;
        w.qs_write.internal_modify_uuid(UUID_DOMAIN_INFO, &ModifyList::new_purge_and_set(Attribute::LdapAllowUnixPwBind, Value::Bool(true)))
    });
    if let Err(x) = r {
        die("credentials", x);
    }
    let mk_api = |idm: &Idm, who: usize| -> JwsCompact {
        match idm.write(ct, |w| w.service_account_generate_api_token(&GenerateApiTokenEvent { ident: identity_internal(), target: person_uuid(who), label: "t".into(), expiry: None, read_write: false, compact: false }, ct)) {
            Ok(t) => t,
            Err(x) => die("api token", x),
        }
    };
    let apit = mk_api(&idm, S);
    let rad_api = mk_api(&idm, R);
    let uat = match idm.login_pw("p0", PW_GOOD, false, srv::t(NOW - 100)) {
        Ok(Some(t)) => t,
        other => kv_engine::ctx::machinery_exit(&format!("C49 setup: template login failed: {:?}", other.map(|o| o.is_some()))),
    };
    let _ = idm.pump(srv::t(NOW - 100));
    Tpl { idm, uat, apit, rad_api }
}

/// Runs in a forked child. Returns "granted" / "refused:<why>" / "machinery:<why>".
fn run_case(t: &Tpl, vf: W, exp: W, path: usize) -> String {
    let idm = &t.idm;
    let ct = srv::t(NOW);
    if PATHS[path] == "ldap_search_on_session_bound_before_the_window_changed" {
        return ldap_stateful(t, vf, exp);
    }
    // apply the window to the account the path is about
    let target = if PATHS[path].contains("service account window") { S } else { P };
    let mut mods = Vec::new();
    match vf {
        W::None => {}
        W::Past => mods.push(Modify::Present(Attribute::AccountValidFrom, Value::new_datetime_epoch(srv::t(NOW - 10)))),
        W::Future => mods.push(Modify::Present(Attribute::AccountValidFrom, Value::new_datetime_epoch(srv::t(NOW + 10)))),
    }
    match exp {
        W::None => {}
        W::Past => mods.push(Modify::Present(Attribute::AccountExpire, Value::new_datetime_epoch(srv::t(NOW - 10)))),
        W::Future => mods.push(Modify::Present(Attribute::AccountExpire, Value::new_datetime_epoch(srv::t(NOW + 10)))),
    }
    if !mods.is_empty() {
        if let Err(e) = idm.write(srv::t(NOW - 50), |w| w.qs_write.internal_modify_uuid(person_uuid(target), &ModifyList::new_list(mods))) {
            return format!("machinery:window:{e:?}");
        }
    }
    let grant = |b: bool, why: String| if b { "granted".to_string() } else { format!("refused:{why}") };
    let self_ident = || idm.entry(person_uuid(P)).map(Identity::from_impersonate_entry_readwrite);
    match PATHS[path] {
        "interactive_login" => match idm.login_pw("p0", PW_GOOD, false, ct) {
            Ok(Some(_)) => "granted".into(),
            Ok(None) => "refused:denied".into(),
            Err(e) => format!("refused:{e:?}"),
        },
        "posix_password_check" => {
            let r = idm.rt.block_on(async {
                let mut a = idm.idms.auth().await?;
                let r = a.auth_unix(&UnixUserAuthEvent::from_parts(identity_internal(), person_uuid(P), PW_GOOD.to_string())?, ct).await;
                a.commit()?;
                r
            });
            match r {
                Ok(Some(tok)) => grant(tok.valid, "token says invalid".into()),
                Ok(None) => "refused:none".into(),
                Err(e) => format!("refused:{e:?}"),
            }
        }
        "ldap_password_bind" => {
            let r = idm.rt.block_on(async {
                let mut a = idm.idms.auth().await?;
                let r = a.auth_ldap(&LdapAuthEvent::from_parts(person_uuid(P), PW_GOOD.to_string())?, ct).await;
                a.commit()?;
                r
            });
            match r {
                Ok(Some(_)) => "granted".into(),
                Ok(None) => "refused:none".into(),
                Err(e) => format!("refused:{e:?}"),
            }
        }
        "ldap_token_bind_then_identity" | "ldap_api_token_bind_then_identity(service account window)" => {
            let tok = if PATHS[path].starts_with("ldap_api") { t.apit.clone() } else { t.uat.clone() };
            let r = idm.rt.block_on(async {
                let mut a = idm.idms.auth().await?;
                let r = a.token_auth_ldap(&LdapTokenAuthEvent::from_parts(tok.clone())?, ct).await;
                a.commit()?;
                r
            });
            match r {
                // a bound token confers nothing by itself: what it allows is decided when the
                // LDAP session is turned into an identity for each operation, the same
                // validation the bearer-token path performs
                Ok(Some(_)) => match idm.present(&tok, ct) {
                    Ok(_) => "granted".into(),
                    Err(e) => format!("refused:bind accepted, identity refused: {e:?}"),
                },
                Ok(None) => "refused:none".into(),
                Err(e) => format!("refused:{e:?}"),
            }
        }
        "present_login_token" => match idm.present(&t.uat, ct) {
            Ok(_) => "granted".into(),
            Err(e) => format!("refused:{e:?}"),
        },
        "api_token_present(service account window)" => match idm.present(&t.apit, ct) {
            Ok(_) => "granted".into(),
            Err(e) => format!("refused:{e:?}"),
        },
        "radius_secret_as_self" | "radius_secret_as_radius_server" => {
            let ident = match PATHS[path] {
                "radius_secret_as_self" => match self_ident() {
                    Some(i) => i,
                    None => return "machinery:no person".into(),
                },
                "radius_secret_as_radius_server" => match idm.present(&t.rad_api, ct) {
                    Ok(i) => i,
                    Err(e) => return format!("machinery:radius server token rejected: {e:?}"),
                },
                _ => identity_internal(),
            };
            let r = idm.read(|r| RadiusAuthTokenEvent::from_parts(ident, person_uuid(P)).and_then(|ev| r.get_radiusauthtoken(&ev, ct)));
            match r {
                Ok(tok) => grant(!tok.secret.is_empty(), "empty secret".into()),
                Err(e) => format!("refused:{e:?}"),
            }
        }
        "unix_user_token_valid_flag" => {
            let r = idm.read(|r| UnixUserTokenEvent::from_parts(identity_internal(), person_uuid(P)).and_then(|ev| r.get_unixusertoken(&ev, ct)));
            match r {
                Ok(tok) => grant(tok.valid, "valid=false".into()),
                Err(e) => format!("refused:{e:?}"),
            }
        }
        "reauth_existing_session" => {
            use kanidm_proto::v1::{AuthCredential, AuthIssueSession, AuthStep};
            use kanidmd_lib::idm::authentication::{AuthState, ClientAuthInfo, ReauthRequest};
            let ident = match idm.present(&t.uat, ct) {
                Ok(i) => i,
                Err(e) => return format!("refused:token rejected: {e:?}"),
            };
            let r = idm.rt.block_on(async {
                let mut a = idm.idms.auth().await?;
                let r = a.reauth_init(ident, AuthIssueSession::Token, ct, ClientAuthInfo::new(Source::Internal, None, None, None), ReauthRequest::GrantReadWrite).await;
                a.commit()?;
                r
            });
            let sid = match r {
                Ok(ar) => match ar.state {
                    AuthState::Continue(_) => ar.sessionid,
                    AuthState::Success(..) => return "granted".into(),
                    _ => return "refused:not continued".into(),
                },
                Err(e) => return format!("refused:{e:?}"),
            };
            match idm.auth_step(Some(sid), AuthStep::Cred(AuthCredential::Password(PW_GOOD.to_string())), ct) {
                Ok(ar) => match ar.state {
                    AuthState::Success(..) => "granted".into(),
                    _ => "refused:denied".into(),
                },
                Err(e) => format!("refused:{e:?}"),
            }
        }
        other => format!("machinery:unknown path {other}"),
    }
}

/// One stateful LDAP connection: bind with the POSIX password while the account is valid, THEN the
/// window changes, then another operation on the same bound session. The LDAP gateway reads the
/// wall clock itself, so this path places the window edges one hour from the real time.
fn ldap_stateful(t: &Tpl, vf: W, exp: W) -> String {
    use kanidmd_lib::idm::ldap::{LdapResponseState, LdapServer};
    use ldap3_proto::proto::{LdapFilter, LdapOp, LdapResultCode, LdapSearchScope};
    use ldap3_proto::simple::{SearchRequest, ServerOps, SimpleBindRequest};
    let idm = &t.idm;
    let ls = match idm.rt.block_on(LdapServer::new(&idm.idms)) {
        Ok(l) => l,
        Err(e) => return format!("machinery:ldap server {e:?}"),
    };
    let ip = std::net::IpAddr::V4(std::net::Ipv4Addr::LOCALHOST);
    let tok = match idm.rt.block_on(ls.do_op(&idm.idms, ServerOps::SimpleBind(SimpleBindRequest { msgid: 1, dn: "name=p0,dc=example,dc=com".into(), pw: PW_GOOD.into() }), None, ip, Uuid::from_u128(1))) {
        Ok(LdapResponseState::Bind(tok, _)) => tok,
        _ => return "machinery:the bind before the window change failed".into(),
    };
    let real = std::time::SystemTime::now().duration_since(std::time::UNIX_EPOCH).unwrap_or_default();
    let hour = Duration::from_secs(3600);
    let mut mods = Vec::new();
    match vf {
        W::None => {}
        W::Past => mods.push(Modify::Present(Attribute::AccountValidFrom, Value::new_datetime_epoch(real - hour))),
        W::Future => mods.push(Modify::Present(Attribute::AccountValidFrom, Value::new_datetime_epoch(real + hour))),
    }
    match exp {
        W::None => {}
        W::Past => mods.push(Modify::Present(Attribute::AccountExpire, Value::new_datetime_epoch(real - hour))),
        W::Future => mods.push(Modify::Present(Attribute::AccountExpire, Value::new_datetime_epoch(real + hour))),
    }
    if !mods.is_empty() {
        if let Err(e) = idm.write(srv::t(NOW - 50), |w| w.qs_write.internal_modify_uuid(person_uuid(P), &ModifyList::new_list(mods))) {
            return format!("machinery:window:{e:?}");
        }
    }
    let r = idm.rt.block_on(ls.do_op(&idm.idms, ServerOps::Search(SearchRequest { msgid: 2, base: "dc=example,dc=com".into(), scope: LdapSearchScope::Subtree, filter: LdapFilter::Equality("name".into(), "p0".into()), attrs: vec!["name".into()] }), Some(tok), ip, Uuid::from_u128(2)));
    match r {
        Ok(LdapResponseState::MultiPartResponse(m)) => {
            let done_ok = m.iter().any(|x| matches!(&x.op, LdapOp::SearchResultDone(r) if r.code == LdapResultCode::Success));
            if done_ok { "granted".into() } else { "refused:search result not success".into() }
        }
        Ok(LdapResponseState::Respond(m)) => format!("refused:{:?}", m.op).chars().take(80).collect(),
        Ok(_) => "refused:other".into(),
        Err(e) => format!("refused:{e:?}"),
    }
}

pub fn run(args: &[String]) -> ! {
    let mut ctx = Ctx::new("C49", Level::Exploration, args);
    let t = template();
    let only: Option<(usize, usize, usize)> = ctx.replay.as_ref().map(|r| (r["case"]["valid_from"].as_u64().unwrap_or(0) as usize, r["case"]["expire"].as_u64().unwrap_or(0) as usize, r["case"]["path"].as_u64().unwrap_or(0) as usize));
    let (mut evals, mut nontrivial, mut nbad) = (0u64, 0u64, 0u64);
    let mut table: Vec<serde_json::Value> = Vec::new();
    for (vi, vf) in WS.iter().enumerate() {
        for (ei, exp) in WS.iter().enumerate() {
            for (pi, pname) in PATHS.iter().enumerate() {
                if let Some(o) = only {
                    if o != (vi, ei, pi) {
                        continue;
                    }
                }
                evals += 1;
                let res = match fork_eval(|| run_case(&t, *vf, *exp, pi)) {
                    Ok(s) => s,
                    Err(e) => {
                        ctx.machinery_error(format!("case {vf:?}/{exp:?}/{pname}: {e}"));
                        continue;
                    }
                };
                if res.starts_with("machinery:") {
                    // the RADIUS server's own API token must work whatever the person's window is
                    ctx.machinery_error(format!("case {vf:?}/{exp:?}/{pname}: {res}"));
                    continue;
                }
                let ok = inside(*vf, *exp);
                if !ok {
                    nontrivial += 1;
                }
                let granted = res == "granted";
                let case = json!({"valid_from": vi, "expire": ei, "path": pi, "window": format!("valid_from={vf:?} expire={exp:?}"), "path_name": pname, "result": res});
                if granted && !ok {
                    nbad += 1;
                    ctx.violation(&format!("granted_outside_window:{pname}"), &format!("{pname} succeeded for an account with valid_from={vf:?} expire={exp:?} (relative to now)"), case.clone());
                }
                if !granted && ok {
                    ctx.machinery_error(format!("vacuity guard: {pname} is refused INSIDE the window valid_from={vf:?} expire={exp:?}: {res}"));
                }
                table.push(json!([format!("{vf:?}/{exp:?}"), pname, if granted { "granted" } else { "refused" }]));
                if evals % 11 == 3 {
                    ctx.sample(case);
                }
            }
        }
    }
    ctx.set("evaluations", evals);
    ctx.set("distinct_nontrivial", nontrivial);
    ctx.set("rule", "product of 9 validity windows (valid-from and expiry each absent, 10 s in the past, 10 s in the future) x 12 paths (interactive login, POSIX password check, LDAP password bind, LDAP token bind + identity, presenting an earlier login token, RADIUS secret asked by the account itself / by a member of the RADIUS servers group through its API token, the POSIX user token's valid flag, API token presentation and LDAP API-token bind with the window on the service account, re-authentication of an existing session, and a search on an LDAP session that was bound before the window changed). Non-trivial = the window excludes now");
    ctx.set("paths", json!(PATHS));
    ctx.set("mismatches", nbad);
    ctx.set("exhaustive", true);
    ctx.assume("window edges are 10 s away from the evaluation instant (the statement does not fix the boundary instant itself)");
    ctx.assume("OAuth2 authorisation / refresh for out-of-window accounts are checked in the OAuth2 world (C39)");
    ctx.finish();
}
