//! Properties decided on the KEYS world: C34 (revoked keys never verify) and the replicated
//! half of C11 (a key revocation any replica made is never lost by merging).

use crate::worlds::keys::{Cfg, Keys, Op};
use kv_engine::forkdfs::{self, Opts};
use kv_engine::{Ctx, Level};
use serde_json::json;

pub fn worlds_for(id: &str, quick: bool) -> Vec<(&'static str, Cfg, u8)> {
    if id == "C34" {
        let mut v = vec![(
            // one token under the first key, a rotation, one token under the second key, all
            // replicated: revocations on either replica, further rotation, replication, reload
            "two-keys-two-tokens",
            Cfg { login_on: vec![0], rotate_on: vec![0], revoke_on: vec![0, 1], long_tick: false, max_tokens: 3, max_rotations: 2, pre_ops: vec![Op::Login(0), Op::Rotate(0, 0), Op::Login(0), Op::Repl(0, 1)], reload: true },
            if quick { 2 } else { 4 },
        )];
        if !quick {
            v.push(("from-scratch", Cfg { login_on: vec![0, 1], rotate_on: vec![0, 1], revoke_on: vec![0, 1], long_tick: false, max_tokens: 2, max_rotations: 2, pre_ops: vec![], reload: true }, 4));
            v.push(("future-rotation", Cfg { login_on: vec![0], rotate_on: vec![0], revoke_on: vec![0], long_tick: false, max_tokens: 3, max_rotations: 1, pre_ops: vec![Op::Login(0), Op::Rotate(0, 1)], reload: false }, 4));
        }
        v
    } else {
        let mut v = vec![(
            // two keys that are already older than the changelog window: revocations on both
            // replicas and merges in both directions
            "old-keys-revocations-merges",
            Cfg { login_on: vec![], rotate_on: vec![], revoke_on: vec![0, 1], long_tick: false, max_tokens: 2, max_rotations: 1, pre_ops: vec![Op::Login(0), Op::Rotate(0, 0), Op::Login(0), Op::Repl(0, 1), Op::Repl(1, 0), Op::TickLong, Op::Repl(0, 1), Op::Repl(1, 0)], reload: false },
            if quick { 3 } else { 4 },
        )];
        if !quick {
            v.push((
                "revocations-merges-window",
                Cfg { login_on: vec![], rotate_on: vec![], revoke_on: vec![0, 1], long_tick: true, max_tokens: 2, max_rotations: 1, pre_ops: vec![Op::Login(0), Op::Rotate(0, 0), Op::Login(0), Op::Repl(0, 1), Op::Repl(1, 0)], reload: false },
                5,
            ));
        }
        v
    }
}

/// run the KEYS worlds of property `id` into `ctx`; returns whether any world was capped
pub fn run_worlds(ctx: &mut Ctx, id: &str, budget_s: f64) -> bool {
    let ws = worlds_for(id, ctx.quick());
    let mut summary = Vec::new();
    let mut capped_any = false;
    let per = budget_s / ws.len() as f64;
    for (name, cfg, depth) in &ws {
        let depth = ctx.opt_u64("depth").map(|d| d as u8).unwrap_or(*depth);
        let mut w = Keys::new(cfg.clone());
        let opts = Opts { depth, procs: 2, deadline_s: per, log2_slots: 22, dedup: true, max_samples: 3, par_depth: 1 };
        let rep = forkdfs::run_into_ctx(ctx, &mut w, &opts, name);
        capped_any |= rep.capped;
        summary.push(json!({"world": name, "depth": depth, "states": rep.states, "transitions": rep.transitions, "capped": rep.capped, "pre_ops": format!("{:?}", cfg.pre_ops), "outcomes": rep.outcomes.keys().collect::<Vec<_>>() }));
    }
    ctx.set("key_worlds", json!(summary));
    capped_any
}

pub fn replay(ctx: &mut Ctx, id: &str) -> bool {
    let Some(r) = ctx.replay.clone() else { return false };
    let name = r["case"]["world"].as_str().unwrap_or("").to_string();
    let ws = worlds_for(id, ctx.quick());
    let Some((_, cfg, _)) = ws.iter().find(|(n, _, _)| *n == name).or_else(|| None) else { return false };
    let mut w = Keys::new(cfg.clone());
    match forkdfs::replay(&mut w, &r["case"]["trace"]) {
        Ok(v) => {
            for (k, what) in v {
                println!("{k}: {what}");
                ctx.violation(&k, &what, r["case"].clone());
            }
        }
        Err(e) => ctx.machinery_error(e),
    }
    true
}

pub fn run(args: &[String]) -> ! {
    let mut ctx = Ctx::new("C34", Level::ModelChecking, args);
    if ctx.replay.is_some() {
        // thorough worlds are a superset: look the world up there
        if !replay(&mut ctx, "C34") {
            ctx.machinery_error("replay names an unknown world".into());
        }
        ctx.finish();
    }
    let budget = if ctx.quick() { 25.0 } else { 1200.0 };
    let mut capped = run_worlds(&mut ctx, "C34", budget);
    // OAuth2 client key objects (ES256, and RS256 with the client's legacy switch): an issued
    // access token, then revocation of the key that signed it, refreshes and time
    {
        use crate::worlds::oauth::{Cfg as OCfg, Mutation, OAuthW, Op as OOp};
        let mut summary = Vec::new();
        for (name, legacy) in [("oauth2-client-key-es256", false), ("oauth2-client-key-rs256", true)] {
            let cfg = OCfg { clients: vec![0], max_codes: 1, max_sets: 3, lifecycle: false, ticks: vec![0], pre_ops: vec![OOp::Authorise(0, 1), OOp::Exchange(0, Mutation::None)], legacy_crypto: legacy, key_revocation: true, cred_replacement: false, only_keys: vec![] };
            let depth = if ctx.quick() { 2 } else { 4 };
            let mut w = OAuthW::new(cfg);
            let opts = Opts { depth, procs: 2, deadline_s: if ctx.quick() { 12.0 } else { 300.0 }, log2_slots: 22, dedup: true, max_samples: 2, par_depth: 1 };
            let rep = forkdfs::run_into_ctx(&mut ctx, &mut w, &opts, name);
            capped |= rep.capped;
            summary.push(json!({"world": name, "depth": depth, "states": rep.states, "transitions": rep.transitions, "capped": rep.capped, "outcomes": rep.outcomes.keys().collect::<Vec<_>>()}));
        }
        ctx.set("oauth2_key_worlds", json!(summary));
    }
    ctx.set("exhaustive", !capped);
    if capped {
        ctx.assume("the wall-clock cap was hit in at least one world: that world is complete only below the stated depth");
    }
    ctx.assume("the artefacts are login tokens (JWS ES256 signed by the domain key object) on two replicas, and OAuth2 access tokens signed by a client's key object (ES256, and RS256 with the legacy switch) on one server; the JWE and HKDF usages are not driven");
    ctx.assume("acceptance is the real validate_client_auth_info_to_ident on each replica and on a server restored from a backup of the replica's database");
    ctx.finish();
}
