//! C25 — default roles cannot act on high-privilege accounts.
//!
//! E1 product on a default-initialised server with ONLY the shipped access controls: the acting
//! user is made a member of every subset of the built-in groups that are not (transitively)
//! inside the high-privilege group (discovered at run time from the group entries, so a new
//! built-in group is picked up), and then tries every action of an alphabet of credential,
//! session, account-detail, membership, delete and credential-update-session requests against
//! high-privilege targets (a person in idm_admins, a person directly in the high-privilege group,
//! a service account in a high-privilege role, a user-made group nested in the high-privilege
//! group). Oracle: nothing about the target changes and no credential update session / reset
//! link is granted. A vacuity pass shows that every action is well formed: a fully privileged
//! actor can perform it on ordinary targets.

use crate::acpfx::{group_entry, ident_of};
use crate::idmfx::{person_entry, person_uuid, service_entry, Idm};
use crate::srv;
use kanidm_lib_crypto::CryptoPolicy;
use kanidmd_lib::credential::Credential;
use kanidmd_lib::event::{DeleteEvent, ModifyEvent};
use kanidmd_lib::idm::credupdatesession::{InitCredentialUpdateEvent, InitCredentialUpdateIntentEvent};
use kanidmd_lib::prelude::*;
use kv_engine::forkdfs::fork_eval;
use kv_engine::{Ctx, Level};
use serde_json::json;
use std::collections::BTreeSet;

const ACTOR: usize = 0;
const PLAIN: usize = 1;
const HP_ADMIN: usize = 2; // member of idm_admins
const HP_DIRECT: usize = 3; // direct member of idm_high_privilege
const HP_SVC: usize = 4; // service account in idm_service_desk
const PLAIN_SVC: usize = 5;
const HP_GROUP: u128 = 0xac25_0000_0000_4000_8000_0000_0000_0001; // user-made group inside idm_high_privilege
const PLAIN_GROUP: u128 = 0xac25_0000_0000_4000_8000_0000_0000_0002;

fn now() -> Duration {
    srv::t(100)
}

#[derive(Clone, Debug)]
enum Act {
    Modify(&'static str, fn() -> ModifyList<ModifyInvalid>),
    Delete,
    CredSession,
    ResetLink,
}

fn odt(n: u64) -> Value {
    Value::new_datetime_epoch(srv::t(n))
}

fn actions() -> Vec<Act> {
    fn ml(v: Vec<Modify>) -> ModifyList<ModifyInvalid> {
        ModifyList::new_list(v)
    }
    vec![
        // the two session-granting requests come first and the delete last: actions that succeed
        // (only in the vacuity pass) commit, and later actions see their effects
        Act::CredSession,
        Act::ResetLink,
        Act::Modify("purge primary credential", || ml(vec![Modify::Purged(Attribute::PrimaryCredential)])),
        Act::Modify("import a password", || ml(vec![Modify::Present(Attribute::PasswordImport, Value::new_utf8s("{SSHA512}JwrSUHkI7FTAfHRVR6KoFlSN0E3dmaQWARjZ+/UsShYlENOqDtFVU77HJLLrY2MuSp0jve52+pwtdVl2QUAHukQ0XUf5LDtM"))])),
        Act::Modify("purge passkeys", || ml(vec![Modify::Purged(Attribute::PassKeys)])),
        Act::Modify("purge unix password", || ml(vec![Modify::Purged(Attribute::UnixPassword)])),
        Act::Modify("purge radius secret", || ml(vec![Modify::Purged(Attribute::RadiusSecret)])),
        Act::Modify("add ssh key", || ml(vec![Modify::Present(Attribute::SshPublicKey, Value::new_sshkey_str("k1", "ssh-ed25519 AAAAC3NzaC1lZDI1NTE5AAAAIAeGW1P6Pvt5FBkQmHvPAyzrdNnk5zZOAkSK+mQyNXp4 test").unwrap_or_else(|_| Value::new_utf8s("x")))])),
        Act::Modify("purge login sessions", || ml(vec![Modify::Purged(Attribute::UserAuthTokenSession)])),
        Act::Modify("purge oauth2 sessions", || ml(vec![Modify::Purged(Attribute::OAuth2Session)])),
        Act::Modify("purge api tokens", || ml(vec![Modify::Purged(Attribute::ApiTokenSession)])),
        Act::Modify("rename", || ModifyList::new_purge_and_set(Attribute::Name, Value::new_iname("renamed"))),
        Act::Modify("set displayname", || ModifyList::new_purge_and_set(Attribute::DisplayName, Value::new_utf8s("changed"))),
        Act::Modify("set legalname", || ModifyList::new_purge_and_set(Attribute::LegalName, Value::new_utf8s("changed"))),
        Act::Modify("set mail", || ModifyList::new_purge_and_set(Attribute::Mail, Value::new_email_address_primary_s("changed@example.com").unwrap_or_else(|| Value::new_utf8s("x")))),
        Act::Modify("expire the account", || ModifyList::new_purge_and_set(Attribute::AccountExpire, odt(50))),
        Act::Modify("set valid-from", || ModifyList::new_purge_and_set(Attribute::AccountValidFrom, odt(5_000_000))),
        Act::Modify("add posix account class", || ml(vec![Modify::Present(Attribute::Class, EntryClass::PosixAccount.to_value())])),
        Act::Modify("set login shell", || ModifyList::new_purge_and_set(Attribute::LoginShell, Value::new_iutf8("/bin/zsh"))),
        Act::Modify("add the actor as member", || ml(vec![Modify::Present(Attribute::Member, Value::Refer(person_uuid(ACTOR)))])),
        Act::Modify("purge members", || ml(vec![Modify::Purged(Attribute::Member)])),
        Act::Modify("take over entry management", || ModifyList::new_purge_and_set(Attribute::EntryManagedBy, Value::Refer(person_uuid(ACTOR)))),
        Act::Modify("set description", || ModifyList::new_purge_and_set(Attribute::Description, Value::new_utf8s("changed"))),
        Act::Delete,
    ]
}

fn act_name(a: &Act) -> String {
    match a {
        Act::Modify(n, _) => n.to_string(),
        Act::Delete => "delete".into(),
        Act::CredSession => "open a credential update session".into(),
        Act::ResetLink => "create a credential reset link".into(),
    }
}

struct Tpl {
    idm: Idm,
    role_groups: Vec<(Uuid, String)>,
    hp_groups: Vec<(Uuid, String)>,
}

fn template() -> Tpl {
    let idm = Idm::new();
    let die = |what: &str, e: OperationError| -> ! { kv_engine::ctx::machinery_exit(&format!("C25 setup: {what}: {e:?}")) };
    let pol = CryptoPolicy::minimum();
    let r = idm.write(srv::t(10), |w| {
        let mut es = Vec::new();
        for (i, n) in [(ACTOR, "actor"), (PLAIN, "plain"), (HP_ADMIN, "hpadmin"), (HP_DIRECT, "hpdirect")] {
            let mut e = person_entry(n, person_uuid(i));
            let cred = Credential::new_password_only(&pol, "x7#Kp!mQ2$vL-correct-horse", time::OffsetDateTime::UNIX_EPOCH)?;
            e.add_ava(Attribute::PrimaryCredential, Value::new_credential("primary", cred));
            e.add_ava(Attribute::Mail, Value::new_email_address_primary_s(&format!("{n}@example.com")).unwrap_or_else(|| Value::new_utf8s("x")));
            es.push(e);
        }
        es.push(service_entry("hpsvc", person_uuid(HP_SVC)));
        es.push(service_entry("plainsvc", person_uuid(PLAIN_SVC)));
        es.push(group_entry("hpgroup", Uuid::from_u128(HP_GROUP), &[person_uuid(HP_DIRECT)]));
        es.push(group_entry("plaingroup", Uuid::from_u128(PLAIN_GROUP), &[person_uuid(PLAIN)]));
        w.qs_write.internal_create(es)?;
        let add = |w: &mut kanidmd_lib::idm::server::IdmServerProxyWriteTransaction<'_>, g: Uuid, m: Uuid| w.qs_write.internal_modify_uuid(g, &ModifyList::new_list(vec![Modify::Present(Attribute::Member, Value::Refer(m))]));
        add(w, UUID_IDM_ADMINS, person_uuid(HP_ADMIN))?;
        add(w, UUID_IDM_HIGH_PRIVILEGE, person_uuid(HP_DIRECT))?;
        add(w, UUID_IDM_HIGH_PRIVILEGE, Uuid::from_u128(HP_GROUP))?;
        add(w, UUID_IDM_SERVICE_DESK, person_uuid(HP_SVC))?;
        // an ordinary group the actor is the entry manager of (a legitimate delegation)
        w.qs_write.internal_modify_uuid(Uuid::from_u128(PLAIN_GROUP), &ModifyList::new_list(vec![Modify::Present(Attribute::EntryManagedBy, Value::Refer(person_uuid(ACTOR)))]))?;
        // things to take away: a login session, an API token, POSIX password, RADIUS secret
        use kanidmd_lib::server::identity::IdentityId;
        use kanidmd_lib::value::{ApiToken, ApiTokenScope, AuthType, Session, SessionScope, SessionState};
        let at = time::OffsetDateTime::UNIX_EPOCH + srv::t(11);
        for p in [PLAIN, HP_ADMIN, HP_DIRECT] {
            let sess = Value::Session(Uuid::from_u128(0xac25_5e55_0000_4000_8000_0000_0000_0000 + p as u128), Session { label: "s".into(), state: SessionState::NeverExpires, issued_at: at, issued_by: IdentityId::User(person_uuid(p)), cred_id: Uuid::from_u128(7), scope: SessionScope::ReadOnly, type_: AuthType::Password, ext_metadata: Default::default() });
            let cred = Credential::new_password_only(&pol, "x7#Kp!mQ2$vL-correct-horse", time::OffsetDateTime::UNIX_EPOCH)?;
            let mut mods = vec![Modify::Present(Attribute::UserAuthTokenSession, sess), Modify::Present(Attribute::RadiusSecret, Value::new_secret_str("radius-secret-value-000"))];
            if p != HP_DIRECT {
                mods.push(Modify::Present(Attribute::Class, EntryClass::PosixAccount.to_value()));
                mods.push(Modify::Present(Attribute::UnixPassword, Value::new_credential("unix", cred)));
            }
            w.qs_write.internal_modify_uuid(person_uuid(p), &ModifyList::new_list(mods))?;
        }
        for p in [PLAIN_SVC, HP_SVC] {
            let tok = Value::ApiToken(Uuid::from_u128(0xac25_a910_0000_4000_8000_0000_0000_0000 + p as u128), ApiToken { label: "t".into(), expiry: None, issued_at: at, issued_by: IdentityId::Internal(Uuid::from_u128(1)), scope: ApiTokenScope::ReadOnly });
            w.qs_write.internal_modify_uuid(person_uuid(p), &ModifyList::new_list(vec![Modify::Present(Attribute::ApiTokenSession, tok)]))?;
        }
        Ok(())
    });
    if let Err(e) = r {
        die("population", e);
    }
    // built-in groups, split by whether they sit inside the high-privilege group
    let (mut role_groups, mut hp_groups) = (Vec::new(), Vec::new());
    idm.read(|r| {
        let gs = r.qs_read.internal_search(Filter::new(f_and(vec![f_eq(Attribute::Class, EntryClass::Group.into()), f_eq(Attribute::Class, EntryClass::Builtin.into())]))).unwrap_or_default();
        for g in gs {
            let name = g.get_ava_set(Attribute::Name).and_then(|n| n.to_proto_string_clone_iter().next()).unwrap_or_default();
            let in_hp = g.get_uuid() == UUID_IDM_HIGH_PRIVILEGE || g.get_ava_as_refuuid(Attribute::MemberOf).map(|mut i| i.any(|u| u == UUID_IDM_HIGH_PRIVILEGE)).unwrap_or(false);
            if in_hp {
                hp_groups.push((g.get_uuid(), name));
            } else {
                role_groups.push((g.get_uuid(), name));
            }
        }
    });
    role_groups.sort();
    hp_groups.sort();
    Tpl { idm, role_groups, hp_groups }
}

fn render(idm: &Idm, u: Uuid) -> String {
    idm.read(|r| r.qs_read.internal_search_all_uuid(u).map(|e| srv::render_entry(&e, &[Attribute::LastModifiedCid, Attribute::CreatedAtCid])).unwrap_or_else(|_| "<absent>".into()))
}

/// child: put the actor into `groups`, then try every action on every target; one line per
/// (target, action): `ti|ai|label|changed`
fn run_actor(t: &Tpl, groups: &[Uuid], targets: &[(Uuid, &'static str)]) -> String {
    let idm = &t.idm;
    let mut joined = Vec::new();
    for g in groups {
        let r = idm.write(now(), |w| w.qs_write.internal_modify_uuid(*g, &ModifyList::new_list(vec![Modify::Present(Attribute::Member, Value::Refer(person_uuid(ACTOR)))])));
        joined.push(r.is_ok());
    }
    let mut out = vec![format!("J|{}", joined.iter().map(|b| if *b { "1" } else { "0" }).collect::<String>())];
    // the actor must not have become high privilege through these groups
    let actor_hp = idm.read(|r| r.qs_read.internal_search_uuid(person_uuid(ACTOR)).map(|e| e.get_ava_as_refuuid(Attribute::MemberOf).map(|mut i| i.any(|u| u == UUID_IDM_HIGH_PRIVILEGE)).unwrap_or(false)).unwrap_or(false));
    out.push(format!("H|{actor_hp}"));
    let acts = actions();
    for (ti, (target, _)) in targets.iter().enumerate() {
        for (ai, a) in acts.iter().enumerate() {
          // the request selects the target alone, or together with an entry the actor may
          // legitimately change (its own entry; a group it manages)
          let companions: Vec<(Option<Uuid>, &str)> = if matches!(a, Act::Modify(..) | Act::Delete) { vec![(None, ""), (Some(person_uuid(ACTOR)), "[+self] "), (Some(Uuid::from_u128(PLAIN_GROUP)), "[+managed] ")] } else { vec![(None, "")] };
          for (companion, tag) in companions {
            let selector = || match companion {
                None => Filter::new(f_eq(Attribute::Uuid, PartialValue::Uuid(*target))),
                Some(c) => Filter::new(f_or(vec![f_eq(Attribute::Uuid, PartialValue::Uuid(*target)), f_eq(Attribute::Uuid, PartialValue::Uuid(c))])),
            };
            let before = render(idm, *target);
            let (label, granted): (String, bool) = match a {
                Act::Modify(_, mk) => {
                    let r = idm.rt.block_on(async {
                        let mut w = idm.idms.proxy_write(now()).await?;
                        let id = ident_of(&mut w.qs_write, person_uuid(ACTOR), AccessScope::ReadWrite)?;
                        let me = ModifyEvent::from_internal_parts(id, &mk(), &selector(), &w.qs_write)?;
                        let r = w.qs_write.modify(&me);
                        if r.is_ok() {
                            w.commit()?;
                        }
                        r
                    });
                    (format!("{r:?}").chars().take(30).collect(), false)
                }
                Act::Delete => {
                    let r = idm.rt.block_on(async {
                        let mut w = idm.idms.proxy_write(now()).await?;
                        let id = ident_of(&mut w.qs_write, person_uuid(ACTOR), AccessScope::ReadWrite)?;
                        let de = DeleteEvent::from_parts(id, &selector(), &mut w.qs_write)?;
                        let r = w.qs_write.delete(&de);
                        if r.is_ok() {
                            w.commit()?;
                        }
                        r
                    });
                    (format!("{r:?}").chars().take(30).collect(), false)
                }
                Act::CredSession => {
                    let ident = idm.entry(person_uuid(ACTOR)).map(Identity::from_impersonate_entry_readwrite);
                    match ident {
                        Some(id) => {
                            let r = idm.write(now(), |w| w.init_credential_update(&InitCredentialUpdateEvent::new(id, *target), now()).map(|_| ()));
                            (format!("{r:?}").chars().take(30).collect(), r.is_ok())
                        }
                        None => ("machinery:no actor".into(), false),
                    }
                }
                Act::ResetLink => {
                    let ident = idm.entry(person_uuid(ACTOR)).map(Identity::from_impersonate_entry_readwrite);
                    match ident {
                        Some(id) => {
                            let r = idm.write(now(), |w| w.init_credential_update_intent(&InitCredentialUpdateIntentEvent::new(id, *target, Some(Duration::from_secs(600))), now()).map(|_| ()));
                            (format!("{r:?}").chars().take(30).collect(), r.is_ok())
                        }
                        None => ("machinery:no actor".into(), false),
                    }
                }
            };
            let after = render(idm, *target);
            // a reset link is stored on the target: that is the grant itself, judged by `granted`
            let changed = before != after && !matches!(a, Act::ResetLink | Act::CredSession);
            out.push(format!("{ti}|{ai}|{tag}{label}|{}", changed || granted));
          }
        }
    }
    out.join("\n")
}

pub fn run(args: &[String]) -> ! {
    let mut ctx = Ctx::new("C25", Level::Exploration, args);
    let t = template();
    let acts = actions();
    let hp_targets: Vec<(Uuid, &'static str)> = vec![(person_uuid(HP_ADMIN), "person in idm_admins"), (person_uuid(HP_DIRECT), "person directly in idm_high_privilege"), (person_uuid(HP_SVC), "service account in idm_service_desk"), (Uuid::from_u128(HP_GROUP), "user-made group inside idm_high_privilege"), (UUID_IDM_ADMINS, "built-in group idm_admins"), (UUID_IDM_ADMIN, "built-in account idm_admin")];
    let plain_targets: Vec<(Uuid, &'static str)> = vec![(person_uuid(PLAIN), "ordinary person"), (person_uuid(PLAIN_SVC), "ordinary service account"), (Uuid::from_u128(PLAIN_GROUP), "ordinary group")];

    // ---- vacuity: a fully privileged actor can do each action on some ordinary target
    let all_hp: Vec<Uuid> = t.hp_groups.iter().map(|g| g.0).filter(|u| *u != UUID_IDM_HIGH_PRIVILEGE).collect();
    let mut wellformed: BTreeSet<usize> = BTreeSet::new();
    match fork_eval(|| run_actor(&t, &all_hp, &plain_targets)) {
        Ok(out) => {
            for line in out.lines() {
                let p: Vec<&str> = line.split('|').collect();
                if std::env::var("KV_DEBUG").is_ok() {
                    eprintln!("vacuity: {line}");
                }
                if p.len() == 4 && p[3] == "true" {
                    if let Ok(ai) = p[1].parse::<usize>() {
                        wellformed.insert(ai);
                    }
                }
            }
        }
        Err(e) => ctx.machinery_error(format!("vacuity pass: {e}")),
    }
    let not_exercised: Vec<String> = (0..acts.len()).filter(|i| !wellformed.contains(i)).map(|i| act_name(&acts[i])).collect();
    if wellformed.len() * 2 < acts.len() {
        ctx.machinery_error(format!("vacuity: only {} of {} actions succeed for a fully privileged actor on ordinary targets", wellformed.len(), acts.len()));
    }

    // ---- every subset of the non-high-privilege built-in groups
    let n = t.role_groups.len();
    let max_size = if ctx.quick() { 2 } else { n };
    let mut subsets: Vec<Vec<usize>> = Vec::new();
    for mask in 0u64..(1u64 << n.min(16)) {
        let s: Vec<usize> = (0..n.min(16)).filter(|i| mask & (1 << i) != 0).collect();
        if s.len() <= max_size {
            subsets.push(s);
        }
    }
    if let Some(r) = ctx.replay.clone() {
        let s: Vec<usize> = r["case"]["groups"].as_array().map(|a| a.iter().filter_map(|x| x.as_u64()).map(|x| x as usize).collect()).unwrap_or_default();
        subsets = vec![s];
    }
    let (mut evals, mut nontrivial, mut nbad) = (0u64, 0u64, 0u64);
    let mut joinable: BTreeSet<usize> = BTreeSet::new();
    for s in &subsets {
        let groups: Vec<Uuid> = s.iter().map(|i| t.role_groups[*i].0).collect();
        let names: Vec<&str> = s.iter().map(|i| t.role_groups[*i].1.as_str()).collect();
        let out = match fork_eval(|| run_actor(&t, &groups, &hp_targets)) {
            Ok(o) => o,
            Err(e) => {
                ctx.machinery_error(format!("actor in {names:?}: {e}"));
                continue;
            }
        };
        let mut skip = false;
        for line in out.lines() {
            let p: Vec<&str> = line.split('|').collect();
            if p[0] == "J" {
                for (k, c) in p[1].chars().enumerate() {
                    if c == '1' {
                        joinable.insert(s[k]);
                    }
                }
                continue;
            }
            if p[0] == "H" {
                if p[1] == "true" {
                    // joining these groups made the actor high privilege: outside the statement
                    skip = true;
                }
                continue;
            }
            if skip || p.len() != 4 {
                continue;
            }
            let (ti, ai) = (p[0].parse::<usize>().unwrap_or(0), p[1].parse::<usize>().unwrap_or(0));
            if p[2].starts_with("machinery:") {
                ctx.machinery_error(format!("actor in {names:?}: {line}"));
                continue;
            }
            evals += 1;
            if wellformed.contains(&ai) {
                nontrivial += 1;
            }
            if p[3] == "true" {
                nbad += 1;
                ctx.violation(
                    &format!("hp_target_changed:{}:{}{}", act_name(&acts[ai]).replace(' ', "_"), hp_targets[ti].1.replace(' ', "_"), if p[2].starts_with("[+self]") { ":selected_together_with_the_actor's_own_entry" } else if p[2].starts_with("[+managed]") { ":selected_together_with_a_group_the_actor_manages" } else { "" }),
                    &format!("an actor whose only built-in roles are {names:?} (not high privilege) could [{}] on the {}: answered {}", act_name(&acts[ai]), hp_targets[ti].1, p[2]),
                    json!({"groups": s, "group_names": names, "action": act_name(&acts[ai]), "target": hp_targets[ti].1}),
                );
            }
        }
    }
    ctx.set("evaluations", evals);
    ctx.set("distinct_nontrivial", nontrivial);
    ctx.set("rule", format!("actor = member of every subset (quick: size <= 2; thorough: all) of the {n} built-in groups that are not inside idm_high_privilege, plus its automatic memberships; targets = 6 high-privilege entries; actions = {} requests, the modify and delete requests selecting the target alone, together with the actor's own entry, and together with an ordinary group the actor manages; non-trivial = actions shown to be well formed (a fully privileged actor can perform them on an ordinary target)", acts.len()));
    ctx.set("non_hp_builtin_groups", json!(t.role_groups.iter().map(|g| g.1.clone()).collect::<Vec<_>>()));
    ctx.set("groups_the_actor_could_actually_join", json!(joinable.iter().map(|i| t.role_groups[*i].1.clone()).collect::<Vec<_>>()));
    ctx.set("hp_builtin_groups", t.hp_groups.len() as u64);
    ctx.set("actor_subsets", subsets.len() as u64);
    ctx.set("actions_not_exercised_by_the_vacuity_pass", json!(not_exercised));
    ctx.set("mismatches", nbad);
    ctx.set("exhaustive", true);
    ctx.sample(json!({"actor_groups": t.role_groups.iter().take(2).map(|g| g.1.clone()).collect::<Vec<_>>(), "target": hp_targets[0].1, "action": act_name(&acts[0])}));
    ctx.sample(json!({"actor_groups": [], "target": hp_targets[3].1, "action": "add the actor as member"}));
    ctx.assume("only the access controls shipped by a fresh server are present; no high-privilege entry is delegated to a non-high-privilege entry manager");
    ctx.assume("dynamic groups cannot be joined by hand; the actor has their memberships anyway (it is a person)");
    ctx.finish();
}
