//! C42 — SCIM filter text round-trips and honours precedence.
//!
//! Subjects: `kanidm_proto::scim_v1::{ScimFilter, ScimComplexFilter}` (Display + FromStr) and
//! `scim_proto::filter::{ScimFilter, ScimComplexFilter}` (ToString + FromStr) — both files are
//! anchors of the property.
//!
//! E1 enumeration: (1) every filter tree up to a depth over a leaf alphabet of 10 comparison
//! operators x attribute paths x scalar values (strings with quotes, backslashes, brackets and
//! parentheses; numbers; booleans; null) including complex `attr[...]` filters: parse(print(f)) == f;
//! (2) every unparenthesised chain `l0 (and|or) l1 ...` of <= 7 terms (terms: plain leaves,
//! `not (..)`, parenthesised groups) against a reference precedence splitter; (3) nesting depth k
//! in 100..140 and far beyond for parentheses, `not (` and complex brackets: a single threshold
//! next to the documented limit (128), no crash above it.

use kanidm_proto::attribute::{Attribute, SubAttribute};
use kanidm_proto::scim_v1::{AttrPath as PAttrPath, ScimComplexFilter as PComplex, ScimFilter as PFilter};
use kv_engine::forkdfs::fork_eval;
use kv_engine::{product, Ctx, Level};
use scim_proto::filter::{AttrPath as SAttrPath, ScimComplexFilter as SComplex, ScimFilter as SFilter};
use serde_json::{json, Value};
use std::str::FromStr;

const ATTRS: [(&str, Option<&str>); 5] = [("name", None), ("mail", Some("value")), ("x-1_y", None), ("nota", Some("orb")), ("pr", None)];
const SUBS: [&str; 3] = ["value", "primary", "andx"];

fn values() -> Vec<Value> {
    vec![
        json!("a"),
        json!("a\"b\\c"),
        json!("a b) or (c pr"),
        json!("]x["),
        json!(""),
        json!(1),
        json!(-1.5),
        json!(true),
        json!(null),
    ]
}

/// My own tree, converted to both library types.
#[derive(Clone, Debug)]
enum T {
    Leaf(usize, usize, usize),
    And(Box<T>, Box<T>),
    Or(Box<T>, Box<T>),
    Not(Box<T>),
    Complex(usize, Box<C>),
}
#[derive(Clone, Debug)]
enum C {
    Leaf(usize, usize, usize),
    And(Box<C>, Box<C>),
    Or(Box<C>, Box<C>),
    Not(Box<C>),
}

fn p_path(a: usize) -> PAttrPath {
    PAttrPath { a: Attribute::from(ATTRS[a].0), s: ATTRS[a].1.map(SubAttribute::from) }
}
fn s_path(a: usize) -> SAttrPath {
    let txt = match ATTRS[a].1 {
        Some(s) => format!("{}.{}", ATTRS[a].0, s),
        None => ATTRS[a].0.to_string(),
    };
    SAttrPath::from_str(&txt).unwrap_or_else(|_| kv_engine::ctx::machinery_exit("attr path fixture does not parse"))
}

fn to_p(t: &T, vals: &[Value]) -> PFilter {
    match t {
        T::Leaf(op, a, v) => {
            let (p, v) = (p_path(*a), vals[*v].clone());
            match op {
                0 => PFilter::Present(p),
                1 => PFilter::Equal(p, v),
                2 => PFilter::NotEqual(p, v),
                3 => PFilter::Contains(p, v),
                4 => PFilter::StartsWith(p, v),
                5 => PFilter::EndsWith(p, v),
                6 => PFilter::Greater(p, v),
                7 => PFilter::Less(p, v),
                8 => PFilter::GreaterOrEqual(p, v),
                _ => PFilter::LessOrEqual(p, v),
            }
        }
        T::And(a, b) => PFilter::And(Box::new(to_p(a, vals)), Box::new(to_p(b, vals))),
        T::Or(a, b) => PFilter::Or(Box::new(to_p(a, vals)), Box::new(to_p(b, vals))),
        T::Not(a) => PFilter::Not(Box::new(to_p(a, vals))),
        T::Complex(a, c) => PFilter::Complex(Attribute::from(ATTRS[*a].0), Box::new(to_pc(c, vals))),
    }
}
fn to_pc(c: &C, vals: &[Value]) -> PComplex {
    match c {
        C::Leaf(op, a, v) => {
            let (p, v) = (SubAttribute::from(SUBS[*a]), vals[*v].clone());
            match op {
                0 => PComplex::Present(p),
                1 => PComplex::Equal(p, v),
                2 => PComplex::NotEqual(p, v),
                3 => PComplex::Contains(p, v),
                4 => PComplex::StartsWith(p, v),
                5 => PComplex::EndsWith(p, v),
                6 => PComplex::Greater(p, v),
                7 => PComplex::Less(p, v),
                8 => PComplex::GreaterOrEqual(p, v),
                _ => PComplex::LessOrEqual(p, v),
            }
        }
        C::And(a, b) => PComplex::And(Box::new(to_pc(a, vals)), Box::new(to_pc(b, vals))),
        C::Or(a, b) => PComplex::Or(Box::new(to_pc(a, vals)), Box::new(to_pc(b, vals))),
        C::Not(a) => PComplex::Not(Box::new(to_pc(a, vals))),
    }
}
fn to_s(t: &T, vals: &[Value]) -> SFilter {
    match t {
        T::Leaf(op, a, v) => {
            let (p, v) = (s_path(*a), vals[*v].clone());
            match op {
                0 => SFilter::Present(p),
                1 => SFilter::Equal(p, v),
                2 => SFilter::NotEqual(p, v),
                3 => SFilter::Contains(p, v),
                4 => SFilter::StartsWith(p, v),
                5 => SFilter::EndsWith(p, v),
                6 => SFilter::Greater(p, v),
                7 => SFilter::Less(p, v),
                8 => SFilter::GreaterOrEqual(p, v),
                _ => SFilter::LessOrEqual(p, v),
            }
        }
        T::And(a, b) => SFilter::And(Box::new(to_s(a, vals)), Box::new(to_s(b, vals))),
        T::Or(a, b) => SFilter::Or(Box::new(to_s(a, vals)), Box::new(to_s(b, vals))),
        T::Not(a) => SFilter::Not(Box::new(to_s(a, vals))),
        T::Complex(a, c) => SFilter::Complex(ATTRS[*a].0.to_string(), Box::new(to_sc(c, vals))),
    }
}
fn to_sc(c: &C, vals: &[Value]) -> SComplex {
    match c {
        C::Leaf(op, a, v) => {
            let (p, v) = (SUBS[*a].to_string(), vals[*v].clone());
            match op {
                0 => SComplex::Present(p),
                1 => SComplex::Equal(p, v),
                2 => SComplex::NotEqual(p, v),
                3 => SComplex::Contains(p, v),
                4 => SComplex::StartsWith(p, v),
                5 => SComplex::EndsWith(p, v),
                6 => SComplex::Greater(p, v),
                7 => SComplex::Less(p, v),
                8 => SComplex::GreaterOrEqual(p, v),
                _ => SComplex::LessOrEqual(p, v),
            }
        }
        C::And(a, b) => SComplex::And(Box::new(to_sc(a, vals)), Box::new(to_sc(b, vals))),
        C::Or(a, b) => SComplex::Or(Box::new(to_sc(a, vals)), Box::new(to_sc(b, vals))),
        C::Not(a) => SComplex::Not(Box::new(to_sc(a, vals))),
    }
}

/// round trip one tree through both implementations
fn roundtrip(t: &T, vals: &[Value]) -> Option<(String, String)> {
    let p = to_p(t, vals);
    let txt = p.to_string();
    match PFilter::from_str(&txt) {
        Ok(back) if back == p => {}
        Ok(back) => return Some(("proto:roundtrip_changed".into(), format!("kanidm_proto: {txt:?} parsed back as {back:?}, expected {p:?}"))),
        Err(e) => return Some(("proto:printed_form_rejected".into(), format!("kanidm_proto: its own printed form {txt:?} does not parse: {e}"))),
    }
    let s = to_s(t, vals);
    let txt = s.to_string();
    match SFilter::from_str(&txt) {
        Ok(back) if back == s => {}
        Ok(back) => return Some(("scim_proto:roundtrip_changed".into(), format!("scim_proto: {txt:?} parsed back as {back:?}, expected {s:?}"))),
        Err(e) => return Some(("scim_proto:printed_form_rejected".into(), format!("scim_proto: its own printed form {txt:?} does not parse: {e}"))),
    }
    None
}

fn leaves(full: bool, nvals: usize) -> Vec<T> {
    let mut v = Vec::new();
    let (ops, attrs, vals): (Vec<usize>, Vec<usize>, Vec<usize>) = if full { ((0..10).collect(), (0..ATTRS.len()).collect(), (0..nvals).collect()) } else { (vec![0, 1, 3], vec![0, 1], vec![0, 1, 5]) };
    for &op in &ops {
        for &a in &attrs {
            if op == 0 {
                v.push(T::Leaf(0, a, 0));
            } else {
                for &x in &vals {
                    v.push(T::Leaf(op, a, x));
                }
            }
        }
    }
    v
}
fn cleaves(full: bool, nvals: usize) -> Vec<C> {
    let mut v = Vec::new();
    let (ops, attrs, vals): (Vec<usize>, Vec<usize>, Vec<usize>) = if full { ((0..10).collect(), (0..SUBS.len()).collect(), (0..nvals).collect()) } else { (vec![0, 1], vec![0, 2], vec![0, 3]) };
    for &op in &ops {
        for &a in &attrs {
            if op == 0 {
                v.push(C::Leaf(0, a, 0));
            } else {
                for &x in &vals {
                    v.push(C::Leaf(op, a, x));
                }
            }
        }
    }
    v
}
fn grow_c(prev: &[C], base: &[C]) -> Vec<C> {
    let mut v = Vec::new();
    for a in prev {
        v.push(C::Not(Box::new(a.clone())));
        for b in base {
            v.push(C::And(Box::new(a.clone()), Box::new(b.clone())));
            v.push(C::Or(Box::new(b.clone()), Box::new(a.clone())));
        }
    }
    v
}

// ------------------------------------------------------------------ precedence

/// n-ary normal form, independent of associativity
#[derive(PartialEq, Eq, Debug, Clone)]
enum N {
    Leaf(String),
    Not(Box<N>),
    And(Vec<N>),
    Or(Vec<N>),
}
fn norm_p(f: &PFilter) -> N {
    match f {
        PFilter::And(a, b) => {
            let mut v = Vec::new();
            for x in [a, b] {
                match norm_p(x) {
                    N::And(l) => v.extend(l),
                    o => v.push(o),
                }
            }
            N::And(v)
        }
        PFilter::Or(a, b) => {
            let mut v = Vec::new();
            for x in [a, b] {
                match norm_p(x) {
                    N::Or(l) => v.extend(l),
                    o => v.push(o),
                }
            }
            N::Or(v)
        }
        PFilter::Not(a) => N::Not(Box::new(norm_p(a))),
        other => N::Leaf(other.to_string()),
    }
}
fn norm_s(f: &SFilter) -> N {
    match f {
        SFilter::And(a, b) => {
            let mut v = Vec::new();
            for x in [a, b] {
                match norm_s(x) {
                    N::And(l) => v.extend(l),
                    o => v.push(o),
                }
            }
            N::And(v)
        }
        SFilter::Or(a, b) => {
            let mut v = Vec::new();
            for x in [a, b] {
                match norm_s(x) {
                    N::Or(l) => v.extend(l),
                    o => v.push(o),
                }
            }
            N::Or(v)
        }
        SFilter::Not(a) => N::Not(Box::new(norm_s(a))),
        other => N::Leaf(other.to_string()),
    }
}

/// term kinds for chains: (text, reference normal form)
fn terms() -> Vec<(String, N)> {
    let leaf = |i: usize| N::Leaf(format!("(l{i} pr)"));
    vec![
        ("l0 pr".into(), leaf(0)),
        ("l1 eq \"and\"".into(), N::Leaf("(l1 eq \"and\")".into())),
        ("not (l2 pr)".into(), N::Not(Box::new(leaf(2)))),
        // a parenthesised OR group inside a chain must stay a group
        ("(l3 pr or l4 pr)".into(), N::Or(vec![leaf(3), leaf(4)])),
        ("(l5 pr and l6 pr)".into(), N::And(vec![leaf(5), leaf(6)])),
    ]
}

/// reference: split the chain at `or`, each part is an `and` list
fn reference(chain: &[(usize, bool)], ts: &[(String, N)]) -> (String, N) {
    // chain: (term index, joined to the previous by AND?) ; first item's flag ignored
    let mut text = String::new();
    let mut ors: Vec<Vec<N>> = vec![Vec::new()];
    for (i, (t, is_and)) in chain.iter().enumerate() {
        if i > 0 {
            text.push_str(if *is_and { " and " } else { " or " });
            if !*is_and {
                ors.push(Vec::new());
            }
        }
        text.push_str(&ts[*t].0);
        let n = ts[*t].1.clone();
        let cur = ors.last_mut().map(|c| {
            // a parenthesised AND group inside an AND run flattens (normal form)
            match n.clone() {
                N::And(l) => c.extend(l),
                o => c.push(o),
            }
        });
        let _ = cur;
    }
    let mut parts: Vec<N> = Vec::new();
    for run in ors {
        let n = if run.len() == 1 { run[0].clone() } else { N::And(run) };
        match n {
            N::Or(l) => parts.extend(l),
            o => parts.push(o),
        }
    }
    (text, if parts.len() == 1 { parts[0].clone() } else { N::Or(parts) })
}

// ------------------------------------------------------------------ nesting

fn nested(kind: usize, k: usize) -> String {
    match kind {
        0 => format!("{}a pr{}", "(".repeat(k), ")".repeat(k)),
        1 => format!("{}a pr{}", "not (".repeat(k), ")".repeat(k)),
        _ => format!("a[{}b pr{}]", "(".repeat(k), ")".repeat(k)),
    }
}

pub fn run(args: &[String]) -> ! {
    let mut ctx = Ctx::new("C42", Level::Exploration, args);
    let vals = values();

    if let Some(r) = ctx.replay.clone() {
        if let Some(txt) = r["case"]["text"].as_str() {
            println!("kanidm_proto: {:?}", PFilter::from_str(txt).map(|f| f.to_string()));
            println!("scim_proto:   {:?}", SFilter::from_str(txt).map(|f| f.to_string()));
        }
        println!("replay of C42 cases is by text: see the `what` field; rerun the check for the verdict");
        ctx.finish();
    }

    let mut evals = 0u64;
    let mut nbad = 0u64;
    // ---- (1) round trips
    let full = leaves(true, vals.len());
    let small = leaves(false, vals.len());
    let cfull = cleaves(true, vals.len());
    let csmall = cleaves(false, vals.len());
    // depth 1: every leaf; depth 2: all pairs of full leaves (and/or), not, complex over full
    // complex leaves and their depth-2 growth; depth 3 (thorough: full x small, quick: small x small)
    let mut d1: Vec<T> = full.clone();
    for c in cfull.iter().chain(grow_c(&csmall, &csmall).iter()) {
        d1.push(T::Complex(0, Box::new(c.clone())));
    }
    if ctx.thorough() {
        for c in grow_c(&grow_c(&csmall, &csmall), &csmall) {
            d1.push(T::Complex(2, Box::new(c)));
        }
    }
    let d1s: Vec<T> = {
        let mut v = small.clone();
        v.push(T::Complex(0, Box::new(csmall[0].clone())));
        v.push(T::Complex(3, Box::new(C::Or(Box::new(csmall[1].clone()), Box::new(csmall[2].clone())))));
        v
    };
    let report = |ctx: &mut Ctx, t: &T, r: Option<(String, String)>, nbad: &mut u64| {
        if let Some((k, what)) = r {
            *nbad += 1;
            ctx.violation(&k, &what, json!({"tree": format!("{t:?}"), "text": to_p(t, &values()).to_string()}));
        }
    };
    for t in &d1 {
        evals += 1;
        let r = roundtrip(t, &vals);
        report(&mut ctx, t, r, &mut nbad);
    }
    // depth 2
    let mk2 = |a: &T, b: &T, k: usize| -> T {
        match k {
            0 => T::And(Box::new(a.clone()), Box::new(b.clone())),
            1 => T::Or(Box::new(a.clone()), Box::new(b.clone())),
            _ => T::Not(Box::new(a.clone())),
        }
    };
    let left: &Vec<T> = if ctx.thorough() { &d1 } else { &full };
    let total = left.len() as u64 * d1s.len() as u64 * 3;
    let accs = product::par_run(
        product::ncpu(),
        total,
        512,
        |_| (0u64, Vec::<(T, (String, String))>::new()),
        |acc, idx| {
            let mut d = [0usize; 3];
            product::decode(idx, &[3, d1s.len() as u64, left.len() as u64], &mut d);
            if d[0] == 2 && d[1] != 0 {
                return; // Not ignores the second operand: one case per left operand
            }
            let vals = values();
            let t = mk2(&left[d[2]], &d1s[d[1]], d[0]);
            let t2 = mk2(&d1s[d[1]], &left[d[2]], d[0]);
            for t in [t, t2] {
                acc.0 += 1;
                if let Some(r) = roundtrip(&t, &vals) {
                    if acc.1.len() < 3 {
                        acc.1.push((t, r));
                    }
                }
            }
        },
    );
    let mut d2_count = 0;
    for (n, bad) in accs {
        d2_count += n;
        for (t, r) in bad {
            report(&mut ctx, &t, Some(r), &mut nbad);
        }
    }
    evals += d2_count;
    // depth 3: op(op(x, y), z) and op(x, op(y, z)) over the small alphabet
    let mut d3_count = 0u64;
    {
        let n = d1s.len() as u64;
        let total = n * n * n * 9;
        let accs = product::par_run(
            product::ncpu(),
            total,
            512,
            |_| (0u64, Vec::<(T, (String, String))>::new()),
            |acc, idx| {
                let mut d = [0usize; 5];
                product::decode(idx, &[3, 3, n, n, n], &mut d);
                let vals = values();
                let inner = mk2(&d1s[d[2]], &d1s[d[3]], d[0]);
                for t in [mk2(&inner, &d1s[d[4]], d[1]), mk2(&d1s[d[4]], &inner, d[1])] {
                    acc.0 += 1;
                    if let Some(r) = roundtrip(&t, &vals) {
                        if acc.1.len() < 3 {
                            acc.1.push((t, r));
                        }
                    }
                }
            },
        );
        for (c, bad) in accs {
            d3_count += c;
            for (t, r) in bad {
                report(&mut ctx, &t, Some(r), &mut nbad);
            }
        }
    }
    evals += d3_count;

    // ---- (2) precedence
    let ts = terms();
    let max_terms = ctx.pick(5usize, 7usize);
    let mut chains = 0u64;
    for n in 1..=max_terms {
        // term choice per position x operator per gap
        let tn = ts.len() as u64;
        let total = tn.pow(n as u32) * (1u64 << (n - 1));
        // cap the term alphabet at length >= 6 to the first 3 kinds to keep the count bounded
        for idx in 0..total {
            let mut rad = vec![tn; n];
            rad.extend(std::iter::repeat(2).take(n - 1));
            let mut d = vec![0usize; 2 * n - 1];
            product::decode(idx, &rad, &mut d);
            if n >= 6 && d[..n].iter().any(|t| *t >= 3) {
                continue;
            }
            let chain: Vec<(usize, bool)> = (0..n).map(|i| (d[i], if i == 0 { false } else { d[n + i - 1] == 1 })).collect();
            let (text, want) = reference(&chain, &ts);
            chains += 1;
            match PFilter::from_str(&text) {
                Ok(f) => {
                    let got = norm_p(&f);
                    if got != want {
                        nbad += 1;
                        ctx.violation("proto:precedence_wrong", &format!("kanidm_proto parses {text:?} as {got:?}; AND-before-OR gives {want:?}"), json!({"text": text}));
                    }
                }
                Err(e) => {
                    nbad += 1;
                    ctx.violation("proto:chain_rejected", &format!("kanidm_proto rejects {text:?}: {e}"), json!({"text": text}));
                }
            }
            match SFilter::from_str(&text) {
                Ok(f) => {
                    let got = norm_s(&f);
                    if got != want {
                        nbad += 1;
                        ctx.violation("scim_proto:precedence_wrong", &format!("scim_proto parses {text:?} as {got:?}; AND-before-OR gives {want:?}"), json!({"text": text}));
                    }
                }
                Err(e) => {
                    nbad += 1;
                    ctx.violation("scim_proto:chain_rejected", &format!("scim_proto rejects {text:?}: {e}"), json!({"text": text}));
                }
            }
        }
    }
    evals += chains;

    // ---- (3) nesting limit: one threshold next to the documented 128; no crash far above it
    let mut nest_cases = 0u64;
    let mut thresholds = Vec::new();
    for which in ["proto", "scim_proto"] {
        for kind in 0..3 {
            let ks: Vec<usize> = (1..=140).chain([200, 1000, 5000, 20000]).collect();
            let mut verdicts: Vec<(usize, bool)> = Vec::new();
            for &k in &ks {
                nest_cases += 1;
                let txt = nested(kind, k);
                // deep inputs run in a forked child: a stack overflow must not take the harness down
                let r = fork_eval(|| {
                    let ok = if which == "proto" { PFilter::from_str(&txt).is_ok() } else { SFilter::from_str(&txt).is_ok() };
                    if ok { "ok".into() } else { "rejected".into() }
                });
                match r {
                    Ok(s) => verdicts.push((k, s == "ok")),
                    Err(e) => {
                        nbad += 1;
                        ctx.violation(&format!("{which}:nesting_crash"), &format!("{which}: parsing nesting kind {kind} depth {k} crashed the process ({e})"), json!({"kind": kind, "depth": k}));
                        verdicts.push((k, false));
                    }
                }
            }
            let first_rej = verdicts.iter().find(|(_, ok)| !*ok).map(|(k, _)| *k);
            let monotone = match first_rej {
                Some(t) => verdicts.iter().all(|(k, ok)| (*k < t) == *ok),
                None => false,
            };
            let kind_name = ["parens", "not", "complex parens"][kind];
            thresholds.push(json!({"impl": which, "kind": kind_name, "first_rejected_depth": first_rej}));
            let near_limit = first_rej.map(|t| (120..=130).contains(&t) || (kind == 1 && (60..=130).contains(&t))).unwrap_or(false);
            if !monotone || !near_limit {
                nbad += 1;
                ctx.violation(&format!("{which}:nesting_limit"), &format!("{which}: nesting kind {kind}: first rejected depth {first_rej:?}, monotone {monotone}; the documented limit is 128"), json!({"kind": kind}));
            }
        }
        // printed forms within the limit must round trip: Not^n(leaf) prints 2n+1 levels deep
        for n in 1..=70 {
            nest_cases += 1;
            let mut t = T::Leaf(1, 0, 0);
            for _ in 0..n {
                t = T::Not(Box::new(t));
            }
            let depth = 2 * n + 1;
            let p_first = thresholds.iter().find(|t| t["impl"] == which && t["kind"] == "parens").and_then(|t| t["first_rejected_depth"].as_u64()).unwrap_or(0) as usize;
            if depth < p_first {
                let (txt, ok) = if which == "proto" {
                    let p = to_p(&t, &vals);
                    let txt = p.to_string();
                    let ok = PFilter::from_str(&txt).map(|b| b == p).unwrap_or(false);
                    (txt, ok)
                } else {
                    let s = to_s(&t, &vals);
                    let txt = s.to_string();
                    let ok = SFilter::from_str(&txt).map(|b| b == s).unwrap_or(false);
                    (txt, ok)
                };
                if !ok {
                    nbad += 1;
                    ctx.violation(&format!("{which}:deep_roundtrip"), &format!("{which}: a filter of {n} nested NOTs prints {depth} levels deep (below the limit) but does not round trip"), json!({"text": txt}));
                }
            }
        }
    }
    evals += nest_cases;

    ctx.set("evaluations", evals);
    ctx.set("distinct_nontrivial", d2_count + d3_count + chains);
    ctx.set("rule", "round trips: every leaf (10 operators x 5 attribute paths x 9 scalar values), every complex filter to depth 2 (thorough 3), every and/or/not combination of two operands (both orders) and of three operands over a reduced alphabet, each through kanidm_proto and scim_proto; chains: every unparenthesised and/or chain of up to 5 (thorough 7) terms from 5 term kinds against a reference splitter; nesting: depths 1..140, 200, 1000, 5000, 20000 for three nesting constructs. Non-trivial = trees with at least one operator, and all chains");
    ctx.set("roundtrip_depth1", d1.len() as u64);
    ctx.set("roundtrip_depth2", d2_count);
    ctx.set("roundtrip_depth3", d3_count);
    ctx.set("precedence_chains", chains);
    ctx.set("nesting_cases", nest_cases);
    ctx.set("nesting_thresholds", json!(thresholds));
    ctx.set("mismatches", nbad);
    ctx.set("exhaustive", true);
    ctx.sample(json!({"roundtrip": to_p(&T::And(Box::new(full[7].clone()), Box::new(T::Not(Box::new(full[20].clone())))), &vals).to_string()}));
    ctx.sample(json!({"roundtrip": to_s(&T::Complex(0, Box::new(grow_c(&csmall, &csmall)[3].clone())), &vals).to_string()}));
    ctx.sample(json!({"chain": reference(&[(0, false), (2, true), (3, false), (1, true)], &ts).0}));
    ctx.assume("attribute names are valid SCIM names ([A-Za-z][A-Za-z0-9_-]*) and values are JSON scalars, as the property states");
    ctx.assume("associativity of equal operators is not part of the property: chains are compared in n-ary normal form");
    ctx.finish();
}
