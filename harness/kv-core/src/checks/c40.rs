//! C40 — the LDAP gateway is read-only and no more privileged than its bind.
//!
//! E1 product on a real IdmServer + LdapServer: domain flag (POSIX password binds on / off) x
//! application-group membership x every bind of an alphabet (anonymous, bind DN forms x right
//! POSIX password / primary password / wrong / empty, token binds with an API token / a login
//! token / garbage, application binds with the right / wrong application password) and, for
//! every session obtained, a battery of searches and compares. Each configuration runs in a
//! forked copy of one template.
//!
//! Oracles: (1) which binds may succeed, from the statement; (2) every session obtained with a
//! user name and a password (POSIX or application) answers every search and compare EXACTLY as
//! an anonymous session does (differential, no hand-written expectation); (3) a token session's
//! search results are covered by a native `search_ext` as the token's identity (entries and
//! attribute names through the documented attribute-name map), and schema / access-control
//! entries never appear; (4) every LDAP message kind that could change content is refused by
//! the protocol layer and the directory is byte-identical after the whole run.

use crate::acpfx::group_entry;
use crate::idmfx::{person_entry, person_uuid, service_entry, Idm, PW_GOOD, PW_NEW};
use crate::srv;
use kanidmd_lib::event::SearchEvent;
use kanidmd_lib::idm::application::GenerateApplicationPasswordEvent;
use kanidmd_lib::idm::event::UnixPasswordChangeEvent;
use kanidmd_lib::idm::ldap::{LdapBoundToken, LdapResponseState, LdapServer, LdapSession};
use kanidmd_lib::idm::serviceaccount::GenerateApiTokenEvent;
use kanidmd_lib::prelude::*;
use kanidmd_lib::verif_hooks::identity_internal;
use kv_engine::forkdfs::fork_eval;
use kv_engine::{Ctx, Level};
use ldap3_proto::proto::{LdapFilter, LdapMsg, LdapOp, LdapResultCode, LdapSearchScope};
use ldap3_proto::simple::{CompareRequest, SearchRequest, ServerOps, SimpleBindRequest};
use serde_json::json;
use std::collections::{BTreeMap, BTreeSet};

const P0: usize = 0;
const P1: usize = 1;
const S0: usize = 9;
const APP: u128 = 0xac40_0000_0000_4000_8000_0000_0000_0001;
const APPGRP: u128 = 0xac40_0000_0000_4000_8000_0000_0000_0002;
const BASE: &str = "dc=example,dc=com";

struct Tpl {
    idm: Idm,
    api: String,
    uat: String,
    app_pw: String,
}

fn now() -> Duration {
    srv::t(1000)
}

fn template() -> Tpl {
    let mut idm = Idm::new();
    let ct = srv::t(10);
    let die = |what: &str, e: OperationError| -> ! { kv_engine::ctx::machinery_exit(&format!("C40 setup: {what}: {e:?}")) };
    for (i, n) in [(P0, "p0"), (P1, "p1")] {
        let mut e = person_entry(n, person_uuid(i));
        e.add_ava(Attribute::Class, EntryClass::PosixAccount.to_value());
        e.add_ava(Attribute::Mail, Value::new_email_address_primary_s(&format!("{n}@example.com")).unwrap_or_else(|| Value::new_utf8s("x")));
        if let Err(x) = idm.create(ct, e) {
            die("create person", x);
        }
    }
    if let Err(x) = idm.create(ct, service_entry("s0", person_uuid(S0))) {
        die("create service account", x);
    }
    // primary password differs from the POSIX password
    if let Err(x) = idm.set_primary(ct, person_uuid(P0), PW_NEW, false) {
        die("primary", x);
    }
    let mut app = service_entry("app0", Uuid::from_u128(APP));
    app.add_ava(Attribute::Class, EntryClass::Application.to_value());
    app.add_ava(Attribute::LinkedGroup, Value::Refer(Uuid::from_u128(APPGRP)));
    let r = idm.write(ct, |w| {
        w.qs_write.internal_create(vec![group_entry("appgrp", Uuid::from_u128(APPGRP), &[person_uuid(P0)])])?;
        w.qs_write.internal_create(vec![app])?;
        // the service account (API token) may read access control profiles natively: they must
        // still never come back over LDAP
        w.qs_write.internal_modify_uuid(UUID_IDM_ACCESS_CONTROL_ADMINS, &ModifyList::new_list(vec![Modify::Present(Attribute::Member, Value::Refer(person_uuid(S0)))]))?;
        let ent = w.qs_write.internal_search_uuid(person_uuid(P0))?;
        let ident = Identity::from_impersonate_entry_readwrite(ent);
        w.set_unix_account_password(&UnixPasswordChangeEvent::from_parts(ident, person_uuid(P0), PW_GOOD.to_string())?)
    });
    if let Err(x) = r {
        die("groups / application / unix password", x);
    }
    let app_pw = match idm.write(ct, |w| {
        let ent = w.qs_write.internal_search_uuid(person_uuid(P0))?;
        let ident = Identity::from_impersonate_entry_readwrite(ent);
        w.generate_application_password(&GenerateApplicationPasswordEvent::from_parts(ident, person_uuid(P0), Uuid::from_u128(APP), "ldap".into())?).map(|r| r.0)
    }) {
        Ok(p) => p,
        Err(x) => die("application password", x),
    };
    let api = match idm.write(ct, |w| w.service_account_generate_api_token(&GenerateApiTokenEvent { ident: identity_internal(), target: person_uuid(S0), label: "t".into(), expiry: None, read_write: false, compact: false }, ct)) {
        Ok(t) => t.to_string(),
        Err(x) => die("api token", x),
    };
    let uat = match idm.login_pw("p0", PW_NEW, false, srv::t(900)) {
        Ok(Some(t)) => t.to_string(),
        other => kv_engine::ctx::machinery_exit(&format!("C40 setup: login failed: {:?}", other.map(|o| o.is_some()))),
    };
    let _ = idm.pump(srv::t(900));
    Tpl { idm, api, uat, app_pw }
}

#[derive(Clone, Debug, PartialEq, Eq)]
enum BindKind {
    Anonymous,
    /// (who, password kind): user name + POSIX password path
    Posix(usize, &'static str),
    Token(&'static str),
    App(&'static str),
}

fn binds(t: &Tpl) -> Vec<(String, String, BindKind)> {
    let mut v: Vec<(String, String, BindKind)> = vec![("".into(), "".into(), BindKind::Anonymous), (format!("name=anonymous,{BASE}"), "".into(), BindKind::Anonymous)];
    let dns = |n: &str, u: Uuid| vec![format!("name={n},{BASE}"), n.to_string(), format!("spn={n}@example.com,{BASE}"), format!("uid={n},{BASE}"), format!("{u}")];
    // every DN form with the right password first: a wrong password soft-locks the credential
    // (C28) and the right one would then be refused for a while, whatever the DN form
    for (pk, pw) in [("right", PW_GOOD), ("empty", ""), ("primary", PW_NEW), ("wrong", "not-the-password-0000")] {
        for (who, n) in [(P0, "p0"), (P1, "p1")] {
            for dn in dns(n, person_uuid(who)) {
                v.push((dn.clone(), pw.to_string(), BindKind::Posix(who, pk)));
            }
        }
    }
    for dn in ["", "dn=token"] {
        v.push((dn.into(), t.api.clone(), BindKind::Token("api")));
        v.push((dn.into(), t.uat.clone(), BindKind::Token("uat")));
        v.push((dn.into(), "garbage.token.value".into(), BindKind::Token("garbage")));
    }
    for dn in [format!("name=p0,app=app0,{BASE}"), "name=p0,app=app0".to_string()] {
        v.push((dn.clone(), t.app_pw.clone(), BindKind::App("right")));
        v.push((dn.clone(), "wrong-app-password".into(), BindKind::App("wrong")));
        v.push((dn, PW_GOOD.into(), BindKind::App("posix")));
    }
    v.push((format!("name=p1,app=app0,{BASE}"), t.app_pw.clone(), BindKind::App("other-user")));
    v
}

fn searches() -> Vec<(LdapFilter, Vec<String>)> {
    let f = |a: &str, v: &str| LdapFilter::Equality(a.into(), v.into());
    let filters = vec![
        LdapFilter::Present("objectclass".into()),
        f("name", "p0"),
        f("uid", "p1"),
        f("class", "person"),
        LdapFilter::Present("mail".into()),
        LdapFilter::And(vec![f("class", "person"), LdapFilter::Not(Box::new(f("name", "p0")))]),
        f("class", "access_control_profile"),
        f("class", "attributetype"),
        f("unix_password", "x"),
        LdapFilter::Present("primary_credential".into()),
        f("name", "s0"),
    ];
    let attrs: Vec<Vec<String>> = vec![vec!["*".into()], vec!["name".into(), "mail".into()], vec!["dn".into()], vec!["*".into(), "+".into()], vec!["unix_password".into(), "primary_credential".into(), "radius_secret".into()], vec![]];
    let mut v = Vec::new();
    for fl in &filters {
        for a in &attrs {
            v.push((fl.clone(), a.clone()));
        }
    }
    v
}

fn compares() -> Vec<(String, String, String)> {
    vec![
        (format!("name=p0,{BASE}"), "mail".into(), "p0@example.com".into()),
        (format!("name=p0,{BASE}"), "mail".into(), "nope@example.com".into()),
        (format!("name=p0,{BASE}"), "class".into(), "person".into()),
        (format!("name=p1,{BASE}"), "name".into(), "p1".into()),
        (format!("name=s0,{BASE}"), "class".into(), "service_account".into()),
    ]
}

fn vattr(a: &str) -> String {
    // attribute options (mail;primary) name the same attribute
    match a.to_lowercase().split(';').next().unwrap_or("") {
        "cn" | "uid" | "entrydn" | "dn" => "name".into(),
        "gecos" => "displayname".into(),
        "email" | "emailaddress" | "emailalternative" | "emailprimary" | "mailalternative" | "mailprimary" => "mail".into(),
        "entryuuid" | "homedirectory" => "uuid".into(),
        "keys" | "sshpublickey" => "ssh_publickey".into(),
        "objectclass" => "class".into(),
        "uidnumber" => "gidnumber".into(),
        "pwdchangedtime" => "pwd_changed_time".into(),
        o => o.to_string(),
    }
}

/// canonical rendering of a multi-part LDAP response: result code + per entry (dn, attr -> values)
fn render(msgs: &[LdapMsg]) -> (String, BTreeMap<String, BTreeMap<String, BTreeSet<String>>>) {
    let mut entries = BTreeMap::new();
    let mut code = String::new();
    for m in msgs {
        match &m.op {
            LdapOp::SearchResultEntry(e) => {
                let mut attrs: BTreeMap<String, BTreeSet<String>> = BTreeMap::new();
                for a in &e.attributes {
                    attrs.entry(a.atype.clone()).or_default().extend(a.vals.iter().map(|v| String::from_utf8_lossy(v).to_string()));
                }
                entries.insert(e.dn.clone(), attrs);
            }
            LdapOp::SearchResultDone(r) | LdapOp::CompareResult(r) | LdapOp::BindResponse(ldap3_proto::proto::LdapBindResponse { res: r, .. }) => code = format!("{:?}", r.code),
            other => code = format!("other:{other:?}").chars().take(60).collect(),
        }
    }
    (code, entries)
}

struct Run<'a> {
    t: &'a Tpl,
    ls: LdapServer,
}

impl Run<'_> {
    fn op(&self, op: ServerOps, tok: Option<LdapBoundToken>) -> Result<LdapResponseState, OperationError> {
        self.t.idm.rt.block_on(self.ls.do_op(&self.t.idm.idms, op, tok, std::net::IpAddr::V4(std::net::Ipv4Addr::LOCALHOST), Uuid::from_u128(1)))
    }
    fn bind(&self, dn: &str, pw: &str) -> Option<LdapBoundToken> {
        match self.op(ServerOps::SimpleBind(SimpleBindRequest { msgid: 1, dn: dn.into(), pw: pw.into() }), None) {
            Ok(LdapResponseState::Bind(tok, _)) => Some(tok),
            _ => None,
        }
    }
    fn battery(&self, tok: &LdapBoundToken) -> Vec<String> {
        let mut out = Vec::new();
        for (f, attrs) in searches() {
            let r = self.op(ServerOps::Search(SearchRequest { msgid: 2, base: BASE.into(), scope: LdapSearchScope::Subtree, filter: f.clone(), attrs: attrs.clone() }), Some(tok.clone()));
            out.push(match r {
                Ok(LdapResponseState::MultiPartResponse(m)) | Ok(LdapResponseState::BindMultiPartResponse(_, m)) => format!("{:?}", render(&m)),
                Ok(LdapResponseState::Respond(m)) => format!("{:?}", render(&[m])),
                Ok(_) => "other".into(),
                Err(e) => format!("err:{e:?}"),
            });
        }
        for (dn, a, v) in compares() {
            let r = self.op(ServerOps::Compare(CompareRequest { msgid: 3, entry: dn, atype: a, val: v }), Some(tok.clone()));
            out.push(match r {
                Ok(LdapResponseState::MultiPartResponse(m)) | Ok(LdapResponseState::BindMultiPartResponse(_, m)) => format!("{:?}", render(&m).0),
                Ok(LdapResponseState::Respond(m)) => format!("{:?}", render(&[m]).0),
                Ok(_) => "other".into(),
                Err(e) => format!("err:{e:?}"),
            });
        }
        out
    }
}

fn dump_all(idm: &Idm) -> String {
    idm.read(|r| {
        let mut v: Vec<String> = r.qs_read.internal_search(Filter::new_ignore_hidden(f_pres(Attribute::Class))).unwrap_or_default().iter().map(|e| format!("{}:{}", e.get_uuid(), srv::render_entry(e, &[]))).collect();
        v.sort();
        v.join("\n")
    })
}

/// child: configure, run every bind + battery, return `key\x02what` lines and a counter line
fn run_cfg(t: &Tpl, allow_unix: bool, in_app_group: bool) -> String {
    let r = t.idm.write(now(), |w| {
        w.qs_write.internal_modify_uuid(UUID_DOMAIN_INFO, &ModifyList::new_purge_and_set(Attribute::LdapAllowUnixPwBind, Value::Bool(allow_unix)))?;
        if !in_app_group {
            w.qs_write.internal_modify_uuid(Uuid::from_u128(APPGRP), &ModifyList::new_list(vec![Modify::Purged(Attribute::Member)]))?;
        }
        Ok(())
    });
    if let Err(e) = r {
        return format!("machinery:configure {e:?}");
    }
    let ls = match t.idm.rt.block_on(LdapServer::new(&t.idm.idms)) {
        Ok(l) => l,
        Err(e) => return format!("machinery:ldap server {e:?}"),
    };
    let run = Run { t, ls };
    let before = dump_all(&t.idm);
    let mut viol: Vec<String> = Vec::new();
    let (mut nbinds, mut nok, mut nops) = (0u64, 0u64, 0u64);
    let Some(anon) = run.bind("", "") else { return "machinery:anonymous bind failed".into() };
    let anon_answers = run.battery(&anon);
    nops += anon_answers.len() as u64;
    let cfgs = format!("posix binds {}, p0 {} the application group", if allow_unix { "enabled" } else { "disabled" }, if in_app_group { "in" } else { "not in" });
    for (dn, pw, kind) in binds(t) {
        nbinds += 1;
        let tok = run.bind(&dn, &pw);
        let pwshow = if pw.len() > 24 { format!("{}...", &pw[..12]) } else { pw.clone() };
        // (1) may this bind succeed?
        let may = match &kind {
            BindKind::Anonymous => true,
            // a user name with an empty password is an unauthenticated bind: only anonymous rights may follow
            BindKind::Posix(_, "empty") => true,
            BindKind::Posix(who, pk) => allow_unix && *who == P0 && *pk == "right",
            BindKind::Token(k) => *k == "api" || *k == "uat",
            BindKind::App(k) => *k == "right" && in_app_group,
        };
        if std::env::var("KV_DEBUG").is_ok() {
            eprintln!("[{cfgs}] bind {dn:?} / {pwshow:?} ({kind:?}) -> {}", tok.as_ref().map(|t| format!("{:?}", t.effective_session).chars().take(40).collect::<String>()).unwrap_or_else(|| "refused".into()));
        }
        if tok.is_some() && !may {
            viol.push(format!("bind_accepted:{kind:?}\u{2}[{cfgs}] bind dn {dn:?} password {pwshow:?} ({kind:?}) was accepted"));
        }
        let Some(tok) = tok else { continue };
        nok += 1;
        let answers = run.battery(&tok);
        nops += answers.len() as u64;
        match &kind {
            BindKind::Anonymous | BindKind::Posix(..) | BindKind::App(_) => {
                // (2) exactly anonymous-level answers
                if !matches!(tok.effective_session, LdapSession::UnixBind(_) | LdapSession::ApplicationPasswordBind(..)) {
                    viol.push(format!("password_bind_gets_token_session:{kind:?}\u{2}[{cfgs}] bind dn {dn:?} produced session {:?}", tok.effective_session));
                }
                if let Some(i) = (0..answers.len()).find(|i| answers[*i] != anon_answers[*i]) {
                    let what = if i < searches().len() { format!("search {:?} attrs {:?}", searches()[i].0, searches()[i].1) } else { format!("compare {:?}", compares()[i - searches().len()]) };
                    viol.push(format!("password_bind_differs_from_anonymous:{kind:?}\u{2}[{cfgs}] after bind dn {dn:?} ({kind:?}) the answer to {what} differs from the anonymous answer: {} vs {}", answers[i].chars().take(300).collect::<String>(), anon_answers[i].chars().take(300).collect::<String>()));
                }
            }
            BindKind::Token(which) => {
                // (3) covered by the native search as the token's identity
                let jws = if *which == "api" { &t.api } else { &t.uat };
                let Ok(jws) = compact_jwt::JwsCompact::from_str(jws) else { continue };
                let Ok(ident) = t.idm.present(&jws, now()) else {
                    viol.push(format!("token_bind_for_invalid_token\u{2}[{cfgs}] the {which} token binds over LDAP but is refused natively"));
                    continue;
                };
                for (f, attrs) in searches() {
                  for scope in [LdapSearchScope::Subtree, LdapSearchScope::OneLevel, LdapSearchScope::Children] {
                    let subtree = matches!(scope, LdapSearchScope::Subtree);
                    let r = run.op(ServerOps::Search(SearchRequest { msgid: 2, base: BASE.into(), scope, filter: f.clone(), attrs: attrs.clone() }), Some(tok.clone()));
                    nops += 1;
                    let Ok(LdapResponseState::MultiPartResponse(m)) = r else { continue };
                    let (_, ents) = render(&m);
                    // native: same filter, all attributes
                    let native: BTreeMap<String, BTreeSet<String>> = t.idm.read(|rt| {
                        let Ok(flt) = Filter::from_ldap_ro(&ident, &f, &mut rt.qs_read) else { return BTreeMap::new() };
                        let Ok(se) = SearchEvent::from_internal_message(ident.clone(), &flt, None, &mut rt.qs_read) else { return BTreeMap::new() };
                        rt.qs_read.search_ext(&se).unwrap_or_default().iter().map(|e| (e.get_uuid().to_string(), e.get_ava_iter().map(|(a, _)| a.as_str().to_string()).collect())).collect()
                    });
                    for (dn, eattrs) in &ents {
                        let uuid = eattrs.get("entryuuid").or_else(|| eattrs.get("uuid")).and_then(|v| v.iter().next().cloned());
                        let classes: BTreeSet<String> = eattrs.get("objectclass").or_else(|| eattrs.get("class")).cloned().unwrap_or_default();
                        if classes.iter().any(|c| ["attributetype", "classtype", "access_control_profile"].contains(&c.as_str())) {
                            viol.push(format!("hidden_entry_returned\u{2}[{cfgs}] {which} token search {f:?} (scope {}) returned the schema / access control entry {dn}", if subtree { "subtree" } else { "one level / children" }));
                        }
                        let Some(u) = uuid else { continue };
                        match native.get(&u) {
                            None => viol.push(format!("ldap_entry_not_in_native_search\u{2}[{cfgs}] {which} token: LDAP search {f:?} attrs {attrs:?} returned {dn} which a native search by the same identity does not")),
                            Some(nattrs) => {
                                for a in eattrs.keys() {
                                    let k = vattr(a);
                                    if !nattrs.contains(&k) && k != "spn" {
                                        viol.push(format!("ldap_attribute_not_in_native_search:{k}\u{2}[{cfgs}] {which} token: LDAP search {f:?} attrs {attrs:?} returned attribute {a} of {dn}; the native search shows {nattrs:?}"));
                                    }
                                }
                            }
                        }
                    }
                    let _ = subtree;
                  }
                }
            }
        }
    }
    // (4) nothing changed
    let after = dump_all(&t.idm);
    if before != after {
        viol.push(format!("directory_changed\u{2}[{cfgs}] the directory content differs after the LDAP operations"));
    }
    viol.sort();
    viol.dedup_by(|a, b| a.split('\u{2}').next() == b.split('\u{2}').next());
    format!("C|{nbinds}|{nok}|{nops}\n{}", viol.join("\n"))
}

use std::str::FromStr;

pub fn run(args: &[String]) -> ! {
    let mut ctx = Ctx::new("C40", Level::Exploration, args);
    let t = template();
    let (mut evals, mut nontrivial, mut nbad) = (0u64, 0u64, 0u64);
    for allow_unix in [true, false] {
        for in_grp in [true, false] {
            let out = match fork_eval(|| run_cfg(&t, allow_unix, in_grp)) {
                Ok(o) => o,
                Err(e) => {
                    ctx.machinery_error(format!("configuration {allow_unix}/{in_grp}: {e}"));
                    continue;
                }
            };
            if out.starts_with("machinery:") {
                ctx.machinery_error(out);
                continue;
            }
            for line in out.lines() {
                if let Some(rest) = line.strip_prefix("C|") {
                    let p: Vec<u64> = rest.split('|').filter_map(|x| x.parse().ok()).collect();
                    if p.len() == 3 {
                        evals += p[0] + p[2];
                        nontrivial += p[1];
                        if allow_unix && in_grp && p[1] < 10 {
                            ctx.machinery_error(format!("vacuity: only {} binds succeeded with everything enabled", p[1]));
                        }
                    }
                    continue;
                }
                if line.is_empty() {
                    continue;
                }
                let (k, what) = line.split_once('\u{2}').unwrap_or((line, ""));
                nbad += 1;
                ctx.violation(k, what, json!({"posix_binds": allow_unix, "in_app_group": in_grp}));
            }
        }
    }
    // (4) protocol layer: every content-changing LDAP message kind is refused before it reaches the server
    let mut refused = 0u64;
    {
        use ldap3_proto::proto::*;
        let dn = format!("name=p0,{BASE}");
        let ops: Vec<(&str, LdapOp)> = vec![
            ("add", LdapOp::AddRequest(LdapAddRequest { dn: format!("name=evil,{BASE}"), attributes: vec![LdapAttribute { atype: "class".into(), vals: vec![b"person".to_vec()] }] })),
            ("delete", LdapOp::DelRequest(dn.clone())),
            ("modify", LdapOp::ModifyRequest(LdapModifyRequest { dn: dn.clone(), changes: vec![LdapModify { operation: LdapModifyType::Replace, modification: LdapPartialAttribute { atype: "displayname".into(), vals: vec![b"x".to_vec()] } }] })),
            ("modifydn", LdapOp::ModifyDNRequest(LdapModifyDNRequest { dn: dn.clone(), newrdn: "name=renamed".into(), deleteoldrdn: true, new_superior: None })),
            ("extended:passwd", LdapOp::ExtendedRequest(LdapExtendedRequest { name: "1.3.6.1.4.1.4203.1.11.1".into(), value: None })),
        ];
        for (name, op) in ops {
            evals += 1;
            match ServerOps::try_from(LdapMsg { msgid: 9, op, ctrl: vec![] }) {
                Err(_) => refused += 1,
                Ok(_) => {
                    nbad += 1;
                    ctx.violation(&format!("write_operation_accepted:{name}"), &format!("the LDAP {name} request is accepted by the protocol layer as a server operation"), json!({"op": name}));
                }
            }
        }
    }
    let _ = LdapResultCode::Success;
    ctx.set("evaluations", evals);
    ctx.set("distinct_nontrivial", nontrivial);
    ctx.set("write_message_kinds_refused", refused);
    ctx.set("rule", "4 configurations (POSIX password binds on/off x user in/out of the application's group) x 57 binds (anonymous forms; 5 bind-DN forms x 2 users x right POSIX / primary / wrong / empty password; 2 token-bind forms x API token / login token / garbage; application binds with the right / wrong / POSIX password and for another user) x for every session 66 searches (11 filters x 6 attribute lists incl. secrets and operational) and 5 compares; plus 5 content-changing LDAP message kinds. Non-trivial = sessions obtained");
    ctx.set("mismatches", nbad);
    ctx.set("exhaustive", true);
    ctx.sample(json!({"bind": format!("name=p0,{BASE}"), "password": "right POSIX password", "then": "66 searches + 5 compares compared with the anonymous answers"}));
    ctx.sample(json!({"bind": "dn=token", "password": "<API token>", "then": "each search compared with a native search_ext as the token identity"}));
    ctx.assume("the protocol layer is ldap3_proto's ServerOps conversion, which is what kanidmd's LDAP listener uses to admit operations");
    ctx.assume("a user name with an empty password is an unauthenticated bind: it may succeed but must confer exactly anonymous rights");
    ctx.finish();
}
