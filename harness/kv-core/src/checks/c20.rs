//! C20 — UUIDs are immutable and the system range is protected.
//!
//! E1 product on a real server: a user who is granted EVERYTHING (a generated access control
//! profile for search / create / modify / delete on every entry, every attribute and every
//! class known to the schema) tries, through access-checked requests, every kind of
//! modification of the uuid attribute on user-made and built-in targets (modify and batch
//! modify), creations with uuids across the reserved range boundary, and deletion of every
//! built-in entry. Each case runs in a write transaction that is then dropped. Oracle: the
//! request fails or has no effect on the target's uuid; no entry below the dynamic range is
//! created; no built-in entry disappears.

use crate::acpfx::{all_attributes, all_classes, group_entry, ident_of, Acp};
use crate::idmfx::{person_entry, person_uuid};
use crate::srv::{self, Srv};
use kanidmd_lib::entry::{Entry, EntryInit, EntryNew};
use kanidmd_lib::event::{CreateEvent, DeleteEvent, ModifyEvent};
use kanidmd_lib::prelude::*;
use kanidmd_lib::server::batch_modify::BatchModifyEvent;
use kv_engine::{Ctx, Level};
use serde_json::json;
use std::collections::BTreeSet;

const GA: u128 = 0xac20_0000_0000_4000_8000_0000_0000_0001;

fn setup() -> Srv {
    let srv = Srv::new();
    let r = srv.write(srv::t(10), |w| {
        w.internal_create(vec![person_entry("root2", person_uuid(0)), person_entry("victim", person_uuid(1)), group_entry("grantall", Uuid::from_u128(GA), &[person_uuid(0)])])?;
        let attrs = all_attributes(w);
        let classes = all_classes(w);
        let acp = Acp {
            name: "grant_everything".into(),
            uuid: Uuid::from_u128(GA + 1),
            receiver_group: Uuid::from_u128(GA),
            target: None,
            search_attrs: attrs.clone(),
            modify_present_attrs: attrs.clone(),
            modify_removed_attrs: attrs.clone(),
            modify_present_classes: classes.clone(),
            modify_remove_classes: classes.clone(),
            create_attrs: attrs,
            create_classes: classes,
            delete: true,
        };
        w.internal_create(vec![acp.to_entry()])
    });
    if let Err(e) = r {
        kv_engine::ctx::machinery_exit(&format!("C20 setup: {e:?}"));
    }
    srv
}

fn uuid_set(w: &mut QueryServerWriteTransaction<'_>) -> BTreeSet<Uuid> {
    w.internal_search(Filter::new(f_pres(Attribute::Class))).map(|v| v.iter().map(|e| e.get_uuid()).collect()).unwrap_or_default()
}

pub fn run(args: &[String]) -> ! {
    let mut ctx = Ctx::new("C20", Level::Exploration, args);
    let srv = setup();
    let (mut evals, mut nontrivial, mut nbad) = (0u64, 0u64, 0u64);
    let new_uuid = Uuid::from_u128(0xac20_0000_0000_4000_8000_0000_0000_0777);

    // all built-in entries (class builtin or system) and the targets for uuid edits
    let builtins: Vec<(Uuid, String)> = srv.read(|r| {
        r.internal_search(Filter::new(f_or(vec![f_eq(Attribute::Class, EntryClass::Builtin.into()), f_eq(Attribute::Class, EntryClass::System.into())])))
            .map(|v| v.iter().map(|e| (e.get_uuid(), e.get_ava_set(Attribute::Name).and_then(|n| n.to_proto_string_clone_iter().next()).or_else(|| e.get_ava_set(Attribute::AttributeName).and_then(|n| n.to_proto_string_clone_iter().next())).or_else(|| e.get_ava_set(Attribute::ClassName).and_then(|n| n.to_proto_string_clone_iter().next())).unwrap_or_default())).collect())
            .unwrap_or_default()
    });
    if builtins.len() < 50 {
        ctx.machinery_error(format!("only {} built-in entries found", builtins.len()));
    }
    let targets: Vec<(Uuid, &str)> = vec![(person_uuid(1), "user-made person"), (UUID_IDM_ADMIN, "built-in idm_admin"), (UUID_DOMAIN_INFO, "domain info"), (UUID_ANONYMOUS, "anonymous"), (UUID_IDM_ALL_PERSONS, "built-in group"), (person_uuid(0), "the acting user itself")];

    // vacuity: the grant-everything user can really modify / create / delete ordinary things
    let r = srv.write_abort(srv::t(20), |w| {
        let id = ident_of(w, person_uuid(0), AccessScope::ReadWrite)?;
        let me = ModifyEvent::from_internal_parts(id.clone(), &ModifyList::new_purge_and_set(Attribute::DisplayName, Value::new_utf8s("changed")), &Filter::new(f_eq(Attribute::Uuid, PartialValue::Uuid(person_uuid(1)))), w)?;
        w.modify(&me)?;
        let ce = CreateEvent::new_impersonate_identity(id.clone(), vec![person_entry("fresh", Uuid::from_u128(0xac20_0000_0000_4000_8000_0000_0000_0999))]);
        w.create(&ce)?;
        let de = DeleteEvent::from_parts(id, &Filter::new(f_eq(Attribute::Uuid, PartialValue::Uuid(person_uuid(1)))), w)?;
        w.delete(&de)
    });
    if !matches!(r, Ok(Ok(()))) {
        ctx.machinery_error(format!("vacuity guard: the grant-everything user cannot do ordinary modify/create/delete: {r:?}"));
    }

    // ---- 1. uuid edits
    let kinds: Vec<(&str, Box<dyn Fn(Uuid) -> ModifyList<ModifyInvalid>>)> = vec![
        ("present(new)", Box::new(move |_| ModifyList::new_list(vec![Modify::Present(Attribute::Uuid, Value::Uuid(new_uuid))]))),
        ("removed(old)", Box::new(|old| ModifyList::new_list(vec![Modify::Removed(Attribute::Uuid, PartialValue::Uuid(old))]))),
        ("purged", Box::new(|_| ModifyList::new_list(vec![Modify::Purged(Attribute::Uuid)]))),
        ("purge+present(new)", Box::new(move |_| ModifyList::new_purge_and_set(Attribute::Uuid, Value::Uuid(new_uuid)))),
        ("removed(old)+present(new)", Box::new(move |old| ModifyList::new_list(vec![Modify::Removed(Attribute::Uuid, PartialValue::Uuid(old)), Modify::Present(Attribute::Uuid, Value::Uuid(new_uuid))]))),
        ("set(new)", Box::new(move |_| ModifyList::new_list(vec![Modify::Set(Attribute::Uuid, kanidmd_lib::valueset::ValueSetUuid::new(new_uuid))]))),
        // the same together with a rename: a changed uuid would otherwise trip over its own name in
        // the uniqueness check, which is an accident, not the protection the property describes
        ("set(new)+rename", Box::new(move |_| ModifyList::new_list(vec![Modify::Set(Attribute::Uuid, kanidmd_lib::valueset::ValueSetUuid::new(new_uuid)), Modify::Purged(Attribute::Name), Modify::Present(Attribute::Name, Value::new_iname("renamed-with-uuid"))]))),
        ("purge+present(new)+rename", Box::new(move |_| ModifyList::new_list(vec![Modify::Purged(Attribute::Uuid), Modify::Present(Attribute::Uuid, Value::Uuid(new_uuid)), Modify::Purged(Attribute::Name), Modify::Present(Attribute::Name, Value::new_iname("renamed-with-uuid"))]))),
        ("present(system uuid)", Box::new(|_| ModifyList::new_list(vec![Modify::Present(Attribute::Uuid, Value::Uuid(Uuid::from_u128(0x0000_0000_0000_0000_0000_ffff_0000_1234)))]))),
    ];
    for (target, tname) in &targets {
        for (kname, mk) in &kinds {
            for batch in [false, true] {
                evals += 1;
                nontrivial += 1;
                let ml = mk(*target);
                let r = srv.write_abort(srv::t(30), |w| {
                    let before = uuid_set(w);
                    let id = ident_of(w, person_uuid(0), AccessScope::ReadWrite)?;
                    let res: Result<(), OperationError> = if batch {
                        let mut m = std::collections::BTreeMap::new();
                        m.insert(*target, ml.clone());
                        (|| {
                            let modset = m.into_iter().map(|(u, l)| l.validate(w.get_schema()).map(|v| (u, v)).map_err(OperationError::SchemaViolation)).collect::<Result<_, _>>()?;
                            w.batch_modify(&BatchModifyEvent { ident: id.clone(), modset })
                        })()
                    } else {
                        ModifyEvent::from_internal_parts(id.clone(), &ml, &Filter::new(f_eq(Attribute::Uuid, PartialValue::Uuid(*target))), w).and_then(|me| w.modify(&me))
                    };
                    let after = uuid_set(w);
                    Ok::<_, OperationError>((format!("{res:?}"), before, after))
                });
                match r {
                    Ok(Ok((res, before, after))) => {
                        if std::env::var("KV_DEBUG").is_ok() {
                            eprintln!("{tname} {kname} batch={batch}: {res}");
                        }
                        if before != after {
                            nbad += 1;
                            let gone: Vec<_> = before.difference(&after).collect();
                            let came: Vec<_> = after.difference(&before).collect();
                            ctx.violation(
                                &format!("uuid_changed:{kname}:{}", if batch { "batch" } else { "modify" }),
                                &format!("{kname} on the uuid of {tname} through {} answered {res}; uuids that disappeared: {gone:?}, appeared: {came:?}", if batch { "batch modify" } else { "modify" }),
                                json!({"target": tname, "kind": kname, "batch": batch}),
                            );
                        }
                    }
                    other => ctx.machinery_error(format!("uuid edit case failed to run: {other:?}")),
                }
            }
        }
    }

    // ---- 2. creations across the reserved boundary
    let dyn_min = DYNAMIC_RANGE_MINIMUM_UUID.as_u128();
    let cands: Vec<(u128, &str)> = vec![
        (0, "nil"),
        (1, "1"),
        (0x0000_0000_0000_0000_0000_0000_0000_1000, "idm_high_privilege (exists)"),
        (0x0000_0000_0000_0000_0000_ffff_ffff_fffe, "unused system"),
        (0x0000_0000_0000_0000_0000_ffff_ffff_ffff, "anonymous (exists)"),
        (dyn_min - 1, "last reserved"),
        (dyn_min, "first dynamic"),
        (dyn_min + 1, "second dynamic"),
        (0xac20_0000_0000_4000_8000_0000_0000_0888, "ordinary"),
    ];
    for (u, uname) in &cands {
        for kind in ["person", "group"] {
            evals += 1;
            let uuid = Uuid::from_u128(*u);
            if *u < dyn_min {
                nontrivial += 1;
            }
            let r = srv.write_abort(srv::t(40), |w| {
                let before = uuid_set(w);
                let id = ident_of(w, person_uuid(0), AccessScope::ReadWrite)?;
                let e: Entry<EntryInit, EntryNew> = if kind == "person" { person_entry("created1", uuid) } else { group_entry("created1", uuid, &[]) };
                let res = w.create(&CreateEvent::new_impersonate_identity(id, vec![e]));
                let after = uuid_set(w);
                Ok::<_, OperationError>((format!("{res:?}"), before, after))
            });
            match r {
                Ok(Ok((res, before, after))) => {
                    let came: Vec<Uuid> = after.difference(&before).copied().collect();
                    if came.iter().any(|c| c.as_u128() < dyn_min) {
                        nbad += 1;
                        ctx.violation("created_in_reserved_range", &format!("creating a {kind} with uuid {uname} answered {res} and added {came:?} below the dynamic range"), json!({"create": uname, "kind": kind}));
                    }
                    if *u >= dyn_min && came.is_empty() {
                        ctx.machinery_error(format!("vacuity guard: creating a {kind} with dynamic-range uuid {uname} failed: {res}"));
                    }
                }
                other => ctx.machinery_error(format!("create case failed to run: {other:?}")),
            }
        }
    }

    // ---- 3. deletion of every built-in entry (by uuid, and one sweep by class)
    for (u, name) in &builtins {
        evals += 1;
        nontrivial += 1;
        let r = srv.write_abort(srv::t(50), |w| {
            let id = ident_of(w, person_uuid(0), AccessScope::ReadWrite)?;
            let res = DeleteEvent::from_parts(id, &Filter::new(f_eq(Attribute::Uuid, PartialValue::Uuid(*u))), w).and_then(|de| w.delete(&de));
            let still = w.internal_search_uuid(*u).is_ok();
            Ok::<_, OperationError>((format!("{res:?}"), still))
        });
        match r {
            Ok(Ok((res, still))) => {
                if !still {
                    nbad += 1;
                    ctx.violation("builtin_deleted", &format!("deleting the built-in entry {name} ({u}) answered {res} and the entry is gone"), json!({"delete": name}));
                }
            }
            other => ctx.machinery_error(format!("delete case failed to run: {other:?}")),
        }
    }
    evals += 1;
    let r = srv.write_abort(srv::t(51), |w| {
        let before = uuid_set(w);
        let id = ident_of(w, person_uuid(0), AccessScope::ReadWrite)?;
        let res = DeleteEvent::from_parts(id, &Filter::new(f_pres(Attribute::Class)), w).and_then(|de| w.delete(&de));
        let after = uuid_set(w);
        Ok::<_, OperationError>((format!("{res:?}"), before, after))
    });
    if let Ok(Ok((res, before, after))) = r {
        let gone: Vec<Uuid> = before.difference(&after).copied().filter(|u| builtins.iter().any(|b| b.0 == *u)).collect();
        if !gone.is_empty() {
            nbad += 1;
            ctx.violation("builtin_deleted_by_sweep", &format!("one delete request matching every entry answered {res} and removed built-in entries {:?}", gone.iter().take(5).collect::<Vec<_>>()), json!({"delete": "sweep"}));
        }
    }

    ctx.set("evaluations", evals);
    ctx.set("distinct_nontrivial", nontrivial);
    ctx.set("rule", "acting user holds a generated profile granting search/create/modify/delete of every attribute and class on every entry. uuid edits: 9 modification kinds x 6 targets x {modify, batch modify}; creations: 9 uuids across the reserved boundary x {person, group}; deletions: every built-in entry by uuid plus one request matching all entries. Non-trivial = requests the property forbids");
    ctx.set("builtin_entries", builtins.len() as u64);
    ctx.set("mismatches", nbad);
    ctx.set("exhaustive", true);
    ctx.sample(json!({"uuid_edit": "purge+present(new) on built-in idm_admin via batch modify"}));
    ctx.sample(json!({"create": "person with uuid 00000000-0000-0000-0000-ffffffffffff"}));
    ctx.sample(json!({"delete": builtins.first().map(|b| b.1.clone())}));
    ctx.assume("every request is made as an ordinary read-write user identity through the access-checked modify / batch_modify / create / delete entry points");
    ctx.finish();
}
