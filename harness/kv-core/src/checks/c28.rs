//! C28 — failed credentials are rate limited.
//!
//! Part 1 (this file, E2-style BFS to a fixpoint on the real `CredSoftLock`): state = (the real
//! lock object, harness clock, administrator soft-lock expiry, history variables). Events follow
//! the way `IdmServer::auth` / `auth_with_unix_pass` use the lock under its mutex:
//!   attempt-and-fail : apply_time_step(ct, expiry); if is_valid() { record_failure(ct) }
//!   check / success  : apply_time_step(ct, expiry); read is_valid()
//!   advance          : ct += d for d in a grid incl. "to unlock_at", "+1", "to reset_at", "+1"
//!   admin expiry     : none / now / now+3 / reset_at+3
//! Invariants (from the statement):
//!   I1 refused until unlock: after a recorded failure the credential is refused for every
//!      ct <= min(unlock_at, reset_at) (the window end also ends the lock), absent admin action;
//!   I2 a further failure in the same window never gives an earlier unlock time;
//!   I3 the failure count goes down only when ct > reset_at, or when an administrator expiry e
//!      with ct > e has been set; never on check/success;
//!   I4 without administrator intervention: <= 100 recorded failures per UTC day (Password),
//!      <= 3 per TOTP step (Totp).

use kanidmd_lib::verif_hooks::{CredSoftLockPolicy, VerifSoftLock};
use kv_engine::{Ctx, Fnv, Level};
use serde_json::json;
use std::collections::{HashSet, VecDeque};
use std::time::Duration;

#[derive(Clone, Copy, Debug, PartialEq, Eq)]
enum Ev {
    Fail,
    Check,
    Adv(u64),
    ToUnlock,
    ToUnlock1,
    ToReset,
    ToReset1,
    ExpNone,
    ExpNow,
    ExpSoon,
    ExpAfterReset,
}

#[derive(Clone)]
struct St {
    lock: VerifSoftLock,
    ct: u64,
    exp: Option<u64>,
    // history variables
    lock_until: u64,  // I1: refused while ct <= lock_until (0 = none)
    prev_unlock: u64, // I2
    day: u64,
    day_fails: u32,
    step: u64,
    step_fails: u32,
    depth: u32,
}

fn secs(d: Duration) -> u64 {
    d.as_secs()
}

impl St {
    fn hash(&self) -> u64 {
        let c = self.lock.canon();
        let mut h = Fnv::new();
        h.write_u64(u64::from(c.0));
        h.write_u64(c.1 as u64);
        h.write_u64(secs(c.2));
        h.write_u64(secs(c.3));
        h.write_u64(secs(c.4));
        h.write_u64(self.ct);
        h.write_u64(self.exp.map(|e| e + 1).unwrap_or(0));
        h.write_u64(self.lock_until);
        h.write_u64(self.prev_unlock);
        h.write_u64(self.day);
        h.write_u64(u64::from(self.day_fails));
        h.write_u64(self.step);
        h.write_u64(u64::from(self.step_fails));
        h.finish()
    }
}

struct Model {
    policy: CredSoftLockPolicy,
    name: &'static str,
    step_len: u64, // for I4 (TOTP); 0 = not applicable
    day_cap: u32,  // 0 = not applicable
    step_cap: u32,
    t_start: u64,
    t_end: u64,
    advs: Vec<u64>,
    with_admin: bool,
}

fn events(m: &Model) -> Vec<Ev> {
    let mut v = vec![Ev::Fail, Ev::Check];
    for a in &m.advs {
        v.push(Ev::Adv(*a));
    }
    v.extend([Ev::ToUnlock, Ev::ToUnlock1, Ev::ToReset, Ev::ToReset1]);
    if m.with_admin {
        v.extend([Ev::ExpNone, Ev::ExpNow, Ev::ExpSoon, Ev::ExpAfterReset]);
    }
    v
}

/// Apply one event on the real lock; return the successor and any violated invariant.
fn step(m: &Model, s: &St, ev: Ev) -> Option<(St, Option<(String, String)>)> {
    let mut n = s.clone();
    n.depth += 1;
    let before = s.lock.canon();
    let viol = None;
    match ev {
        Ev::ToUnlock | Ev::ToUnlock1 => {
            if before.0 != 1 {
                return None;
            }
            let tgt = secs(before.3) + if ev == Ev::ToUnlock1 { 1 } else { 0 };
            if tgt <= s.ct {
                return None;
            }
            n.ct = tgt;
            return if n.ct > m.t_end { None } else { check_or_fail(m, s, n, false) };
        }
        Ev::ToReset | Ev::ToReset1 => {
            if before.0 == 0 {
                return None;
            }
            let tgt = secs(before.2) + if ev == Ev::ToReset1 { 1 } else { 0 };
            if tgt <= s.ct {
                return None;
            }
            n.ct = tgt;
            return if n.ct > m.t_end { None } else { check_or_fail(m, s, n, false) };
        }
        Ev::ExpNone | Ev::ExpNow | Ev::ExpSoon | Ev::ExpAfterReset => {
            let e = match ev {
                Ev::ExpNone => None,
                Ev::ExpNow => Some(s.ct),
                Ev::ExpSoon => Some(s.ct + 3),
                _ => {
                    if before.0 == 0 {
                        return None;
                    }
                    Some(secs(before.2) + 3)
                }
            };
            if e == s.exp {
                return None;
            }
            n.exp = e;
            // administrator intervention: the rate claims restart from here
            n.lock_until = 0;
            n.prev_unlock = 0;
            n.day_fails = 0;
            n.step_fails = 0;
        }
        Ev::Adv(d) => {
            n.ct += d;
            return if n.ct > m.t_end { None } else { check_or_fail(m, s, n, false) };
        }
        Ev::Check => return check_or_fail(m, s, n, false),
        Ev::Fail => return check_or_fail(m, s, n, true),
    }
    Some((n, viol))
}

/// `n` is `prev` with the clock possibly advanced. Apply the time step at n.ct (as every server
/// path does before consulting the lock), evaluate the invariants, and record a failure if asked
/// and admitted.
fn check_or_fail(m: &Model, prev: &St, mut n: St, fail: bool) -> Option<(St, Option<(String, String)>)> {
    let mut viol = None;
    let before = prev.lock.canon();
    // `s` = the state whose clock is the event time
    let s = St { ct: n.ct, ..prev.clone() };
    let s = &s;
    {
        {
            let ct = Duration::from_secs(s.ct);
            let exp = s.exp.map(Duration::from_secs);
            n.lock.apply_time_step(ct, exp);
            let valid = n.lock.is_valid();
            let mid = n.lock.canon();
            // the lock consumed a (new to it) administrator expiry in this step: that is the
            // "administrator-set soft-lock expiry" of the statement, the rate claims restart here
            let admin_applied = mid.4 != before.4;
            if admin_applied {
                n.lock_until = 0;
                n.prev_unlock = 0;
                n.day_fails = 0;
                n.step_fails = 0;
            }
            // I1
            if valid && !admin_applied && s.lock_until != 0 && s.ct <= s.lock_until {
                viol = Some(("I1_unlocked_early".to_string(), format!("valid at ct={} although last failure locked until {}", s.ct, s.lock_until)));
            }
            // I3 on the time step
            let count_before = if before.0 == 0 { 0 } else { before.1 };
            let count_mid = if mid.0 == 0 { 0 } else { mid.1 };
            if count_mid < count_before {
                let by_time = s.ct > secs(before.2);
                let by_admin = admin_applied && s.exp.map(|e| s.ct > e).unwrap_or(false);
                if !by_time && !by_admin {
                    viol = Some(("I3_count_reset_early".to_string(), format!("count {count_before}->{count_mid} at ct={} with reset_at={} expiry={:?}", s.ct, secs(before.2), s.exp)));
                }
            }
            if fail && valid {
                n.lock.record_failure(ct);
                let after = n.lock.canon();
                // history: day / step buckets
                let day = s.ct / 86400;
                if day != s.day {
                    n.day = day;
                    n.day_fails = 0;
                }
                n.day_fails += 1;
                if m.step_len > 0 {
                    let st = s.ct / m.step_len;
                    if st != s.step {
                        n.step = st;
                        n.step_fails = 0;
                    }
                    n.step_fails += 1;
                }
                if after.0 == 1 {
                    let unlock = secs(after.3);
                    let reset = secs(after.2);
                    // I2: same window (count carried over) => unlock not earlier than before
                    if count_mid > 0 && unlock < n.prev_unlock {
                        viol = Some(("I2_lock_shortened".to_string(), format!("failure at ct={} gives unlock_at={unlock} earlier than previous {}", s.ct, s.prev_unlock)));
                    }
                    n.prev_unlock = unlock;
                    n.lock_until = std::cmp::min(unlock, reset);
                    if after.1 != count_mid + 1 {
                        viol = Some(("I3_count_not_incremented".to_string(), format!("failure at ct={} count {count_mid} -> {}", s.ct, after.1)));
                    }
                } else {
                    viol = Some(("I1_failure_did_not_lock".to_string(), format!("failure at ct={} left the credential unlocked: {after:?}", s.ct)));
                }
                // I4
                if m.day_cap > 0 && n.day_fails > m.day_cap {
                    viol = Some(("I4_day_cap".to_string(), format!("{} failures recorded in UTC day {}", n.day_fails, n.day)));
                }
                if m.step_cap > 0 && n.step_fails > m.step_cap {
                    viol = Some(("I4_step_cap".to_string(), format!("{} failures recorded in TOTP step {}", n.step_fails, n.step)));
                }
            } else if valid {
                // once valid again the I1 obligation is over
                if s.ct > s.lock_until {
                    n.lock_until = 0;
                }
            }
        }
    }
    // normalise history variables whose obligation is over
    if n.lock_until != 0 && n.ct > n.lock_until {
        n.lock_until = 0;
    }
    // any later failure happens at ct' >= n.ct and unlocks after ct': once prev_unlock <= ct the
    // I2 obligation can no longer be violated
    if n.lock.canon().0 == 0 || n.prev_unlock <= n.ct {
        n.prev_unlock = 0;
    }
    let _ = m;
    Some((n, viol))
}

struct Res {
    states: u64,
    transitions: u64,
    max_depth: u32,
    max_count: usize,
    locked_states: u64,
    viol: Vec<(String, String, Vec<String>)>,
    capped: bool,
}

fn bfs(m: &Model, max_states: u64) -> Res {
    let init = St {
        lock: VerifSoftLock::new(m.policy.clone()),
        ct: m.t_start,
        exp: None,
        lock_until: 0,
        prev_unlock: 0,
        day: m.t_start / 86400,
        day_fails: 0,
        step: if m.step_len > 0 { m.t_start / m.step_len } else { 0 },
        step_fails: 0,
        depth: 0,
    };
    let evs = events(m);
    let mut seen: HashSet<u64> = HashSet::new();
    // parent pointers for counterexample reconstruction: hash -> (parent hash, event)
    let mut parent: std::collections::HashMap<u64, (u64, Ev)> = std::collections::HashMap::new();
    let keep_parents = max_states <= 10_000_000;
    let mut q = VecDeque::new();
    seen.insert(init.hash());
    q.push_back(init);
    let mut r = Res { states: 1, transitions: 0, max_depth: 0, max_count: 0, locked_states: 0, viol: Vec::new(), capped: false };
    while let Some(s) = q.pop_front() {
        let sh = s.hash();
        for ev in &evs {
            let Some((n, viol)) = step(m, &s, *ev) else { continue };
            r.transitions += 1;
            let nh = n.hash();
            if let Some((k, what)) = viol {
                if !r.viol.iter().any(|v| v.0 == k) {
                    // reconstruct path
                    let mut path = vec![format!("{ev:?}")];
                    let mut cur = sh;
                    while let Some((p, e)) = parent.get(&cur) {
                        path.push(format!("{e:?}"));
                        cur = *p;
                    }
                    path.reverse();
                    r.viol.push((k, what, path));
                }
                continue;
            }
            if seen.insert(nh) {
                r.states += 1;
                r.max_depth = std::cmp::max(r.max_depth, n.depth);
                let c = n.lock.canon();
                r.max_count = std::cmp::max(r.max_count, c.1);
                if c.0 == 1 {
                    r.locked_states += 1;
                }
                if keep_parents {
                    parent.insert(nh, (sh, *ev));
                }
                if r.states >= max_states {
                    r.capped = true;
                    return r;
                }
                q.push_back(n);
            }
        }
    }
    r
}

fn models(quick: bool) -> Vec<Model> {
    let day = 86400u64;
    // start shortly before a UTC day boundary, a whole number of days after the epoch
    let base = 20000 * day;
    let mut v = Vec::new();
    // Password: the 100-failure cap needs >= 2*1+6*3+16*5+75*10 = 850 s of failures
    v.push(Model {
        policy: CredSoftLockPolicy::Password,
        name: "password/no-admin",
        step_len: 0,
        day_cap: 100,
        step_cap: 0,
        t_start: base - 1000,
        t_end: base + if quick { 60 } else { 1200 },
        advs: if quick { vec![1, 4, 11] } else { vec![1, 2, 4, 6, 11] },
        with_admin: false,
    });
    v.push(Model {
        policy: CredSoftLockPolicy::Password,
        name: "password/admin-expiry",
        step_len: 0,
        day_cap: 100,
        step_cap: 0,
        t_start: base - 40,
        t_end: base + if quick { 25 } else { 60 },
        advs: if quick { vec![1, 4] } else { vec![1, 2, 4, 11] },
        with_admin: true,
    });
    for step in [30u64, 31, 60] {
        if quick && step == 31 {
            continue;
        }
        v.push(Model {
            policy: CredSoftLockPolicy::Totp(step),
            name: match step {
                30 => "totp30",
                31 => "totp31",
                _ => "totp60",
            },
            step_len: step,
            day_cap: 0,
            step_cap: 3,
            t_start: base - step - 7,
            t_end: base + 2 * step + 5,
            advs: vec![1, 2, 4, 11],
            with_admin: !quick || step == 30,
        });
    }
    v.push(Model {
        policy: CredSoftLockPolicy::Webauthn,
        name: "webauthn",
        step_len: 0,
        day_cap: 0,
        step_cap: 0,
        t_start: base - 10,
        t_end: base + 20,
        advs: vec![1, 2, 4],
        with_admin: true,
    });
    v
}

pub fn run(args: &[String]) -> ! {
    let mut ctx = Ctx::new("C28", Level::ModelChecking, args);
    let quick = ctx.quick();
    let ms = models(quick);

    if let Some(r) = ctx.replay.clone() {
        let name = r["case"]["model"].as_str().unwrap_or("");
        let Some(m) = ms.iter().find(|m| m.name == name).or_else(|| None) else {
            kv_engine::ctx::machinery_exit("unknown model in replay")
        };
        let res = bfs(m, 10_000_000);
        for (k, what, path) in res.viol {
            println!("path: {path:?}");
            ctx.violation(&k, &what, json!({"model": m.name, "path": path}));
        }
        ctx.finish();
    }

    let mut detail = Vec::new();
    for m in &ms {
        let cap = if quick { 6_000_000 } else { 60_000_000 };
        let res = bfs(m, cap);
        ctx.add("states", res.states);
        ctx.add("transitions", res.transitions);
        // every transition is one or two calls of the real lock object: the "model" is the implementation
        ctx.add("traces_validated_against_impl", res.transitions);
        let md = std::cmp::max(ctx.get_u64("max_depth"), u64::from(res.max_depth));
        ctx.set("max_depth", md);
        detail.push(json!({"model": m.name, "states": res.states, "transitions": res.transitions, "max_depth": res.max_depth, "max_failure_count_reached": res.max_count, "locked_states": res.locked_states, "fixpoint": !res.capped, "horizon_s": m.t_end - m.t_start, "advance_grid": m.advs, "admin_expiry_events": m.with_admin}));
        if res.capped {
            ctx.set("exhaustive", false);
            ctx.assume(&format!("model {} hit the state cap {cap}; covered below it only", m.name));
        }
        for (k, what, path) in res.viol {
            ctx.violation(&format!("{}:{k}", m.name.split('/').next().unwrap_or("")), &what, json!({"model": m.name, "path": path}));
        }
    }
    if ctx.get_u64("states") > 0 && !detail.iter().any(|d| d["fixpoint"] == json!(false)) {
        ctx.set("exhaustive", true);
    }
    ctx.set("models", json!(detail));
    ctx.set("bound", "BFS to fixpoint inside each model's time horizon (see models[].horizon_s); no depth bound");
    ctx.sample(json!({"model": "password/no-admin", "trace": ["Fail", "Check (refused)", "ToUnlock", "Check (still refused: ct == unlock_at)", "ToUnlock1", "Fail", "..."]}));
    ctx.sample(json!({"model": "totp30", "trace": ["Fail", "Adv(2)", "Fail", "Adv(2)", "Fail (count 3: locked until step end)", "ToReset", "Check (refused)", "ToReset1", "Check (valid, count reset)"]}));
    ctx.assume("the lock is used as IdmServer does: apply_time_step; is_valid; (validate); record_failure — atomically under the per-credential mutex, with a non-decreasing clock");
    ctx.assume("only the real CredSoftLock transitions are run; the history variables (failures per UTC day / TOTP step, last unlock time) are the harness's");
    ctx.finish();
}
