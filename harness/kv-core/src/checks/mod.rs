pub mod c01;
pub mod c02;
pub mod c10;
pub mod c11;
pub mod c12;
pub mod c14;
pub mod c20;
pub mod c21;
pub mod c23;
pub mod c24;
pub mod c25;
pub mod c27;
pub mod c28;
pub mod c29;
pub mod c30;
pub mod c31;
pub mod c35;
pub mod c37;
pub mod c04;
pub mod c05;
pub mod c06;
pub mod c07;
pub mod c13;
pub mod c15;
pub mod c38;
pub mod c39;
pub mod c40;
pub mod keychecks;
pub mod refchecks;
pub mod c41;
pub mod c42;
pub mod c43;
pub mod c44;
pub mod c45;
pub mod c46;
pub mod c47;
pub mod c48;
pub mod c49;
pub mod c50;
pub mod dirchecks;
pub mod replchecks;
pub mod tokchecks;

pub fn dispatch(id: &str, args: &[String]) -> ! {
    match id {
        "C01" => c01::run(args),
        "C02" => c02::run(args),
        "C03" => dirchecks::run("C03", args),
        "C08" => replchecks::run("C08", args),
        "C09" => replchecks::run("C09", args),
        "C10" => c10::run(args),
        "C11" => c11::run(args),
        "C12" => c12::run(args),
        "C14" => c14::run(args),
        "C43" => c43::run(args),
        "C44" => c44::run(args),
        "C45" => c45::run(args),
        "C46" => c46::run(args),
        "C47" => c47::run(args),
        "C48" => c48::run(args),
        "C49" => c49::run(args),
        "C50" => c50::run(args),
        "C04" => c04::run(args),
        "C05" => c05::run(args),
        "C06" => c06::run(args),
        "C07" => c07::run(args),
        "C13" => c13::run(args),
        "C15" => c15::run(args),
        "C38" => c38::run(args),
        "C39" => c39::run(args),
        "C40" => c40::run(args),
        "C34" => keychecks::run(args),
        "C16" => refchecks::run("C16", args),
        "C18" => refchecks::run("C18", args),
        "C41" => c41::run(args),
        "C42" => c42::run(args),
        "C17" => dirchecks::run("C17", args),
        "C19" => replchecks::run("C19", args),
        "C20" => c20::run(args),
        "C21" => c21::run(args),
        "C22" => dirchecks::run("C22", args),
        "C26" => dirchecks::run("C26", args),
        "C23" => c23::run(args),
        "C24" => c24::run(args),
        "C25" => c25::run(args),
        "C27" => c27::run(args),
        "C28" => c28::run(args),
        "C29" => c29::run(args),
        "C30" => c30::run(args),
        "C32" => tokchecks::run("C32", args),
        "C33" => tokchecks::run("C33", args),
        "C36" => tokchecks::run("C36", args),
        "C37" => c37::run(args),
        "C31" => c31::run(args),
        "C35" => c35::run(args),
        _ => {
            eprintln!("MACHINERY-ERROR unknown check {id}");
            std::process::exit(2);
        }
    }
}

pub fn bench2() {
    use crate::srv::{self, Srv};
    use kanidmd_lib::prelude::*;
    let dir = std::path::PathBuf::from("/dev/shm/kvbench");
    let _ = std::fs::remove_dir_all(&dir);
    std::fs::create_dir_all(&dir).unwrap();
    let tpl = dir.join("tpl.db");
    let t = std::time::Instant::now();
    {
        let s = Srv::new_at(Some(&tpl), 2, DOMAIN_TGT_LEVEL);
        drop(s);
    }
    eprintln!("template init on tmpfs: {:?}; files: {:?}", t.elapsed(), std::fs::read_dir(&dir).unwrap().map(|e| (e.as_ref().unwrap().file_name(), e.unwrap().metadata().unwrap().len())).collect::<Vec<_>>());
    for i in 0..5 {
        let t = std::time::Instant::now();
        let p = dir.join(format!("c{i}.db"));
        std::fs::copy(&tpl, &p).unwrap();
        let s = Srv::new_at(Some(&p), 2, DOMAIN_TGT_LEVEL);
        let a = t.elapsed();
        let t = std::time::Instant::now();
        let r = s.write(srv::t(50 + i), |w| {
            let mut e: kanidmd_lib::entry::Entry<kanidmd_lib::entry::EntryInit, kanidmd_lib::entry::EntryNew> = kanidmd_lib::entry::Entry::new();
            e.add_ava(Attribute::Class, EntryClass::Object.to_value());
            e.add_ava(Attribute::Class, EntryClass::Group.to_value());
            e.add_ava(Attribute::Name, Value::new_iname("g"));
            w.internal_create(vec![e])
        });
        eprintln!("copy+reopen {a:?}; one write {:?} -> {r:?}", t.elapsed());
        drop(s);
        let _ = std::fs::remove_file(&p);
    }
    let _ = std::fs::remove_dir_all(&dir);
}

pub fn bench() {
    use crate::worlds::dir::{Cfg, Dir, Op};
    use kv_engine::forkdfs::World;
    let t0 = std::time::Instant::now();
    let mut w = Dir::new(Cfg { slots: vec![0, 2, 4], names: 2, lifecycle: true, domain_rename: true, props: ["C22"].into_iter().collect(), ..Default::default() });
    eprintln!("new: {:?}", t0.elapsed());
    for op in [Op::Create(0, 0), Op::Create(2, 1), Op::Rename(0, 1), Op::Delete(0), Op::Revive(0)] {
        let t = std::time::Instant::now();
        let l = w.apply(&op);
        let a = t.elapsed();
        let t = std::time::Instant::now();
        let c = w.check(None);
        let b = t.elapsed();
        let t = std::time::Instant::now();
        let _ = w.canon();
        let o = w.ops();
        eprintln!("{op:?} -> {l}: apply {a:?} check {b:?} ({}) canon+ops {:?} ({} ops)", c.len(), t.elapsed(), o.len());
    }
    let t = std::time::Instant::now();
    for _ in 0..20 {
        let pid = unsafe { libc::fork() };
        if pid == 0 {
            unsafe { libc::_exit(0) };
        }
        let mut st = 0;
        unsafe { libc::waitpid(pid, &mut st, 0) };
    }
    eprintln!("20 bare forks: {:?}", t.elapsed());
    let vis = if std::env::var("KV_VIS").is_ok() { Some(kv_engine::shm::Visited::new(24)) } else { None };
    if let Some(v) = &vis { v.insert(12345); }
    let t = std::time::Instant::now();
    for _ in 0..20 {
        let pid = unsafe { libc::fork() };
        if pid == 0 {
            let t = std::time::Instant::now();
            let _ = w.apply(&Op::Rename(2, 0));
            let a = t.elapsed();
            let t = std::time::Instant::now();
            let _ = w.apply(&Op::Rename(2, 1));
            eprintln!("child apply1 {a:?} apply2 {:?}", t.elapsed());
            unsafe { libc::_exit(0) };
        }
        let mut st = 0;
        unsafe { libc::waitpid(pid, &mut st, 0) };
    }
    eprintln!("20 fork+apply: {:?}", t.elapsed());
}
