pub mod c02;
pub mod c10;
pub mod c11;
pub mod c12;
pub mod c21;
pub mod c28;
pub mod c29;
pub mod c30;
pub mod c35;

pub fn dispatch(id: &str, args: &[String]) -> ! {
    match id {
        "C02" => c02::run(args),
        "C10" => c10::run(args),
        "C11" => c11::run(args),
        "C12" => c12::run(args),
        "C21" => c21::run(args),
        "C28" => c28::run(args),
        "C29" => c29::run(args),
        "C30" => c30::run(args),
        "C35" => c35::run(args),
        _ => {
            eprintln!("MACHINERY-ERROR unknown check {id}");
            std::process::exit(2);
        }
    }
}
