pub mod c10;

pub fn dispatch(id: &str, args: &[String]) -> ! {
    match id {
        "C10" => c10::run(args),
        _ => {
            eprintln!("MACHINERY-ERROR unknown check {id}");
            std::process::exit(2);
        }
    }
}
