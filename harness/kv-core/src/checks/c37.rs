//! C37 — credential reset links are single use (RESET world).

use crate::worlds::reset::{Cfg, Reset};
use kv_engine::forkdfs::{self, Opts};
use kv_engine::{Ctx, Level};
use serde_json::json;

pub fn run(args: &[String]) -> ! {
    let mut ctx = Ctx::new("C37", Level::ModelChecking, args);
    let quick = ctx.quick();
    let cfg = Cfg { links: if quick { 1 } else { 2 }, max_sessions: if quick { 2 } else { 3 } };
    let depth = ctx.opt_u64("depth").map(|d| d as u8).unwrap_or(if quick { 5 } else { 8 });
    let mut w = Reset::new(cfg.clone());

    if let Some(r) = ctx.replay.clone() {
        match forkdfs::replay(&mut w, &r["case"]["trace"]) {
            Ok(v) => {
                for (k, what) in v {
                    println!("{k}: {what}");
                    ctx.violation(&k, &what, r["case"].clone());
                }
            }
            Err(e) => ctx.machinery_error(e),
        }
        ctx.finish();
    }

    let opts = Opts {
        depth,
        procs: ctx.opt_u64("procs").map(|p| p as usize).unwrap_or(2),
        deadline_s: if quick { 45.0 } else { 1500.0 },
        log2_slots: 22,
        dedup: true,
        max_samples: 6,
        par_depth: 1,
    };
    let rep = forkdfs::run_into_ctx(&mut ctx, &mut w, &opts, "reset");
    let outcomes: Vec<&String> = rep.outcomes.keys().collect();
    ctx.set("distinct_outcomes", json!(outcomes));
    if !rep.outcomes.keys().any(|k| k == "ok") || !rep.outcomes.keys().any(|k| k.starts_with("err:")) {
        ctx.machinery_error("vacuous exploration: expected both successful and refused operations".into());
    }
    for k in rep.outcomes.keys() {
        if k.starts_with("machinery:") {
            ctx.machinery_error(format!("harness failure inside the world: {k}"));
        }
    }
    ctx.set("bound", format!("every sequence of <= {depth} operations over {} reset link(s) and at most {} sessions: create link, exchange, set password (2 values), commit, cancel (also on finished sessions), time steps of 1 s and to just past a link's expiry", cfg.links, cfg.max_sessions));
    ctx.set("depth", u64::from(depth));
    ctx.set("exhaustive", !rep.capped);
    if rep.capped {
        ctx.assume("the wall-clock cap was hit: the search is complete only below the stated depth");
    }
    ctx.assume("links are created by the account for itself with a 900 s lifetime (the server may clamp it; the expiry is read from the returned token)");
    ctx.assume("in every state the stored credential must verify exactly the password of the last committed change");
    ctx.finish();
}
