//! C05 — a crash at any point recovers to the before or the after state.
//!
//! E4 crash enumeration: for each of eight write transactions on a file-backed database, the
//! process is killed (`_exit`, no destructors, nothing flushed by the program) at the n-th named
//! point it passes, for every n until the transaction completes — the points are every use of the
//! write connection, BEGIN, the entry of every database write function, COMMIT, and every
//! publication step of the commit path. The parent then opens a server on the same files.
//!
//! Oracle: the restarted server shows exactly the state before the transaction or exactly the
//! state after it (like for like with a clean restart before / after the same transaction), its
//! own consistency check is clean, and the next transaction — started with a clock in the past —
//! gets a change identifier greater than every identifier stamped on any entry.

use super::c04::{apply, copy_db, first_diff, make_template, observe, open, strip_entries, TXNS};
use crate::idmfx::Idm;
use crate::srv;
use kanidmd_lib::prelude::*;
use kanidmd_lib::verif_hooks::{qs_read_verify, set_point_handler, txn_cid};
use kv_engine::forkdfs::{fork_eval, fork_eval_code, fork_map};
use kv_engine::{Ctx, Level};
use serde_json::json;
use std::path::Path;
use std::sync::atomic::{AtomicU64, Ordering};
use std::sync::Arc;

const CRASH: i32 = 9;

/// what the restarted server shows: observation + consistency + next change identifier
fn restarted(db: &Path) -> String {
    // first the files as a bare backend finds them (a release build's start-up does not re-index)
    let bare = match crate::bkp::backend_level_check(db, &["target", "formerly_target", "created", "reader2"]) {
        Ok(s) => s,
        Err(e) => return format!("RESTART-FAILED backend: {e}"),
    };
    let idm: Idm = match open(db) {
        Ok(i) => i,
        Err(e) => return format!("RESTART-FAILED {e}"),
    };
    let mut o = observe(&idm, false);
    o.push('\n');
    o.push_str(&bare);
    let bad: Vec<String> = idm.read(|r| qs_read_verify(&mut r.qs_read).into_iter().filter_map(|x| x.err()).map(|e| format!("{e:?}")).collect());
    o.push_str(&format!("\nverify:{}", if bad.is_empty() { "clean".to_string() } else { format!("{bad:?}").chars().take(300).collect() }));
    // greatest identifier stamped anywhere
    let max_stamp: String = idm.read(|r| {
        let mut m = String::new();
        for e in r.qs_read.internal_search(Filter::new(f_pres(Attribute::Class))).unwrap_or_default() {
            for part in srv::render_entry(&e, &[]).split(';') {
                if let Some(v) = part.strip_prefix("last_modified_cid=").or_else(|| part.strip_prefix("created_at_cid=")) {
                    if v > m.as_str() {
                        m = v.to_string();
                    }
                }
            }
        }
        m
    });
    let next: Result<String, OperationError> = idm.rt.block_on(async {
        let w = idm.idms.proxy_write(std::time::Duration::from_secs(50)).await?;
        Ok(format!("{}", txn_cid(&w.qs_write)))
    });
    o.push_str(&match next {
        Ok(c) if c > max_stamp => "\nnext_cid:greater".to_string(),
        Ok(c) => format!("\nnext_cid:NOT-GREATER next {c} <= stamped {max_stamp}"),
        Err(e) => format!("\nnext_cid:FAILED {e:?}"),
    });
    o
}

/// Run transaction `k` in a forked child that dies at the n-th point (counting from the start of
/// the transaction, or from the start of its commit). Returns (died, points passed if it did not).
fn crash_run(tpl: &Path, db: &Path, k: usize, n: u64, from_commit: bool) -> Result<(bool, String), String> {
    copy_db(tpl, db)?;
    let (out, code) = fork_eval_code(|| {
        let idm = match open(db) {
            Ok(i) => i,
            Err(e) => return format!("ERR {e}"),
        };
        let hits = Arc::new(AtomicU64::new(0));
        let armed = Arc::new(AtomicU64::new(if from_commit { 0 } else { 1 }));
        let (h, a) = (hits.clone(), armed.clone());
        let last = Arc::new(std::sync::Mutex::new(String::new()));
        let l2 = last.clone();
        set_point_handler(Some(Arc::new(move |p: &'static str| {
            if p == "qs.c.start" {
                a.store(1, Ordering::SeqCst);
            }
            if a.load(Ordering::SeqCst) == 1 {
                let c = h.fetch_add(1, Ordering::SeqCst) + 1;
                if c == n {
                    // the process dies here: no destructors, no rollback, nothing flushed
                    unsafe { libc::_exit(CRASH) };
                }
                if let Ok(mut g) = l2.lock() {
                    *g = p.to_string();
                }
            }
            Ok(())
        })));
        let mut d = 0usize;
        let r: Result<(), OperationError> = idm.rt.block_on(async {
            let mut w = idm.idms.proxy_write(srv::t(2000)).await?;
            apply(&mut w, k, false, None, &mut d)?;
            w.commit()
        });
        set_point_handler(None);
        // the server is NOT shut down cleanly either way
        let _res = format!("done {} {:?} last={}", hits.load(Ordering::SeqCst), r, last.lock().map(|g| g.clone()).unwrap_or_default());
        unsafe { libc::_exit(if r.is_ok() { 0 } else { 4 }) };
        #[allow(unreachable_code)]
        _res
    })?;
    let _ = out;
    match code {
        CRASH => Ok((true, String::new())),
        0 => Ok((false, "completed".into())),
        c => Err(format!("the transaction child ended with code {c}")),
    }
}

pub fn run(args: &[String]) -> ! {
    let mut ctx = Ctx::new("C05", Level::FaultEnumeration, args);
    let dir = ctx.scratch_dir_fast();
    let tpl = dir.join("template.db");
    if let Err(e) = fork_eval(|| make_template(&tpl).err().unwrap_or_default()).and_then(|s| if s.is_empty() { Ok(()) } else { Err(s) }) {
        kv_engine::ctx::machinery_exit(&format!("C05 template: {e}"));
    }
    let from_commit = ctx.opts.get("scope").map(|s| s == "commit").unwrap_or(ctx.quick());
    let cap = ctx.opt_u64("cap").unwrap_or(ctx.pick(400, 5000));
    // quick: four of the eight transaction kinds, every point of their commit; thorough: all
    // eight, every point from the start of the transaction
    let kinds: Vec<usize> = if ctx.quick() && ctx.replay.is_none() { vec![0, 1, 4, 6, 8] } else { (0..TXNS.len()).collect() };
    let workers = kv_engine::product::ncpu().min(16);
    let only: Option<(usize, u64)> = ctx.replay.as_ref().map(|r| (r["case"]["txn"].as_u64().unwrap_or(0) as usize, r["case"]["crash_at"].as_u64().unwrap_or(0)));
    // reference restarts: no transaction (n = never, transaction not run) and completed transaction
    let before = match fork_eval(|| {
        let db = dir.join("ref-before.db");
        if let Err(e) = copy_db(&tpl, &db) {
            return format!("RESTART-FAILED {e}");
        }
        // like for like: the server was running (and died) without having done anything
        let _ = fork_eval_code(|| {
            let _idm = open(&db);
            unsafe { libc::_exit(CRASH) };
            #[allow(unreachable_code)]
            String::new()
        });
        restarted(&db)
    }) {
        Ok(s) if !s.starts_with("RESTART-FAILED") => s,
        Ok(s) | Err(s) => kv_engine::ctx::machinery_exit(&format!("C05 reference: {s}")),
    };
    let afters = match fork_map(workers, TXNS.len(), |k| {
        let db = dir.join(format!("ref-after-{k}.db"));
        match crash_run(&tpl, &db, k, u64::MAX, false) {
            Ok((false, _)) => fork_eval(|| restarted(&db)).unwrap_or_else(|e| format!("RESTART-FAILED {e}")),
            Ok((true, _)) => "RESTART-FAILED reference run died".into(),
            Err(e) => format!("RESTART-FAILED {e}"),
        }
    }) {
        Ok(a) => a,
        Err(e) => kv_engine::ctx::machinery_exit(&format!("C05 references: {e}")),
    };
    if std::env::var("KV_DEBUG").is_ok() {
        for (k, a) in afters.iter().enumerate() {
            eprintln!("reference after [{}]: {}", TXNS[k], a.lines().filter(|l| l.starts_with("verify:") || l.starts_with("name_lookup:") || l.starts_with("next_cid:")).collect::<Vec<_>>().join(" | "));
        }
    }
    for (k, a) in afters.iter().enumerate() {
        if a.starts_with("RESTART-FAILED") || strip_entries(a) == strip_entries(&before) && a == &before {
            ctx.machinery_error(format!("{}: reference after-state unusable: {}", TXNS[k], a.chars().take(200).collect::<String>()));
        }
        // a restart after the completed transaction is the last case of the enumeration
        if !a.starts_with("RESTART-FAILED") && (!a.contains("\nverify:clean") || !a.contains("next_cid:greater") || !a.contains("backend_verify:clean")) {
            let what: Vec<&str> = a.lines().filter(|l| (l.starts_with("verify:") && *l != "verify:clean") || (l.starts_with("backend_verify:") && *l != "backend_verify:clean") || (l.starts_with("next_cid:") && *l != "next_cid:greater")).collect();
            ctx.violation(&format!("restart_not_clean:{}", TXNS[k]), &format!("transaction [{}] completed, the process ended without a clean shutdown, and the restarted server reports {what:?}", TXNS[k]), json!({"txn": k, "crash_at": 0}));
        }
    }
    if !before.contains("\nverify:clean") || !before.contains("backend_verify:clean") || !before.contains("next_cid:greater") {
        ctx.machinery_error(format!("the restart of an untouched database is not clean: {}", before.lines().filter(|l| l.starts_with("verify:") || l.starts_with("backend_verify:") || l.starts_with("next_cid:")).collect::<Vec<_>>().join(" ")));
    }
    // items: (transaction, block of crash indices); blocks keep the workers evenly loaded
    const BLOCK: u64 = 8;
    let blocks = cap.div_ceil(BLOCK);
    let items: Vec<(usize, u64)> = kinds.iter().copied().filter(|k| only.map(|(ok, _)| ok == *k).unwrap_or(true)).flat_map(|k| (0..blocks).map(move |b| (k, b))).collect();
    let results = match fork_map(workers, items.len(), |i| {
        let (k, b) = items[i];
        let db = dir.join(format!("crash-{k}-{b}.db"));
        let mut out = Vec::new();
        for n in (b * BLOCK + 1)..=((b + 1) * BLOCK).min(cap) {
            if let Some((_, on)) = only {
                if on != n {
                    continue;
                }
            }
            match crash_run(&tpl, &db, k, n, from_commit) {
                Ok((false, _)) => {
                    out.push(format!("{n}\u{6}completed"));
                    break;
                }
                Ok((true, _)) => {
                    let got = fork_eval(|| restarted(&db)).unwrap_or_else(|e| format!("RESTART-FAILED {e}"));
                    let deterministic = k != 5 && k != 7;
                    let is_before = got == before;
                    let is_after = if deterministic { got == afters[k] } else { strip_entries(&got) == strip_entries(&afters[k]) };
                    let verdict = if got.starts_with("RESTART-FAILED") {
                        format!("viol:restart_failed|{got}")
                    } else if is_before {
                        "ok|before".to_string()
                    } else if is_after {
                        "ok|after".to_string()
                    } else if strip_entries(&got) == strip_entries(&before) {
                        format!("viol:neither_before_nor_after|the settings are those before the transaction but the entries differ from both reference states: {}", first_diff(&before, &got))
                    } else {
                        format!("viol:neither_before_nor_after|vs before: {} /// vs after: {}", first_diff(&before, &got), first_diff(&afters[k], &got))
                    };
                    out.push(format!("{n}\u{6}{verdict}"));
                }
                Err(e) => out.push(format!("{n}\u{6}machinery|{e}")),
            }
        }
        for suffix in ["", "-wal", "-shm"] {
            let _ = std::fs::remove_file(format!("{}{suffix}", db.display()));
        }
        out.join("\u{5}")
    }) {
        Ok(r) => r,
        Err(e) => kv_engine::ctx::machinery_exit(&format!("C05 cases: {e}")),
    };
    let (mut evals, mut nbefore, mut nafter, mut nbad) = (0u64, 0u64, 0u64, 0u64);
    let mut completed_at: std::collections::BTreeMap<usize, u64> = Default::default();
    for ((k, _), res) in items.iter().zip(results.iter()) {
        for case in res.split('\u{5}').filter(|c| !c.is_empty()) {
            let (n, out) = case.split_once('\u{6}').unwrap_or(("0", case));
            let n: u64 = n.parse().unwrap_or(0);
            if out == "completed" {
                let e = completed_at.entry(*k).or_insert(u64::MAX);
                *e = (*e).min(n);
                continue;
            }
            evals += 1;
            let (verdict, detail) = out.split_once('|').unwrap_or((out, ""));
            match verdict {
                "ok" if detail == "before" => nbefore += 1,
                "ok" => nafter += 1,
                "machinery" => ctx.machinery_error(format!("{} crash at {n}: {detail}", TXNS[*k])),
                v if v.starts_with("viol:") => {
                    nbad += 1;
                    ctx.violation(&format!("{}:{}", &v[5..], TXNS[*k]), &format!("transaction [{}], process killed at the {n}-th point{}: {detail}", TXNS[*k], if from_commit { " of its commit" } else { "" }), json!({"txn": k, "crash_at": n}));
                }
                other => ctx.machinery_error(format!("unparsable {other}")),
            }
            if evals % 97 == 5 {
                ctx.sample(json!({"transaction": TXNS[*k], "crash_at_point": n, "restart_shows": out.chars().take(80).collect::<String>()}));
            }
        }
    }
    // a crash index beyond the last point of a transaction was never needed: every family ended
    // with a run that completed, unless the cap cut it
    let mut cut = 0u64;
    for k in kinds.iter() {
        if only.is_none() && !completed_at.contains_key(k) {
            cut += 1;
        }
    }
    let _ = std::fs::remove_dir_all(&dir);
    ctx.set("evaluations", evals);
    ctx.set("distinct_nontrivial", nbefore.min(nafter) * 2);
    ctx.set("restarts_showing_the_before_state", nbefore);
    ctx.set("restarts_showing_the_after_state", nafter);
    ctx.set("points_per_transaction", json!(completed_at.iter().map(|(k, n)| (TXNS[*k].to_string(), n - 1)).collect::<std::collections::BTreeMap<_, _>>()));
    ctx.set("transactions_cut_off_by_the_cap", cut);
    ctx.set("cap", cap);
    ctx.set("transaction_kinds", json!(kinds.iter().map(|k| TXNS[*k]).collect::<Vec<_>>()));
    ctx.set("scope", if from_commit { "points from the start of commit()" } else { "points from the start of the transaction" });
    ctx.set("mismatches", nbad);
    ctx.set("rule", "the listed transaction kinds x process death at the n-th named point for every n until the transaction completes; each on its own copy of a file-backed database; restart in a fresh process. Non-trivial = both outcomes (before and after) were observed");
    ctx.set("exhaustive", cut == 0);
    ctx.assume("process death is simulated with _exit in the middle of the transaction: what the program had handed to the operating system survives, nothing else (no destructors, no rollback); torn sectors and lost page-cache contents (power loss) are SQLite's own territory and are not modelled");
    ctx.assume("for the two transactions that generate random key material the after state is compared through everything except the entry hash (entry count and every server-wide setting)");
    ctx.finish();
}
