//! C02 — filter rewriting preserves meaning.
//!
//! E1: every filter tree up to depth 3 over small leaf alphabets (ordered child sequences, so
//! duplicates, nested same-operator groups and single-term groups are all included) is
//!   (a) resolved WITHOUT optimisation (hook `filter_resolve_unoptimised`),
//!   (b) run through the real optimiser (`optimise`), the outer-only optimiser (`fast_optimise`)
//!       and the real public `Filter::resolve` (which picks one of them),
//! under index metadata {none, all slope 1, mixed slopes with ties}; then (a) and each of (b) are
//! evaluated with the real `entry_match_no_index` on every entry of an entry alphabet. The four
//! answers must agree for every entry. Also: `Ord for FilterResolved` must be a total preorder on
//! the leaf alphabet (else sort_unstable may panic or mis-sort).

use kanidmd_lib::verif_hooks::IdxKey;
use kanidmd_lib::be::IdxMeta;
use kanidmd_lib::entry::{Entry, EntryInit, EntryNew};
use kanidmd_lib::filter::{Filter, FilterResolved, FilterValid, FilterValidResolved, FC};
use kanidmd_lib::prelude::*;
use crate::srv::Srv;
use kanidmd_lib::verif_hooks::{filter_fast_optimise, filter_optimise, filter_resolve_unoptimised};
use kv_engine::{product, Ctx, Level};
use serde_json::json;
use std::cmp::Ordering;
use hashbrown::HashMap;

fn leaf(i: usize) -> FC {
    match i {
        0 => FC::Eq(Attribute::Name, PartialValue::new_iname("a")),
        1 => FC::Eq(Attribute::Name, PartialValue::new_iname("b")),
        2 => FC::Pres(Attribute::Description),
        3 => FC::Cnt(Attribute::Description, PartialValue::new_utf8s("a")),
        4 => FC::Eq(Attribute::Description, PartialValue::new_utf8s("a")),
        5 => FC::Eq(Attribute::Description, PartialValue::new_utf8s("b")),
        6 => FC::Cnt(Attribute::Name, PartialValue::new_iname("a")),
        7 => FC::Cnt(Attribute::Description, PartialValue::new_utf8s("b")),
        8 => FC::Pres(Attribute::Name),
        9 => FC::LessThan(Attribute::GidNumber, PartialValue::new_uint32(2)),
        10 => FC::SelfUuid,
        11 => FC::Invalid(Attribute::Name),
        12 => FC::Eq(Attribute::Uuid, PartialValue::Uuid(OTHER_UUID)),
        _ => FC::Pres(Attribute::GidNumber),
    }
}
const NLEAF: usize = 14;
const OTHER_UUID: Uuid = Uuid::from_u128(0x0717_e500_0000_4000_8000_0000_0000_0001);

/// A compact tree description that can be rebuilt into FC and printed.
#[derive(Clone, Debug, PartialEq, Eq, Hash, serde::Serialize, serde::Deserialize)]
enum T {
    L(usize),
    And(Vec<T>),
    Or(Vec<T>),
    Not(Box<T>),
    Inc(Vec<T>),
}

fn to_fc(t: &T) -> FC {
    match t {
        T::L(i) => leaf(*i),
        T::And(v) => FC::And(v.iter().map(to_fc).collect()),
        T::Or(v) => FC::Or(v.iter().map(to_fc).collect()),
        T::Inc(v) => FC::Inclusion(v.iter().map(to_fc).collect()),
        T::Not(b) => FC::AndNot(Box::new(to_fc(b))),
    }
}

/// All trees of depth <= d over `leaves`, with And/Or of width 1..=w (ordered sequences) and
/// AndNot; `inc` adds Inclusion groups.
fn trees(leaves: &[usize], d: usize, w: usize, inc: bool, cap: usize) -> Vec<T> {
    let mut level: Vec<T> = leaves.iter().map(|l| T::L(*l)).collect();
    for _ in 1..d {
        let items = level.clone();
        let mut next = items.clone();
        // sequences of width 1..=w
        let n = items.len();
        for width in 1..=w {
            let total = (n as u64).pow(width as u32);
            for idx in 0..total {
                let mut x = idx;
                let mut seq = Vec::with_capacity(width);
                for _ in 0..width {
                    seq.push(items[(x % n as u64) as usize].clone());
                    x /= n as u64;
                }
                next.push(T::And(seq.clone()));
                next.push(T::Or(seq.clone()));
                if inc && width <= 2 {
                    next.push(T::Inc(seq));
                }
                if next.len() > cap {
                    kv_engine::ctx::machinery_exit("tree enumeration exceeded its cap: lower the bound");
                }
            }
        }
        for it in &items {
            next.push(T::Not(Box::new(it.clone())));
        }
        // dedup (the previous level is a prefix of `next`)
        let mut seen = std::collections::HashSet::new();
        next.retain(|t| seen.insert(t.clone()));
        level = next;
    }
    level
}

fn entries() -> Vec<Entry<EntryInit, EntryNew>> {
    let mut v = Vec::new();
    for name in [None, Some("a"), Some("b"), Some("ab"), Some("ba")] {
        for desc in 0..4 {
            for gid in [None, Some(1u32), Some(2)] {
                for uuid in [UUID_SYSTEM, OTHER_UUID, Uuid::from_u128(7)] {
                    let mut e: Entry<EntryInit, EntryNew> = Entry::new();
                    e.add_ava(Attribute::Class, EntryClass::Object.to_value());
                    e.add_ava(Attribute::Uuid, Value::Uuid(uuid));
                    if let Some(n) = name {
                        e.add_ava(Attribute::Name, Value::new_iname(n));
                    }
                    if desc & 1 != 0 {
                        e.add_ava(Attribute::Description, Value::new_utf8s("a"));
                    }
                    if desc & 2 != 0 {
                        e.add_ava(Attribute::Description, Value::new_utf8s("b"));
                    }
                    if let Some(g) = gid {
                        e.add_ava(Attribute::GidNumber, Value::new_uint32(g));
                    }
                    v.push(e);
                }
            }
        }
    }
    v
}

fn idxmetas() -> Vec<(&'static str, Option<IdxMeta>)> {
    let attrs = [Attribute::Name, Attribute::Description, Attribute::Uuid, Attribute::GidNumber];
    let types = [IndexType::Equality, IndexType::Presence, IndexType::SubString, IndexType::Ordering];
    let mut all1 = HashMap::new();
    let mut mixed = HashMap::new();
    let mut partial = HashMap::new();
    let mut n = 0u8;
    for a in &attrs {
        for t in &types {
            all1.insert(IdxKey::new(a.clone(), *t), 1u8);
            // slopes 1,1,2,3,1,1,2,3.. so equal-slope ties and unequal slopes both occur
            mixed.insert(IdxKey::new(a.clone(), *t), [1u8, 1, 2, 3, 200, 90][(n % 6) as usize]);
            if n % 3 != 0 {
                partial.insert(IdxKey::new(a.clone(), *t), [5u8, 5, 40][(n % 3) as usize]);
            }
            n += 1;
        }
    }
    vec![
        ("none", None),
        ("all-slope-1", Some(IdxMeta::new(all1))),
        ("mixed-slopes", Some(IdxMeta::new(mixed))),
        ("partially-indexed", Some(IdxMeta::new(partial))),
    ]
}

struct Fixture {
    schema: &'static kanidmd_lib::schema::SchemaReadTransaction,
    ident: Identity,
    entries: Vec<Entry<EntryInit, EntryNew>>,
    idx: Vec<(&'static str, Option<IdxMeta>)>,
}

fn matches(f: &Filter<FilterValidResolved>, es: &[Entry<EntryInit, EntryNew>]) -> Vec<bool> {
    es.iter().map(|e| e.entry_match_no_index(f)).collect()
}

/// returns Some((key, what)) on disagreement
fn check_tree(fx: &Fixture, t: &T, nontrivial: &mut u64, evals: &mut u64) -> Option<(String, String)> {
    let fc = to_fc(t);
    let fv: Filter<FilterValid> = match Filter::new(fc).validate(fx.schema) {
        Ok(f) => f,
        Err(e) => return Some(("validate_failed".into(), format!("alphabet filter did not validate: {e:?}"))),
    };
    check_filter(fx, &fv, &shape(t), matches!(t, T::L(_)), nontrivial, evals)
}

/// The comparison itself, for a validated filter however it was built.
fn check_filter(fx: &Fixture, fv: &Filter<FilterValid>, shape: &str, is_leaf: bool, nontrivial: &mut u64, evals: &mut u64) -> Option<(String, String)> {
    for (iname, im) in &fx.idx {
        let Some(raw) = filter_resolve_unoptimised(fv, &fx.ident, im.as_ref()) else {
            return Some(("resolve_failed".into(), "filter did not resolve".into()));
        };
        let base = matches(&raw, &fx.entries);
        let opt = std::panic::catch_unwind(std::panic::AssertUnwindSafe(|| filter_optimise(&raw)));
        let fast = std::panic::catch_unwind(std::panic::AssertUnwindSafe(|| filter_fast_optimise(&raw)));
        let real = std::panic::catch_unwind(std::panic::AssertUnwindSafe(|| fv.resolve(&fx.ident, im.as_ref(), None)));
        let (Ok(opt), Ok(fast), Ok(real)) = (opt, fast, real) else {
            return Some(("optimiser_panicked".into(), format!("optimiser panicked (sort on a non-total order?) under idxmeta {iname}")));
        };
        let Ok(real) = real else {
            return Some(("resolve_failed".into(), "public resolve failed".into()));
        };
        *evals += 3 * fx.entries.len() as u64;
        let hits = base.iter().filter(|b| **b).count();
        if hits > 0 && hits < base.len() && !is_leaf {
            *nontrivial += 1;
        }
        for (which, f) in [("optimise", &opt), ("fast_optimise", &fast), ("resolve", &real)] {
            let got = matches(f, &fx.entries);
            if got != base {
                let i = got.iter().zip(base.iter()).position(|(a, b)| a != b).unwrap_or(0);
                return Some((
                    format!("{which}_changes_meaning:{shape}"),
                    format!(
                        "{which} under idxmeta {iname} changes the match set: entry #{i} {:?} matched {} before and {} after; before={:?} after={:?}",
                        fx.entries[i].get_ava_set(Attribute::Name).map(|v| v.to_proto_string_clone_iter().collect::<Vec<_>>()),
                        base[i],
                        got[i],
                        raw.to_inner(),
                        f.to_inner()
                    ),
                ));
            }
        }
    }
    None
}

/// Shape class of a tree: operator skeleton to depth 2 (used as the violation key so that a
/// different shape is a different finding).
fn shape(t: &T) -> String {
    fn s(t: &T, d: usize) -> String {
        match t {
            T::L(_) => "l".into(),
            T::Not(b) => format!("!{}", if d > 0 { s(b, d - 1) } else { "_".into() }),
            T::And(v) => format!("&{}({})", v.len(), if d > 0 { v.iter().map(|x| s(x, d - 1)).collect::<Vec<_>>().join("") } else { "_".into() }),
            T::Or(v) => format!("|{}({})", v.len(), if d > 0 { v.iter().map(|x| s(x, d - 1)).collect::<Vec<_>>().join("") } else { "_".into() }),
            T::Inc(v) => format!("i{}({})", v.len(), if d > 0 { v.iter().map(|x| s(x, d - 1)).collect::<Vec<_>>().join("") } else { "_".into() }),
        }
    }
    s(t, 1)
}

fn order_check(fx: &Fixture) -> (u64, Option<(String, String)>) {
    // resolved leaves (and small groups) under each idxmeta: total preorder laws on all triples
    let ts = trees(&(0..NLEAF).collect::<Vec<_>>(), 2, 1, false, 10_000);
    let mut n = 0u64;
    for (iname, im) in &fx.idx {
        let items: Vec<FilterResolved> = ts
            .iter()
            .filter_map(|t| {
                let fv = Filter::new(to_fc(t)).validate(fx.schema).ok()?;
                filter_resolve_unoptimised(&fv, &fx.ident, im.as_ref()).map(|f| f.to_inner().clone())
            })
            .collect();
        for a in &items {
            for b in &items {
                let ab = a.cmp(b);
                n += 1;
                if ab != b.cmp(a).reverse() {
                    return (n, Some(("ord_not_antisymmetric".into(), format!("idxmeta {iname}: cmp({a:?},{b:?})={ab:?} but reverse is {:?}", b.cmp(a)))));
                }
                for c in &items {
                    let bc = b.cmp(c);
                    let ac = a.cmp(c);
                    if ab != Ordering::Greater && bc != Ordering::Greater && ac == Ordering::Greater {
                        return (n, Some(("ord_not_transitive".into(), format!("idxmeta {iname}: {a:?} <= {b:?} <= {c:?} but a > c"))));
                    }
                    if ab == Ordering::Equal && bc == Ordering::Equal && ac != Ordering::Equal {
                        return (n, Some(("ord_equal_not_transitive".into(), format!("idxmeta {iname}: {a:?} ~ {b:?} ~ {c:?} but a !~ c"))));
                    }
                }
            }
        }
    }
    (n, None)
}

/// One live server per thread, leaked on purpose: its read transaction (and so the full
/// server schema, including the posix attributes) stays valid for the whole run.
fn fixture() -> Fixture {
    fixture_with_txn().0
}

fn fixture_with_txn() -> (Fixture, &'static mut QueryServerReadTransaction<'static>) {
    let srv: &'static Srv = Box::leak(Box::new(Srv::new()));
    let r: &'static mut QueryServerReadTransaction<'static> = Box::leak(Box::new(
        srv.rt
            .block_on(srv.qs.read())
            .unwrap_or_else(|e| kv_engine::ctx::machinery_exit(&format!("read txn: {e:?}"))),
    ));
    // a second server: the in-memory database has a single connection, held by `r` above
    let srv2: &'static Srv = Box::leak(Box::new(Srv::new()));
    let r2: &'static mut QueryServerReadTransaction<'static> = Box::leak(Box::new(
        srv2.rt
            .block_on(srv2.qs.read())
            .unwrap_or_else(|e| kv_engine::ctx::machinery_exit(&format!("read txn: {e:?}"))),
    ));
    (
        Fixture {
            schema: r.get_schema(),
            ident: kanidmd_lib::verif_hooks::identity_internal(),
            entries: entries(),
            idx: idxmetas(),
        },
        r2,
    )
}

// ---------------------------------------------------------------- front-end built filters
//
// Anchored substring terms (starts-with / ends-with) cannot be written with the FC constructors;
// they only arise from SCIM and LDAP filters. This phase builds filters through the real
// `Filter::from_scim_ro`, so every term kind over the same (attribute, value) pair can meet in
// one group.

use kanidm_proto::scim_v1::{AttrPath as ScimAttrPath, ScimFilter};

#[derive(Clone, Debug, serde::Serialize, serde::Deserialize)]
enum S {
    /// (attribute index, operator 0=pr 1=eq 2=co 3=sw 4=ew, value index)
    L(usize, usize, usize),
    And(Box<S>, Box<S>),
    Or(Box<S>, Box<S>),
    Not(Box<S>),
}

fn to_scim(t: &S) -> ScimFilter {
    match t {
        S::L(a, op, v) => {
            let attr = if *a == 0 { Attribute::Name } else { Attribute::Description };
            let path = ScimAttrPath { a: attr, s: None };
            let val = serde_json::Value::String(["a", "b"][*v].to_string());
            match op {
                0 => ScimFilter::Present(path),
                1 => ScimFilter::Equal(path, val),
                2 => ScimFilter::Contains(path, val),
                3 => ScimFilter::StartsWith(path, val),
                _ => ScimFilter::EndsWith(path, val),
            }
        }
        S::And(a, b) => ScimFilter::And(Box::new(to_scim(a)), Box::new(to_scim(b))),
        S::Or(a, b) => ScimFilter::Or(Box::new(to_scim(a)), Box::new(to_scim(b))),
        S::Not(a) => ScimFilter::Not(Box::new(to_scim(a))),
    }
}

fn scim_shape(t: &S) -> String {
    match t {
        S::L(..) => "l".into(),
        S::And(a, b) => format!("&({}{})", scim_shape(a), scim_shape(b)),
        S::Or(a, b) => format!("|({}{})", scim_shape(a), scim_shape(b)),
        S::Not(a) => format!("!{}", scim_shape(a)),
    }
}

fn scim_leaves(attrs: &[usize]) -> Vec<S> {
    let mut v = Vec::new();
    for &a in attrs {
        v.push(S::L(a, 0, 0));
        for val in 0..2 {
            for op in 1..5 {
                v.push(S::L(a, op, val));
            }
        }
    }
    v
}

fn scim_grow(prev: &[S], base: &[S]) -> Vec<S> {
    let mut v = Vec::new();
    for a in prev {
        v.push(S::Not(Box::new(a.clone())));
        for b in base {
            v.push(S::And(Box::new(a.clone()), Box::new(b.clone())));
            v.push(S::Or(Box::new(a.clone()), Box::new(b.clone())));
            v.push(S::And(Box::new(b.clone()), Box::new(a.clone())));
            v.push(S::Or(Box::new(b.clone()), Box::new(a.clone())));
        }
    }
    v
}

fn scim_trees(thorough: bool) -> Vec<S> {
    let all = scim_leaves(&[0, 1]);
    let name_a: Vec<S> = vec![S::L(0, 1, 0), S::L(0, 2, 0), S::L(0, 3, 0), S::L(0, 4, 0), S::L(0, 3, 1)];
    let mut v = all.clone();
    let d2 = scim_grow(&all, &all);
    v.extend(d2);
    // depth 3 over the terms on name that share one value (and one starts-with of the other)
    let d2s = scim_grow(&name_a, &name_a);
    v.extend(scim_grow(&d2s, &name_a));
    if thorough {
        let d2n = scim_grow(&scim_leaves(&[0]), &scim_leaves(&[0]));
        v.extend(scim_grow(&d2n, &name_a));
    }
    v
}

/// returns (filters, violations)
fn scim_phase(fx: &Fixture, r: &mut QueryServerReadTransaction<'static>, thorough: bool, only: Option<&S>, evals: &mut u64, nontrivial: &mut u64) -> (u64, Vec<(String, String, S)>) {
    let trees: Vec<S> = match only {
        Some(t) => vec![t.clone()],
        None => scim_trees(thorough),
    };
    let mut bad: Vec<(String, String, S)> = Vec::new();
    let mut n = 0u64;
    for t in &trees {
        let f = match Filter::from_scim_ro(&fx.ident, &to_scim(t), r) {
            Ok(f) => f,
            Err(e) => {
                bad.push(("scim_conversion_failed".into(), format!("{t:?}: {e:?}"), t.clone()));
                continue;
            }
        };
        let fv = match f.validate(fx.schema) {
            Ok(f) => f,
            Err(e) => {
                bad.push(("validate_failed".into(), format!("{t:?}: {e:?}"), t.clone()));
                continue;
            }
        };
        n += 1;
        if let Some((k, w)) = check_filter(fx, &fv, &format!("scim:{}", scim_shape(t)), matches!(t, S::L(..)), nontrivial, evals) {
            if !bad.iter().any(|b| b.0 == k) {
                bad.push((k, format!("[built from the SCIM filter {}] {w}", to_scim(t)), t.clone()));
            }
        }
    }
    (n, bad)
}


struct Acc {
    fx: Fixture,
    evals: u64,
    nontrivial: u64,
    filters: u64,
    bad: Vec<(String, String, T)>,
    nbad: u64,
}

pub fn run(args: &[String]) -> ! {
    let mut ctx = Ctx::new("C02", Level::Exploration, args);
    let (fx, rtxn) = fixture_with_txn();

    if let Some(r) = ctx.replay.clone() {
        if !r["case"]["scim_tree"].is_null() {
            let t: S = serde_json::from_value(r["case"]["scim_tree"].clone()).unwrap_or_else(|e| kv_engine::ctx::machinery_exit(&format!("bad tree: {e}")));
            println!("scim filter: {}", to_scim(&t));
            let (mut a, mut b) = (0, 0);
            let (_, bad) = scim_phase(&fx, rtxn, false, Some(&t), &mut a, &mut b);
            for (k, w, _) in bad {
                println!("{k}: {w}");
                ctx.violation(&k, &w, r["case"].clone());
            }
            ctx.finish();
        }
        let t: T = serde_json::from_value(r["case"]["tree"].clone()).unwrap_or_else(|e| kv_engine::ctx::machinery_exit(&format!("bad tree: {e}")));
        println!("filter: {:?}", to_fc(&t));
        let (mut a, mut b) = (0, 0);
        if let Some((k, w)) = check_tree(&fx, &t, &mut a, &mut b) {
            println!("{k}: {w}");
            ctx.violation(&k, &w, r["case"].clone());
        }
        ctx.finish();
    }

    // (leaf alphabet, depth, width, inclusion?)
    let mut spaces: Vec<(Vec<usize>, usize, usize, bool)> = vec![
        ((0..NLEAF).collect(), 2, 3, true),       // all leaves, depth 2, width 3
        (vec![0, 1, 2, 3], 3, 2, false),         // eq/eq/pres/cnt, depth 3 width 2
        (vec![0, 10, 11, 9], 3, 2, false),       // eq, self, invalid, lessthan
        (vec![4, 6, 12], 3, 2, true),            // with inclusion groups
    ];
    if ctx.thorough() {
        spaces.push((vec![0, 2, 3], 3, 3, false)); // depth 3 width 3
        spaces.push((vec![1, 4, 5, 7, 8], 3, 2, false));
        spaces.push((vec![10, 12, 13, 9, 6], 3, 2, false));
    }
    let mut described = Vec::new();
    let mut evals = 0u64;
    let mut nontriv = 0u64;
    let mut nfilters = 0u64;
    for (leaves, d, w, inc) in &spaces {
        let ts = trees(leaves, *d, *w, *inc, 40_000_000);
        let accs = product::par_run(
            product::ncpu(),
            ts.len() as u64,
            256,
            |_| Acc { fx: fixture(), evals: 0, nontrivial: 0, filters: 0, bad: Vec::new(), nbad: 0 },
            |acc, i| {
                let t = &ts[i as usize];
                acc.filters += 1;
                if let Some((k, wh)) = check_tree(&acc.fx, t, &mut acc.nontrivial, &mut acc.evals) {
                    acc.nbad += 1;
                    if !acc.bad.iter().any(|b| b.0 == k) && acc.bad.len() < 8 {
                        acc.bad.push((k, wh, t.clone()));
                    }
                }
            },
        );
        for a in accs {
            evals += a.evals;
            nontriv += a.nontrivial;
            nfilters += a.filters;
            ctx.add("mismatches", a.nbad);
            for (k, wh, t) in a.bad {
                ctx.violation(&k, &wh, json!({"tree": t, "filter": format!("{:?}", to_fc(&t))}));
            }
        }
        described.push(json!({"leaves": leaves.iter().map(|l| format!("{:?}", leaf(*l))).collect::<Vec<_>>(), "depth": d, "width": w, "inclusion_groups": inc, "filters": ts.len()}));
        if ctx.samples_len() < 6 {
            for i in [ts.len() / 3, ts.len() - 1] {
                ctx.sample(json!({"filter": format!("{:?}", to_fc(&ts[i]))}));
            }
        }
    }
    // filters built by the SCIM front end (anchored substring terms included)
    let thorough = ctx.thorough();
    let (scim_n, scim_bad) = scim_phase(&fx, rtxn, thorough, None, &mut evals, &mut nontriv);
    nfilters += scim_n;
    for (k, w, t) in scim_bad {
        ctx.violation(&k, &w, json!({"scim_tree": t}));
    }
    described.push(json!({"built_by": "Filter::from_scim_ro", "leaves": "pr / eq / co / sw / ew on name and description with values a, b", "depth": 3, "filters": scim_n}));
    ctx.sample(json!({"scim_filter": to_scim(&S::And(Box::new(S::L(0, 3, 0)), Box::new(S::Or(Box::new(S::L(0, 4, 0)), Box::new(S::Not(Box::new(S::L(1, 2, 1))))))) ).to_string()}));
    let (ord_n, ord_bad) = order_check(&fx);
    if let Some((k, w)) = ord_bad {
        ctx.violation(&k, &w, json!({"ord": true}));
    }
    ctx.set("evaluations", evals);
    ctx.set("distinct_nontrivial", nontriv);
    ctx.set("filters", nfilters);
    ctx.set("entries_per_filter", fx.entries.len() as u64);
    ctx.set("index_metadata_variants", fx.idx.iter().map(|i| i.0).collect::<Vec<_>>());
    ctx.set("ord_pairs_checked", ord_n);
    ctx.set("spaces", json!(described));
    ctx.set("exhaustive", true);
    ctx.set(
        "rule",
        "every filter tree of the stated depth/width over each leaf alphabet (children are ordered sequences, so duplicates / nesting / single-term groups are included) x 4 index-metadata variants x {optimise, fast_optimise, public resolve} x every entry of a 180-entry alphabet; evaluations = entry matches compared; a (filter, idxmeta) case is non-trivial when the filter has an operator and matches some but not all entries",
    );
    ctx.assume("meaning = the real entry_match_no_index on the unoptimised resolved filter; the entry alphabet is name in {-,a,b,ab} x description subsets of {a,b} x gid {-,1,2} x uuid {self,other,third}");
    ctx.finish();
}
