//! TOKENS world (C32, C33, C36): logins, API tokens, re-authentication, logouts, credential
//! changes, validity-window edits and time steps against a real IdmServer. A history variable
//! keeps EVERY bearer token ever issued; after every operation every token is presented again
//! and the answer (accepted? with which access scope?) is compared with a predicate written
//! from the property statements.

use crate::idmfx::{person_entry, person_uuid, service_entry, Idm, PW_GOOD, PW_NEW};
use crate::srv;
use compact_jwt::JwsCompact;
use kanidm_proto::internal::UatPurpose;
use kanidm_proto::v1::{AuthCredential, AuthIssueSession, AuthMech, AuthStep};
use kanidmd_lib::entry::{Entry, EntryInit, EntryNew};
use kanidmd_lib::idm::account::DestroySessionTokenEvent;
use kanidmd_lib::idm::authentication::{AuthState, ClientAuthInfo, ReauthRequest};
use kanidmd_lib::idm::server::IdmServerTransaction;
use kanidmd_lib::idm::serviceaccount::{DestroyApiTokenEvent, GenerateApiTokenEvent};
use kanidmd_lib::prelude::*;
use kanidmd_lib::verif_hooks::identity_internal;
use kv_engine::forkdfs::World;
use kv_engine::Fnv;
use serde::{Deserialize, Serialize};
use std::collections::BTreeSet;

pub const GRACE: u64 = AUTH_TOKEN_GRACE_WINDOW.as_secs();
/// upper bound of any privilege window the server may grant
pub const PRIV: u64 = MAXIMUM_AUTH_PRIVILEGE_EXPIRY as u64;
pub const SESSION: u64 = DEFAULT_AUTH_SESSION_EXPIRY as u64;

#[derive(Clone, Debug, Serialize, Deserialize, PartialEq, Eq)]
pub enum Op {
    /// interactive password login of the person (privileged?), session record written
    Login(bool),
    /// the same but the delayed session record is lost before it is written
    LoginLost,
    LoginAnon,
    /// log the person in through an OAuth2 trust provider (privileged session requested?)
    LoginTrust(bool),
    /// re-authenticate the session of token k
    Reauth(usize),
    /// revoke the login session of token k
    Logout(usize),
    /// (read-write?, compact encoding?)
    ApiToken(bool, bool),
    DestroyApi(usize),
    /// delete (recycle) / revive an account: 0 = the person, 1 = the service account
    DeleteAcct(usize),
    ReviveAcct(usize),
    /// replace the person's primary credential
    ChangePw,
    /// person: expire now / remove expiry; service account likewise
    Expire(usize),
    Unexpire(usize),
    /// person becomes valid only in the far future / restriction removed
    NotYet,
    ClearNotYet,
    Tick(u64),
}

#[derive(Clone, Debug)]
pub enum Kind {
    Uat { session: Uuid, recorded: bool, revoked: bool, priv_until: Option<u64>, expiry: Option<u64>, anon: bool },
    Api { id: Uuid, rw: bool, destroyed: bool, compact: bool },
}

#[derive(Clone, Debug)]
pub struct Tok {
    pub jws: JwsCompact,
    pub issued: u64,
    pub kind: Kind,
    /// which login / reauth produced it (text for messages)
    pub origin: String,
}

#[derive(Clone, Debug, Default)]
pub struct Cfg {
    pub max_tokens: usize,
    pub api: bool,
    pub reauth: bool,
    pub validity: bool,
    pub changepw: bool,
    /// deleting and reviving the accounts
    pub lifecycle: bool,
    /// the person can also log in through an OAuth2 trust provider
    pub trust: bool,
    pub ticks: Vec<u64>,
    pub props: BTreeSet<&'static str>,
}

pub struct Tokens {
    pub idm: Idm,
    pub cfg: Cfg,
    pub now: u64,
    pub toks: Vec<Tok>,
    pub pw: &'static str,
    /// (person expired?, service expired?, person not-yet-valid?)
    pub expired: [bool; 2],
    pub notyet: bool,
    /// account currently in the recycle bin
    pub deleted: [bool; 2],
    /// presentations accepted so far on this path (vacuity guard)
    pub accepted: u64,
    pub pending: Vec<(String, String)>,
    pub tainted: bool,
}

pub const P0: usize = 0;
pub const S0: usize = 9;

fn secs(odt: time::OffsetDateTime) -> u64 {
    (odt.unix_timestamp() as u64).saturating_sub(srv::T0)
}

impl Tokens {
    pub fn new(cfg: Cfg) -> Tokens {
        let idm = Idm::new();
        let ct = srv::t(10);
        let die = |what: &str, e: OperationError| -> ! { kv_engine::ctx::machinery_exit(&format!("tokens world setup: {what}: {e:?}")) };
        if let Err(e) = idm.create(ct, person_entry("p0", person_uuid(P0))) {
            die("create person", e);
        }
        if let Err(e) = idm.create(ct, service_entry("s0", person_uuid(S0))) {
            die("create service account", e);
        }
        if let Err(e) = idm.set_primary(ct, person_uuid(P0), PW_GOOD, false) {
            die("set password", e);
        }
        if cfg.trust {
            let prov = Uuid::from_u128(0x7c33_0000_0000_4000_8000_0000_0000_0001);
            let r = idm.write(srv::t(12), |w| {
                let mut e: Entry<EntryInit, EntryNew> = Entry::new();
                e.add_ava(Attribute::Class, EntryClass::Object.to_value());
                e.add_ava(Attribute::Class, EntryClass::OAuth2Client.to_value());
                e.add_ava(Attribute::Uuid, Value::Uuid(prov));
                e.add_ava(Attribute::Name, Value::new_iname("trustprovider"));
                e.add_ava(Attribute::OAuth2ClientId, Value::new_utf8s("kanidm-at-provider"));
                e.add_ava(Attribute::OAuth2ClientSecret, Value::new_utf8s("provider-secret"));
                for (a, u) in [(Attribute::OAuth2AuthorisationEndpoint, "https://provider.example.net/authorise"), (Attribute::OAuth2TokenEndpoint, "https://provider.example.net/token"), (Attribute::OAuth2TokenIntrospectEndpoint, "https://provider.example.net/introspect")] {
                    e.add_ava(a, Value::new_url_s(u).ok_or(OperationError::InvalidValueState)?);
                }
                e.add_ava(Attribute::OAuth2RequestScopes, Value::new_oauthscope("openid").ok_or(OperationError::InvalidValueState)?);
                w.qs_write.internal_create(vec![e])?;
                w.qs_write.internal_modify_uuid(person_uuid(P0), &ModifyList::new_list(vec![
                    Modify::Present(Attribute::Class, EntryClass::OAuth2Account.to_value()),
                    Modify::Present(Attribute::OAuth2AccountProvider, Value::Refer(prov)),
                    Modify::Present(Attribute::OAuth2AccountUniqueUserId, Value::new_utf8s("p0@provider")),
                    Modify::Present(Attribute::OAuth2AccountUniqueUserSub, Value::new_utf8s("p0-at-the-provider")),
                ]))
            });
            if let Err(e) = r {
                die("oauth2 trust provider", e);
            }
        }
        Tokens { idm, cfg, now: 1000, toks: Vec::new(), pw: PW_GOOD, expired: [false; 2], notyet: false, deleted: [false; 2], accepted: 0, pending: Vec::new(), tainted: false }
    }

    fn viol(&mut self, key: &str, what: String) {
        self.pending.push((key.to_string(), what));
    }

    fn cai(tok: &JwsCompact) -> ClientAuthInfo {
        ClientAuthInfo::new(Source::Internal, None, Some(tok.clone()), None)
    }

    /// record a freshly issued login token in the history
    fn record_uat(&mut self, jws: JwsCompact, recorded: bool, anon: bool, origin: String) -> Result<(), String> {
        let ct = srv::t(self.now);
        let uat = self.idm.read(|r| r.validate_client_auth_info_to_uat(&Self::cai(&jws), ct)).map_err(|e| format!("fresh token does not parse: {e:?}"))?;
        let priv_until = match uat.purpose {
            UatPurpose::ReadWrite { expiry: Some(e) } => Some(secs(e)),
            _ => None,
        };
        self.toks.push(Tok { jws, issued: self.now, kind: Kind::Uat { session: uat.session_id, recorded, revoked: false, priv_until, expiry: uat.expiry.map(secs), anon }, origin });
        Ok(())
    }

    fn login(&mut self, privileged: bool, keep_record: bool) -> String {
        let ct = srv::t(self.now);
        match self.idm.login_pw("p0", self.pw, privileged, ct) {
            Ok(Some(tok)) => {
                if keep_record {
                    let _ = self.idm.pump(ct);
                } else {
                    let _ = self.idm.discard_delayed();
                }
                let origin = format!("login(priv={privileged},recorded={keep_record})@{}", self.now);
                match self.record_uat(tok, keep_record, false, origin) {
                    Ok(()) => {
                        // C33: a login's privilege window is bounded and starts now
                        if !self.cfg.props.contains("C33") {
                            return "ok".into();
                        }
                        if let Some(Tok { kind: Kind::Uat { priv_until, expiry, .. }, .. }) = self.toks.last().cloned() {
                            match (privileged, priv_until) {
                                (false, Some(p)) => self.viol("unprivileged_login_has_write_window", format!("a non-privileged login at {} carries a write window until {p}", self.now)),
                                (true, Some(p)) if p > self.now + PRIV => self.viol("privilege_window_unbounded", format!("privileged login at {} has write access until {p} (> {PRIV}s)", self.now)),
                                _ => {}
                            }
                            if let Some(e) = expiry {
                                if e > self.now + SESSION {
                                    self.viol("session_expiry_exceeds_policy", format!("login at {} expires at {e} (> {SESSION}s)", self.now));
                                }
                            }
                        }
                        "ok".into()
                    }
                    Err(e) => format!("machinery:{e}"),
                }
            }
            Ok(None) => {
                let _ = self.idm.discard_delayed();
                "denied".into()
            }
            Err(e) => {
                let _ = self.idm.discard_delayed();
                format!("err:{e:?}")
            }
        }
    }

    fn login_anon(&mut self) -> String {
        let ct = srv::t(self.now);
        let r = (|| -> Result<Option<JwsCompact>, OperationError> {
            let r = self.idm.auth_step(None, AuthStep::Init2 { username: "anonymous".into(), issue: AuthIssueSession::Token, privileged: true }, ct)?;
            let sid = r.sessionid;
            let _ = self.idm.auth_step(Some(sid), AuthStep::Begin(AuthMech::Anonymous), ct)?;
            let r = self.idm.auth_step(Some(sid), AuthStep::Cred(AuthCredential::Anonymous), ct)?;
            Ok(match r.state {
                AuthState::Success(t, _) => Some(*t),
                _ => None,
            })
        })();
        match r {
            Ok(Some(tok)) => {
                let _ = self.idm.pump(ct);
                match self.record_uat(tok, false, true, format!("anonymous@{}", self.now)) {
                    Ok(()) => "ok".into(),
                    Err(e) => format!("machinery:{e}"),
                }
            }
            Ok(None) => "denied".into(),
            Err(e) => format!("err:{e:?}"),
        }
    }

    /// the whole external exchange of an OAuth2 trust login, with a provider that answers
    /// favourably at every step
    fn login_trust(&mut self, privileged: bool) -> String {
        use kanidm_proto::oauth2::{AccessTokenIntrospectResponse, AccessTokenResponse, AccessTokenType, IssuedTokenType};
        use kanidmd_lib::idm::authentication::{AuthCredential as ICred, AuthExternal};
        use kanidmd_lib::idm::event::{AuthEvent, AuthEventStep, AuthEventStepCred};
        let ct = srv::t(self.now);
        let r = (|| -> Result<Option<JwsCompact>, OperationError> {
            let r = self.idm.auth_step(None, AuthStep::Init2 { username: "p0".into(), issue: AuthIssueSession::Token, privileged }, ct)?;
            let sid = r.sessionid;
            let r = self.idm.auth_step(Some(sid), AuthStep::Begin(AuthMech::OAuth2Trust), ct)?;
            let AuthState::External(AuthExternal::OAuth2AuthorisationRequest { request, .. }) = r.state else { return Ok(None) };
            let cred = |c: ICred| AuthEvent { ident: None, step: AuthEventStep::Cred(AuthEventStepCred { sessionid: sid, cred: c }) };
            let r = self.idm.auth_event(&cred(ICred::OAuth2AuthorisationResponse { code: "code-from-the-provider".into(), state: request.state.clone() }), ct)?;
            let AuthState::External(AuthExternal::OAuth2AccessTokenRequest { .. }) = r.state else { return Ok(None) };
            let response = AccessTokenResponse { access_token: "provider-access-token".into(), token_type: AccessTokenType::Bearer, issued_token_type: Some(IssuedTokenType::AccessToken), expires_in: 300, refresh_token: Some("provider-refresh-token".into()), scope: ["openid".to_string()].into_iter().collect(), id_token: None };
            let r = self.idm.auth_event(&cred(ICred::OAuth2AccessTokenResponse { response }), ct)?;
            let AuthState::External(AuthExternal::OAuth2AccessTokenIntrospectionRequest { .. }) = r.state else { return Ok(None) };
            let response = AccessTokenIntrospectResponse { active: true, sub: Some("p0-at-the-provider".into()), ..Default::default() };
            let r = self.idm.auth_event(&cred(ICred::OAuth2AccessTokenIntrospectResponse { response }), ct)?;
            Ok(match r.state {
                AuthState::Success(t, _) => Some(*t),
                _ => None,
            })
        })();
        match r {
            Ok(Some(tok)) => {
                let _ = self.idm.pump(ct);
                // a trust login is one of the login types that are always read-only
                match self.record_uat(tok, true, true, format!("oauth2-trust(privileged={privileged})@{}", self.now)) {
                    Ok(()) => "ok".into(),
                    Err(e) => format!("machinery:{e}"),
                }
            }
            Ok(None) => "denied".into(),
            Err(e) => format!("err:{e:?}"),
        }
    }

    fn reauth(&mut self, k: usize) -> String {
        let ct = srv::t(self.now);
        let tok = self.toks[k].clone();
        let ident = match self.idm.present(&tok.jws, ct) {
            Ok(i) => i,
            Err(e) => return format!("err:present:{e:?}"),
        };
        let r = self.idm.rt.block_on(async {
            let mut a = self.idm.idms.auth().await?;
            let r = a.reauth_init(ident, AuthIssueSession::Token, ct, ClientAuthInfo::new(Source::Internal, None, None, None), ReauthRequest::GrantReadWrite).await;
            a.commit()?;
            r
        });
        let sid = match r {
            Ok(ar) => match ar.state {
                AuthState::Continue(_) => ar.sessionid,
                AuthState::Denied(d) => return format!("denied:{}", d.chars().take(24).collect::<String>()),
                AuthState::Success(..) => {
                    self.viol("reauth_without_credential", "re-authentication succeeded without presenting a credential".into());
                    return "success-early".into();
                }
                _ => return "other".into(),
            },
            Err(e) => return format!("err:{e:?}"),
        };
        match self.idm.auth_step(Some(sid), AuthStep::Cred(AuthCredential::Password(self.pw.to_string())), ct) {
            Ok(ar) => match ar.state {
                AuthState::Success(t, _) => {
                    let _ = self.idm.pump(ct);
                    let (old_session, old_expiry, old_recorded) = match &tok.kind {
                        Kind::Uat { session, expiry, recorded, .. } => (*session, *expiry, *recorded),
                        _ => return "machinery:reauth of api token".into(),
                    };
                    if let Err(e) = self.record_uat(*t, old_recorded, false, format!("reauth(of #{k})@{}", self.now)) {
                        return format!("machinery:{e}");
                    }
                    if !self.cfg.props.contains("C33") {
                        return "ok".into();
                    }
                    if let Some(Tok { kind: Kind::Uat { session, expiry, priv_until, .. }, .. }) = self.toks.last().cloned() {
                        if session != old_session {
                            self.viol("reauth_new_session", format!("re-authentication of session {old_session} produced a token for another session {session}"));
                        }
                        match (expiry, old_expiry) {
                            (Some(n), Some(o)) if n > o => self.viol("reauth_extends_session", format!("re-authentication moved the session expiry from {o} to {n}")),
                            (None, Some(o)) => self.viol("reauth_extends_session", format!("re-authentication removed the session expiry (was {o})")),
                            _ => {}
                        }
                        match priv_until {
                            Some(p) if p > self.now + PRIV => self.viol("privilege_window_unbounded", format!("re-authentication at {} grants write access until {p} (> {PRIV}s)", self.now)),
                            _ => {}
                        }
                    }
                    "ok".into()
                }
                AuthState::Denied(d) => format!("denied:{}", d.chars().take(24).collect::<String>()),
                _ => "other".into(),
            },
            Err(e) => format!("err:{e:?}"),
        }
    }

    fn acct_valid(&self, who: usize) -> bool {
        if who == 0 {
            !self.expired[0] && !self.notyet && !self.deleted[0]
        } else {
            !self.expired[1] && !self.deleted[1]
        }
    }

    /// the property's acceptance predicate and expected access scope at the current time
    fn expect(&self, t: &Tok) -> (bool, AccessScope) {
        let now = self.now;
        match &t.kind {
            Kind::Uat { recorded, revoked, priv_until, expiry, anon, .. } => {
                let unexpired = expiry.map(|e| now < e).unwrap_or(true);
                let ok = if *anon {
                    unexpired
                } else {
                    unexpired && self.acct_valid(0) && ((*recorded && !*revoked) || (!*recorded && now < t.issued + GRACE))
                };
                let scope = match priv_until {
                    Some(p) if now < *p && !*anon => AccessScope::ReadWrite,
                    _ => AccessScope::ReadOnly,
                };
                (ok, scope)
            }
            Kind::Api { rw, destroyed, .. } => {
                let ok = self.acct_valid(1) && (!*destroyed || now < t.issued + GRACE);
                (ok, if *rw { AccessScope::ReadWrite } else { AccessScope::ReadOnly })
            }
        }
    }
}

impl World for Tokens {
    type Op = Op;

    fn ops(&mut self) -> Vec<Op> {
        if self.tainted {
            return Vec::new();
        }
        let mut v = Vec::new();
        let room = self.toks.len() < self.cfg.max_tokens;
        if room {
            v.push(Op::Login(false));
            v.push(Op::Login(true));
            v.push(Op::LoginLost);
            v.push(Op::LoginAnon);
            if self.cfg.trust {
                v.push(Op::LoginTrust(true));
                v.push(Op::LoginTrust(false));
            }
            if self.cfg.api {
                v.push(Op::ApiToken(false, false));
                v.push(Op::ApiToken(true, false));
                v.push(Op::ApiToken(false, true));
            }
        }
        for (k, t) in self.toks.iter().enumerate() {
            match &t.kind {
                Kind::Uat { anon: false, revoked, .. } => {
                    if self.cfg.reauth && room {
                        v.push(Op::Reauth(k));
                    }
                    if !*revoked {
                        v.push(Op::Logout(k));
                    }
                }
                Kind::Api { destroyed: false, .. } => v.push(Op::DestroyApi(k)),
                _ => {}
            }
        }
        if self.cfg.changepw && self.pw == PW_GOOD {
            v.push(Op::ChangePw);
        }
        if self.cfg.lifecycle {
            for who in 0..2 {
                if who == 1 && !self.cfg.api {
                    continue;
                }
                v.push(if self.deleted[who] { Op::ReviveAcct(who) } else { Op::DeleteAcct(who) });
            }
        }
        if self.cfg.validity {
            for who in 0..2 {
                if who == 1 && !self.cfg.api {
                    continue;
                }
                v.push(if self.expired[who] { Op::Unexpire(who) } else { Op::Expire(who) });
            }
            v.push(if self.notyet { Op::ClearNotYet } else { Op::NotYet });
        }
        for &t in &self.cfg.ticks {
            v.push(Op::Tick(t));
        }
        v
    }

    fn apply(&mut self, op: &Op) -> String {
        let ct = srv::t(self.now);
        let label = match op {
            Op::Tick(dt) => {
                self.now += dt;
                "tick".into()
            }
            Op::Login(p) => self.login(*p, true),
            Op::LoginLost => self.login(false, false),
            Op::LoginAnon => self.login_anon(),
            Op::LoginTrust(p) => self.login_trust(*p),
            Op::Reauth(k) => self.reauth(*k),
            Op::Logout(k) => {
                let session = match &self.toks[*k].kind {
                    Kind::Uat { session, .. } => *session,
                    _ => return "machinery:logout of api token".into(),
                };
                let r = self.idm.write(ct, |w| w.account_destroy_session_token(&DestroySessionTokenEvent { ident: identity_internal(), target: person_uuid(P0), token_id: session }));
                if r.is_ok() {
                    for t in self.toks.iter_mut() {
                        if let Kind::Uat { session: s, revoked, recorded, .. } = &mut t.kind {
                            if *s == session && *recorded {
                                *revoked = true;
                            }
                        }
                    }
                }
                srv::opstr(&r)
            }
            Op::DeleteAcct(who) | Op::ReviveAcct(who) => {
                let target = person_uuid(if *who == 0 { P0 } else { S0 });
                let del = matches!(op, Op::DeleteAcct(_));
                let r = self.idm.write(ct, |w| {
                    if del {
                        w.qs_write.internal_delete_uuid(target)
                    } else {
                        let f = Filter::new_recycled(f_eq(Attribute::Uuid, PartialValue::Uuid(target))).validate(w.qs_write.get_schema()).map_err(OperationError::SchemaViolation)?;
                        w.qs_write.revive_recycled(&kanidmd_lib::event::ReviveRecycledEvent { ident: identity_internal(), filter: f })
                    }
                });
                if r.is_ok() {
                    self.deleted[*who] = del;
                }
                srv::opstr(&r)
            }
            Op::ApiToken(rw, compact) => {
                let r = self.idm.write(ct, |w| {
                    w.service_account_generate_api_token(&GenerateApiTokenEvent { ident: identity_internal(), target: person_uuid(S0), label: format!("t{}", self.toks.len()), expiry: None, read_write: *rw, compact: *compact }, ct)
                });
                match r {
                    Ok(jws) => match self.idm.present(&jws, ct) {
                        Ok(id) => {
                            self.toks.push(Tok { jws, issued: self.now, kind: Kind::Api { id: id.get_session_id(), rw: *rw, destroyed: false, compact: *compact }, origin: format!("apitoken(rw={rw},compact={compact})@{}", self.now) });
                            "ok".into()
                        }
                        Err(e) => {
                            if self.acct_valid(1) {
                                self.viol("fresh_token_rejected", format!("an API token just issued is rejected: {e:?}"));
                            }
                            format!("issued-but-rejected:{e:?}")
                        }
                    },
                    Err(e) => format!("err:{e:?}"),
                }
            }
            Op::DestroyApi(k) => {
                let id = match &self.toks[*k].kind {
                    Kind::Api { id, .. } => *id,
                    _ => return "machinery:destroy of login token".into(),
                };
                let r = self.idm.write(ct, |w| w.service_account_destroy_api_token(&DestroyApiTokenEvent { ident: identity_internal(), target: person_uuid(S0), token_id: id }));
                if r.is_ok() {
                    if let Kind::Api { destroyed, .. } = &mut self.toks[*k].kind {
                        *destroyed = true;
                    }
                }
                srv::opstr(&r)
            }
            Op::ChangePw => {
                // the account must be valid for its own credential update session
                let r = self.idm.replace_primary(ct, person_uuid(P0), PW_NEW);
                if r.is_ok() {
                    self.pw = PW_NEW;
                    // C36: every recorded session issued with the replaced credential is revoked
                    for t in self.toks.iter_mut() {
                        if let Kind::Uat { revoked, recorded, anon: false, .. } = &mut t.kind {
                            if *recorded {
                                *revoked = true;
                            }
                        }
                    }
                }
                srv::opstr(&r)
            }
            Op::Expire(who) | Op::Unexpire(who) => {
                let target = person_uuid(if *who == 0 { P0 } else { S0 });
                let expire = matches!(op, Op::Expire(_));
                let ml = if expire { ModifyList::new_purge_and_set(Attribute::AccountExpire, Value::new_datetime_epoch(srv::t(self.now - 1))) } else { ModifyList::new_purge(Attribute::AccountExpire) };
                // (an internal modify of an entry that is in the recycle bin matches nothing and
                // still answers Ok: the history variable follows what is stored, not the answer)
                if self.deleted[*who] {
                    return "skipped:account is in the recycle bin".into();
                }
                let r = self.idm.write(ct, |w| w.qs_write.internal_modify_uuid(target, &ml));
                if r.is_ok() {
                    self.expired[*who] = expire;
                }
                srv::opstr(&r)
            }
            Op::NotYet | Op::ClearNotYet => {
                let set = matches!(op, Op::NotYet);
                let ml = if set { ModifyList::new_purge_and_set(Attribute::AccountValidFrom, Value::new_datetime_epoch(srv::t(self.now + 10_000_000))) } else { ModifyList::new_purge(Attribute::AccountValidFrom) };
if self.deleted[0] {
                    return "skipped:account is in the recycle bin".into();
                }
                                let r = self.idm.write(ct, |w| w.qs_write.internal_modify_uuid(person_uuid(P0), &ml));
                if r.is_ok() {
                    self.notyet = set;
                }
                srv::opstr(&r)
            }
        };
        label
    }

    fn check(&mut self, _last: Option<(&Op, &str)>) -> Vec<(String, String)> {
        let ct = srv::t(self.now);
        let c32 = self.cfg.props.contains("C32");
        let c33 = self.cfg.props.contains("C33");
        let c36 = self.cfg.props.contains("C36");
        let toks = self.toks.clone();
        for (k, t) in toks.iter().enumerate() {
            let (want_ok, want_scope) = self.expect(t);
            let got = self.idm.present(&t.jws, ct);
            match (&got, want_ok) {
                (Ok(id), true) => {
                    self.accepted += 1;
                    if c33 && id.access_scope() != want_scope {
                        let key = if id.access_scope() == AccessScope::ReadWrite { "write_scope_outside_window" } else { "write_scope_missing" };
                        self.viol(key, format!("token #{k} ({}) presented at {} has scope {:?}, the property's window gives {:?} ({:?})", t.origin, self.now, id.access_scope(), want_scope, t.kind));
                    }
                }
                (Err(_), false) => {}
                (Ok(_), false) => {
                    let revoked_by_cred_change = matches!(&t.kind, Kind::Uat { revoked: true, .. }) && self.pw == PW_NEW;
                    if c36 && revoked_by_cred_change {
                        self.viol("session_survives_credential_removal", format!("token #{k} ({}) is still accepted at {} although the credential it was issued with has been replaced ({:?})", t.origin, self.now, t.kind));
                    } else if c32 {
                        self.viol("token_accepted_against_predicate", format!("token #{k} ({}) is accepted at {} but the property's predicate rejects it: {:?}; account expired {:?} notyet {}", t.origin, self.now, t.kind, self.expired, self.notyet));
                    }
                }
                (Err(_), true) => {
                    // "accepted only if": refusing a token the predicate would allow (e.g. a
                    // destroyed compact API token inside the grace window, which carries no issue
                    // time) is stricter than the statement, not a violation of it
                }
            }
        }
        let out = std::mem::take(&mut self.pending);
        if !out.is_empty() {
            self.tainted = true;
        }
        out
    }

    fn canon(&mut self) -> u64 {
        let mut h = Fnv::new();
        let now = self.now;
        for t in &self.toks {
            let k = match &t.kind {
                Kind::Uat { recorded, revoked, priv_until, expiry, anon, .. } => format!("U{recorded}{revoked}{anon}:{:?}:{:?}", priv_until.map(|p| p as i64 - now as i64), expiry.map(|p| p as i64 - now as i64)),
                Kind::Api { rw, destroyed, compact, .. } => format!("A{rw}{destroyed}{compact}"),
            };
            h.write_str(&format!("{k}@{}", now - t.issued));
        }
        // which tokens share a session
        let sess: Vec<Option<usize>> = self.toks.iter().map(|t| match &t.kind { Kind::Uat { session, .. } => self.toks.iter().position(|o| matches!(&o.kind, Kind::Uat { session: s2, .. } if s2 == session)), _ => None }).collect();
        h.write_str(&format!("{sess:?}|{:?}|{}|{}|{:?}", self.expired, self.notyet, self.pw == PW_GOOD, self.deleted));
        h.finish()
    }
}
