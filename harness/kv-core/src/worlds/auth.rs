//! AUTH world (C27): every sequence of interactive-authentication protocol steps against a real
//! IdmServer, with a reference automaton written from the property statement.
//!
//! One "current" authentication session is driven at a time (a new Init abandons the previous
//! one); steps may arrive in any order and with any credential kind. The model decides only what
//! the property states: a token needs every factor of the chosen mechanism, verified in order, in
//! this session; a wrong factor is never accepted; an MFA account is never offered password-only;
//! accounts outside their validity window never succeed; after a denial or success nothing more
//! is accepted.

use crate::idmfx::{person_entry, person_uuid, Idm, TotpSetup, PW_BAD, PW_GOOD};
use crate::srv;
use kanidm_proto::v1::{AuthCredential, AuthIssueSession, AuthMech, AuthStep};
use kanidmd_lib::idm::authentication::AuthState;
use kanidmd_lib::prelude::*;
use kv_engine::forkdfs::World;
use kv_engine::Fnv;
use serde::{Deserialize, Serialize};

pub const ACCTS: [&str; 5] = ["pwonly", "pwtotp", "anonymous", "expired", "notyet"];
pub const MECHS: [AuthMech; 4] = [AuthMech::Anonymous, AuthMech::Password, AuthMech::PasswordTotp, AuthMech::PasswordBackupCode];

#[derive(Clone, Copy, Debug, Serialize, Deserialize, PartialEq, Eq)]
pub enum CredK {
    PwRight,
    PwWrong,
    TotpNow,
    TotpPrev,
    TotpOld,
    TotpWrong,
    BackupRight,
    BackupWrong,
    Anonymous,
}
pub const CREDS: [CredK; 9] = [CredK::PwRight, CredK::PwWrong, CredK::TotpNow, CredK::TotpPrev, CredK::TotpOld, CredK::TotpWrong, CredK::BackupRight, CredK::BackupWrong, CredK::Anonymous];

#[derive(Clone, Debug, Serialize, Deserialize, PartialEq, Eq)]
pub enum Op {
    Init(usize, bool),
    Begin(usize),
    Cred(CredK),
    Tick(u64),
}

#[derive(Clone, Debug, PartialEq, Eq)]
pub enum M {
    /// no session
    None,
    /// mechanisms offered
    Choose { acct: usize, offered: Vec<usize> },
    /// mechanism chosen; `stage` factors verified so far
    Cont { acct: usize, mech: usize, stage: u8 },
    /// denied, succeeded or timed out: nothing further may be accepted
    Done,
}

#[derive(Clone, Debug, Default)]
pub struct Cfg {
    pub accts: Vec<usize>,
    pub ticks: Vec<u64>,
    pub privileged: bool,
    /// give the anonymous account an expiry in the past (it is then an account outside its window)
    pub anon_expired: bool,
}

pub struct Auth {
    pub idm: Idm,
    pub cfg: Cfg,
    pub now: u64,
    pub sid: Option<Uuid>,
    pub started: u64,
    pub m: M,
    pub totp: Option<TotpSetup>,
    /// per account: (failed credential presentations, time of the last one)
    pub fails: [(u32, u64); 5],
    pub backup_spent: bool,
    pub pending: Vec<(String, String)>,
    pub successes: u64,
    pub tainted: bool,
}

impl Auth {
    pub fn new(cfg: Cfg) -> Auth {
        let idm = Idm::new();
        let ct = srv::t(10);
        let die = |what: &str, e: OperationError| -> ! { kv_engine::ctx::machinery_exit(&format!("auth world setup: {what}: {e:?}")) };
        for (i, name) in ACCTS.iter().enumerate() {
            if *name == "anonymous" {
                continue;
            }
            if let Err(e) = idm.create(ct, person_entry(name, person_uuid(i))) {
                die("create", e);
            }
        }
        let mut totp = None;
        for (i, name) in ACCTS.iter().enumerate() {
            match *name {
                "anonymous" => {}
                "pwtotp" => match idm.set_primary(ct, person_uuid(i), PW_GOOD, true) {
                    Ok(t) => totp = t,
                    Err(e) => die("set mfa credential", e),
                },
                _ => {
                    if let Err(e) = idm.set_primary(ct, person_uuid(i), PW_GOOD, false) {
                        die("set password", e);
                    }
                }
            }
        }
        // validity windows: `expired` ended at t(50); `notyet` starts far in the future
        let r = idm.write(ct, |w| {
            w.qs_write.internal_modify_uuid(person_uuid(3), &ModifyList::new_purge_and_set(Attribute::AccountExpire, Value::new_datetime_epoch(srv::t(50))))?;
            w.qs_write.internal_modify_uuid(person_uuid(4), &ModifyList::new_purge_and_set(Attribute::AccountValidFrom, Value::new_datetime_epoch(srv::t(100_000_000))))
        });
        if let Err(e) = r {
            die("validity windows", e);
        }
        if cfg.anon_expired {
            let r = idm.write(ct, |w| w.qs_write.internal_modify_uuid(UUID_ANONYMOUS, &ModifyList::new_purge_and_set(Attribute::AccountExpire, Value::new_datetime_epoch(srv::t(50)))));
            if let Err(e) = r {
                die("anonymous validity window", e);
            }
        }
        Auth { idm, cfg, now: 1000, sid: None, started: 0, m: M::None, totp, fails: [(0, 0); 5], backup_spent: false, pending: Vec::new(), successes: 0, tainted: false }
    }

    fn cred_value(&self, k: CredK) -> AuthCredential {
        let totp_at = |dt: i64| -> u32 {
            let t = (srv::T0 + self.now) as i64 + dt;
            self.totp.as_ref().and_then(|s| s.totp.do_totp_duration_from_epoch(&Duration::from_secs(t as u64)).ok()).unwrap_or(0)
        };
        match k {
            CredK::PwRight => AuthCredential::Password(PW_GOOD.to_string()),
            CredK::PwWrong => AuthCredential::Password(PW_BAD.to_string()),
            CredK::TotpNow => AuthCredential::Totp(totp_at(0)),
            CredK::TotpPrev => AuthCredential::Totp(totp_at(-30)),
            CredK::TotpOld => AuthCredential::Totp(totp_at(-60)),
            CredK::TotpWrong => {
                let (a, b, c) = (totp_at(0), totp_at(-30), totp_at(30));
                let mut w = (a + 1) % 1_000_000;
                while w == a || w == b || w == c {
                    w = (w + 1) % 1_000_000;
                }
                AuthCredential::Totp(w)
            }
            CredK::BackupRight => AuthCredential::BackupCode(self.totp.as_ref().and_then(|s| s.backup_codes.first().cloned()).unwrap_or_default()),
            CredK::BackupWrong => AuthCredential::BackupCode("wrong-code-000".to_string()),
            CredK::Anonymous => AuthCredential::Anonymous,
        }
    }

    /// Is `k`, presented now at `stage` of `mech` for `acct`, a correct factor? And does it complete the mechanism?
    fn judge(&self, acct: usize, mech: usize, stage: u8, k: CredK) -> (bool, bool) {
        let valid_acct = acct <= 1 || (acct == 2 && !self.cfg.anon_expired);
        let (ok, last) = match (MECHS[mech].clone(), stage, k) {
            (AuthMech::Anonymous, 0, CredK::Anonymous) => (acct == 2, true),
            (AuthMech::Password, 0, CredK::PwRight) => (acct != 2, true),
            (AuthMech::PasswordTotp, 0, CredK::TotpNow | CredK::TotpPrev) => (acct == 1, false),
            (AuthMech::PasswordTotp, 1, CredK::PwRight) => (acct == 1, true),
            (AuthMech::PasswordBackupCode, 0, CredK::BackupRight) => (acct == 1 && !self.backup_spent, false),
            (AuthMech::PasswordBackupCode, 1, CredK::PwRight) => (acct == 1, true),
            _ => (false, false),
        };
        (ok && valid_acct, last)
    }

    fn viol(&mut self, key: &str, what: String) {
        self.pending.push((key.to_string(), what));
    }

}

fn mech_idx(m: &AuthMech) -> Option<usize> {
    MECHS.iter().position(|x| x == m)
}

impl World for Auth {
    type Op = Op;

    fn ops(&mut self) -> Vec<Op> {
        if self.tainted {
            return Vec::new();
        }
        let mut v = Vec::new();
        for &a in &self.cfg.accts {
            v.push(Op::Init(a, false));
            if self.cfg.privileged && a <= 1 {
                v.push(Op::Init(a, true));
            }
        }
        if self.sid.is_some() {
            for m in 0..MECHS.len() {
                v.push(Op::Begin(m));
            }
            for k in CREDS {
                if k == CredK::BackupRight && self.backup_spent {
                    continue;
                }
                v.push(Op::Cred(k));
            }
        }
        for &t in &self.cfg.ticks {
            v.push(Op::Tick(t));
        }
        v
    }

    fn apply(&mut self, op: &Op) -> String {
        let ct = srv::t(self.now);
        let before = self.m.clone();
        // the property says nothing about abandoned-session timeouts (sessions are reaped by a
        // background task, not on access), so age never enters the verdict
        let timed_out = false;
        let label;
        match op {
            Op::Tick(dt) => {
                self.now += dt;
                return "tick".into();
            }
            Op::Init(a, privileged) => {
                let r = self.idm.auth_step(None, AuthStep::Init2 { username: ACCTS[*a].to_string(), issue: AuthIssueSession::Token, privileged: *privileged }, ct);
                match r {
                    Ok(ar) => {
                        self.sid = Some(ar.sessionid);
                        self.started = self.now;
                        match ar.state {
                            AuthState::Choose(mechs) => {
                                let offered: Vec<usize> = mechs.iter().filter_map(mech_idx).collect();
                                if *a == 1 && offered.contains(&1) {
                                    self.viol("mfa_account_offered_password_only", format!("account {} has a TOTP second factor yet was offered the Password mechanism: {mechs:?}", ACCTS[*a]));
                                }
                                label = format!("choose:{offered:?}");
                                self.m = M::Choose { acct: *a, offered };
                            }
                            AuthState::Denied(r) => {
                                label = format!("denied:{}", r.chars().take(30).collect::<String>());
                                self.m = M::Done;
                            }
                            AuthState::Success(..) => {
                                label = "success".into();
                                self.viol("token_without_all_factors", format!("Init for {} returned a token immediately", ACCTS[*a]));
                                self.m = M::Done;
                            }
                            other => {
                                label = format!("other:{other:?}").chars().take(40).collect();
                                self.m = M::Done;
                            }
                        }
                    }
                    Err(e) => {
                        label = format!("err:{e:?}");
                        self.sid = None;
                        self.m = M::None;
                    }
                }
            }
            Op::Begin(mi) => {
                let r = self.idm.auth_step(self.sid, AuthStep::Begin(MECHS[*mi].clone()), ct);
                match r {
                    Ok(ar) => match ar.state {
                        AuthState::Continue(allowed) => {
                            label = format!("continue:{}", allowed.len());
                            match &before {
                                M::Choose { acct, offered } if !timed_out => {
                                    if !offered.contains(mi) {
                                        self.viol("unoffered_mechanism_accepted", format!("{:?} was not offered to {} but Begin was accepted", MECHS[*mi], ACCTS[*acct]));
                                    }
                                    self.m = M::Cont { acct: *acct, mech: *mi, stage: 0 };
                                }
                                other => {
                                    self.viol("step_accepted_out_of_order", format!("Begin({:?}) was accepted in session state {other:?} (timed out: {timed_out})", MECHS[*mi]));
                                    self.m = M::Done;
                                }
                            }
                        }
                        AuthState::Success(..) => {
                            label = "success".into();
                            self.viol("token_without_all_factors", format!("Begin({:?}) returned a token in state {before:?}", MECHS[*mi]));
                            self.m = M::Done;
                        }
                        AuthState::Denied(r) => {
                            label = format!("denied:{}", r.chars().take(30).collect::<String>());
                            self.m = M::Done;
                        }
                        AuthState::Choose(_) => {
                            label = "choose".into();
                            if before == M::Done {
                                self.viol("step_accepted_after_final_state", "Begin answered Choose after the session was denied / finished".into());
                            }
                        }
                        other => {
                            label = format!("other:{other:?}").chars().take(40).collect();
                        }
                    },
                    Err(e) => {
                        label = format!("err:{e:?}");
                    }
                }
            }
            Op::Cred(k) => {
                let cred = self.cred_value(*k);
                let r = self.idm.auth_step(self.sid, AuthStep::Cred(cred), ct);
                let judged = match &before {
                    M::Cont { acct, mech, stage } if !timed_out => Some((*acct, *mech, *stage, self.judge(*acct, *mech, *stage, *k))),
                    _ => None,
                };
                match r {
                    Ok(ar) => match ar.state {
                        AuthState::Success(tok, _) => {
                            label = "success".into();
                            self.successes += 1;
                            match judged {
                                Some((_, _, _, (true, true))) => {
                                    // usable token for the right account
                                    match self.idm.present(&tok, ct) {
                                        Ok(id) => {
                                            let want = if let M::Cont { acct, .. } = &before { *acct } else { 0 };
                                            let want_uuid = if want == 2 { UUID_ANONYMOUS } else { person_uuid(want) };
                                            if id.get_uuid() != want_uuid {
                                                self.viol("token_for_wrong_account", format!("login as {} produced a token for {:?}", ACCTS[want], id.get_uuid()));
                                            }
                                        }
                                        Err(e) => self.viol("fresh_token_rejected", format!("a token just issued is rejected: {e:?}")),
                                    }
                                    if let M::Cont { mech: 3, .. } = &before {
                                        self.backup_spent = true;
                                    }
                                }
                                _ => self.viol("token_without_all_factors", format!("{k:?} in session state {before:?} (timed out: {timed_out}) produced a token")),
                            }
                            self.m = M::Done;
                        }
                        AuthState::Continue(_) => {
                            label = "continue".into();
                            match judged {
                                Some((acct, mech, stage, (true, false))) => self.m = M::Cont { acct, mech, stage: stage + 1 },
                                _ => {
                                    self.viol("wrong_factor_accepted", format!("{k:?} in session state {before:?} (timed out: {timed_out}) was accepted and the session continues"));
                                    self.m = M::Done;
                                }
                            }
                        }
                        AuthState::Denied(r) => {
                            label = format!("denied:{}", r.chars().take(30).collect::<String>());
                            if let M::Cont { acct, .. } = &before {
                                self.fails[*acct] = (self.fails[*acct].0 + 1, self.now);
                            }
                            self.m = M::Done;
                        }
                        other => {
                            label = format!("other:{other:?}").chars().take(40).collect();
                            if before == M::Done {
                                self.viol("step_accepted_after_final_state", format!("{k:?} answered {label} after the session was denied / finished"));
                            }
                        }
                    },
                    Err(e) => {
                        label = format!("err:{e:?}");
                    }
                }
            }
        }
        // liveness sanity (vacuity guard, not part of the property): with no failures at all in the
        // trace, a complete correct sequence must log in
        let _ = self.idm.pump(ct);
        label
    }

    fn check(&mut self, _last: Option<(&Op, &str)>) -> Vec<(String, String)> {
        let out = std::mem::take(&mut self.pending);
        if !out.is_empty() {
            self.tainted = true;
        }
        out
    }

    fn canon(&mut self) -> u64 {
        let mut h = Fnv::new();
        let age = if self.sid.is_some() { self.now.saturating_sub(self.started) } else { 0 };
        let fails: Vec<(u32, u64)> = self.fails.iter().map(|(n, t)| (*n, if *n == 0 { 0 } else { self.now - *t })).collect();
        h.write_str(&format!("{:?}|{}|{age}|{fails:?}|{}|{}", self.m, self.sid.is_some(), self.backup_spent, self.now % 30));
        h.finish()
    }
}
