//! World OAUTH (C39): one user with a real login session, a confidential client (PKCE on), a
//! second confidential client and a public client. Codes are obtained through the real consent
//! and permit steps; the operations redeem them — correctly and with every mutation —, refresh,
//! replay rotated refresh tokens, revoke, expire the account, log the parent session out and let
//! time pass. After every step every token ever issued is put to introspection, userinfo and
//! (refresh tokens) the token endpoint.

use crate::idmfx::{person_uuid, Idm, PW_GOOD};
use crate::o2fx::{self, auth_request, Client, Pkce};
use crate::srv::{self, opstr};
use compact_jwt::JwsCompact;
use kanidm_proto::oauth2::{AccessTokenIntrospectRequest, AccessTokenRequest, AccessTokenResponse, GrantTypeReq, TokenRevokeRequest};
use kanidmd_lib::idm::account::DestroySessionTokenEvent;
use kanidmd_lib::idm::authentication::ClientAuthInfo;
use kanidmd_lib::idm::oauth2::{AuthorisationRequestContext, AuthoriseResponse};
use kanidmd_lib::idm::server::IdmServerTransaction;
use kanidmd_lib::prelude::*;
use kanidmd_lib::verif_hooks::identity_internal;
use kv_engine::forkdfs::World;
use kv_engine::Fnv;
use serde::{Deserialize, Serialize};
use std::collections::BTreeSet;
use std::str::FromStr;

const REDIRECT: &str = "https://demo.example.com/oauth2/result";
const OTHER_REDIRECT: &str = "https://portal.example.com/?custom=foo";
/// AUTH_TOKEN_GRACE_WINDOW (seconds) + a margin
const PAST_GRACE: u64 = 330;

#[derive(Clone, Debug, PartialEq, Eq, Serialize, Deserialize)]
pub enum Mutation {
    None,
    OtherClient,
    OtherRedirect,
    WrongVerifier,
    NoVerifier,
}

#[derive(Clone, Debug, PartialEq, Eq, Serialize, Deserialize)]
pub enum Op {
    /// obtain a code at client c (0 confidential, 2 public) for scope set s (0 {openid}, 1 {openid,email})
    Authorise(usize, usize),
    /// redeem code i
    Exchange(usize, Mutation),
    /// refresh with token set j: 0 same scopes, 1 narrower, 2 wider than the grant
    Refresh(usize, usize),
    /// present refresh token of set j at the other confidential client
    RefreshOtherClient(usize),
    /// revoke through the revocation endpoint using the access token of set j
    Revoke(usize),
    ExpireAccount,
    LogoutParent,
    /// the credential the parent login session was made with is replaced (C36): the login
    /// session is revoked in the same change
    ReplaceCredential,
    /// 0: 61 s (code lifetime), 1: past the grace window, 2: past the access token lifetime
    Tick(usize),
    /// revoke, on the client's key object, the key that signed the access token of set j
    RevokeSigningKey(usize),
}

#[derive(Clone, Debug, Default)]
pub struct Cfg {
    pub clients: Vec<usize>,
    pub max_codes: usize,
    pub max_sets: usize,
    pub lifecycle: bool,
    pub ticks: Vec<usize>,
    pub pre_ops: Vec<Op>,
    /// the confidential client also signs with RS256 ("legacy crypto")
    pub legacy_crypto: bool,
    /// offer revocation of the signing key of an issued access token
    pub key_revocation: bool,
    /// offer replacement of the user's credential; report only violations whose key starts
    /// with one of these prefixes (empty = all)
    pub cred_replacement: bool,
    pub only_keys: Vec<&'static str>,
}

pub struct Code {
    pub code: String,
    pub client: usize,
    pub scopes: BTreeSet<String>,
    pub issued: u64,
    pub redeemed: bool,
}

pub struct TokSet {
    pub access: String,
    pub refresh: Option<String>,
    pub client: usize,
    /// scopes of the ORIGINAL grant this set descends from
    pub grant: BTreeSet<String>,
    pub scopes: BTreeSet<String>,
    pub issued: u64,
    /// lineage: index of the first set of this grant (one OAuth2 session per grant)
    pub session: usize,
    /// its refresh token has been used (rotated)
    pub rotated: bool,
}

pub struct OAuthW {
    pub idm: Idm,
    pub now: u64,
    pub cfg: Cfg,
    pub clients: Vec<Client>,
    pub secrets: Vec<Option<String>>,
    pub uat: Option<JwsCompact>,
    pub uat_session: Option<Uuid>,
    pub codes: Vec<Code>,
    pub sets: Vec<TokSet>,
    /// sessions (by lineage index) that must be dead: (why, since)
    pub dead: std::collections::BTreeMap<usize, (String, u64)>,
    pub account_expired: bool,
    /// key ids revoked on a client's key object
    pub revoked_kids: BTreeSet<String>,
    pub parent_logged_out: Option<u64>,
    pub pending: Vec<(String, String)>,
    pub tainted: bool,
}

fn scope_set(s: usize) -> BTreeSet<String> {
    match s {
        0 => ["openid"].iter().map(|x| x.to_string()).collect(),
        1 => ["openid", "email"].iter().map(|x| x.to_string()).collect(),
        _ => ["openid", "email", "groups"].iter().map(|x| x.to_string()).collect(),
    }
}

impl OAuthW {
    pub fn new(cfg: Cfg) -> OAuthW {
        let mk = |n: u128, name: &str, public: bool| Client { name: name.to_string(), uuid: Uuid::from_u128(0x0c39_0000_0000_4000_8000_0000_0000_0000 + n), public, allow_localhost: false, pkce_disabled: false, main_scopes: vec!["openid", "email"], extra_map: true, sup_map: false, redirects: vec![REDIRECT, OTHER_REDIRECT], consent_prompt: true, legacy_crypto: false };
        let mut clients = vec![mk(1, "confidential", false), mk(2, "other", false), mk(3, "public", true)];
        clients[0].legacy_crypto = cfg.legacy_crypto;
        // user 1: member of G_MAIN only -> holds openid, email (not groups)
        let idm = match o2fx::build(&clients, 2) {
            Ok(i) => i,
            Err(e) => kv_engine::ctx::machinery_exit(&format!("oauth world: {e}")),
        };
        let secrets = clients.iter().map(|c| if c.public { None } else { o2fx::basic_secret(&idm, c) }).collect();
        let mut w = OAuthW { idm, now: 1000, cfg, clients, secrets, uat: None, uat_session: None, codes: vec![], sets: vec![], dead: Default::default(), account_expired: false, revoked_kids: BTreeSet::new(), parent_logged_out: None, pending: vec![], tainted: false };
        let ct = srv::t(w.now);
        match w.idm.login_pw(&o2fx::user_name(1), PW_GOOD, false, ct) {
            Ok(Some(t)) => {
                w.idm.pump(ct);
                let uat = w.idm.read(|r| r.validate_client_auth_info_to_uat(&ClientAuthInfo::new(Source::Internal, None, Some(t.clone()), None), ct));
                match uat {
                    Ok(u) => w.uat_session = Some(u.session_id),
                    Err(e) => kv_engine::ctx::machinery_exit(&format!("oauth world: uat: {e:?}")),
                }
                w.uat = Some(t);
            }
            other => kv_engine::ctx::machinery_exit(&format!("oauth world: login: {other:?}")),
        }
        w.now += 1;
        for op in w.cfg.pre_ops.clone() {
            let l = w.apply(&op);
            if !l.starts_with("ok") {
                kv_engine::ctx::machinery_exit(&format!("oauth world: pre-op {op:?}: {l}"));
            }
        }
        w.pending.clear();
        w
    }

    fn client_auth(&self, c: usize) -> (ClientAuthInfo, Option<(String, Option<String>)>) {
        let cl = &self.clients[c];
        if cl.public {
            (ClientAuthInfo::new(Source::Internal, None, None, None), Some((cl.name.clone(), None)))
        } else {
            (ClientAuthInfo::new(Source::Internal, None, None, Some(o2fx::b64(format!("{}:{}", cl.name, self.secrets[c].clone().unwrap_or_default()).as_bytes()))), None)
        }
    }

    fn token_req(&self, c: usize, grant: GrantTypeReq) -> (ClientAuthInfo, AccessTokenRequest) {
        let (cai, post) = self.client_auth(c);
        let req = match post {
            Some(p) => AccessTokenRequest { grant_type: grant, client_post_auth: p.into() },
            None => grant.into(),
        };
        (cai, req)
    }

    /// the token endpoint exactly as the server's request handler drives it: the transaction is
    /// committed when the answer is a success OR `invalid_grant` (a refusal that may carry a
    /// revocation), and dropped otherwise
    fn exchange(&self, c: usize, grant: GrantTypeReq) -> Result<AccessTokenResponse, String> {
        use kanidmd_lib::idm::oauth2::Oauth2Error;
        let ct = srv::t(self.now);
        let (cai, req) = self.token_req(c, grant);
        self.idm.rt.block_on(async {
            let mut w = self.idm.idms.proxy_write(ct).await.map_err(|e| format!("{e:?}"))?;
            let resp = w.check_oauth2_token_exchange(&cai, &req, ct);
            if matches!(&resp, Ok(_) | Err(Oauth2Error::InvalidGrant)) {
                w.commit().map_err(|e| format!("commit: {e:?}"))?;
            }
            resp.map_err(|e| format!("{e:?}"))
        })
    }

    fn introspect_active(&self, token: &str) -> Result<bool, String> {
        let ct = srv::t(self.now);
        let req = AccessTokenIntrospectRequest { token: token.to_string(), token_type_hint: None, client_post_auth: Default::default() };
        self.idm.read(|r| r.check_oauth2_token_introspect(&req, ct).map(|x| x.active).map_err(|e| format!("{e:?}")))
    }

    fn userinfo_ok(&self, client: usize, token: &str) -> bool {
        let ct = srv::t(self.now);
        let Ok(jws) = JwsCompact::from_str(token) else { return false };
        let name = self.clients[client].name.clone();
        self.idm.read(|r| r.oauth2_openid_userinfo(&name, &jws, ct).is_ok())
    }

    fn viol(&mut self, k: &str, what: String) {
        if !self.cfg.only_keys.is_empty() && !self.cfg.only_keys.iter().any(|p| k.starts_with(p)) {
            return;
        }
        self.pending.push((k.to_string(), what));
    }

    /// must this session's tokens be refused now, and why
    fn must_be_dead(&self, s: &TokSet) -> Option<String> {
        if let Some((why, _)) = self.dead.get(&s.session) {
            return Some(why.clone());
        }
        if self.account_expired {
            return Some("the account has expired".into());
        }
        if let Some(k) = Self::kid_of(&s.access) {
            if self.revoked_kids.contains(&k) {
                return Some(format!("the key {k} that signed it has been revoked"));
            }
        }
        if self.now >= s.issued + OAUTH2_ACCESS_TOKEN_EXPIRY as u64 {
            return Some("the access token's lifetime is over".into());
        }
        if self.parent_logged_out.is_some() {
            // the parent login session was revoked (its record is present and says so): that is
            // known at once, the grace window only covers a record that has not arrived yet
            return Some("the login session the grant came from was logged out".into());
        }
        None
    }

    fn kid_of(token: &str) -> Option<String> {
        use compact_jwt::traits::JwsVerifiable;
        JwsCompact::from_str(token).ok().and_then(|j| j.kid().map(|k| k.to_string()))
    }

    fn canon_string(&self) -> String {
        let mut p = Vec::new();
        p.push(format!("codes={:?}", self.codes.iter().map(|c| (c.client, c.scopes.len(), self.now - c.issued > 60, c.redeemed)).collect::<Vec<_>>()));
        p.push(format!("sets={:?}", self.sets.iter().map(|s| (s.client, s.scopes.len(), s.grant.len(), s.session, s.rotated, s.refresh.is_some(), (self.now - s.issued).min(2000))).collect::<Vec<_>>()));
        p.push(format!("dead={:?} revoked_keys={}", self.dead.keys().collect::<Vec<_>>(), self.revoked_kids.len()));
        p.push(format!("exp={} logout={:?}", self.account_expired, self.parent_logged_out.map(|t| (self.now - t).min(2000))));
        p.join("\n")
    }
}

impl World for OAuthW {
    type Op = Op;

    fn ops(&mut self) -> Vec<Op> {
        if self.tainted {
            return Vec::new();
        }
        let mut v = Vec::new();
        if self.cfg.key_revocation {
            for (j, s) in self.sets.iter().enumerate() {
                if let Some(k) = Self::kid_of(&s.access) {
                    if !self.revoked_kids.contains(&k) && !self.sets[..j].iter().any(|o| Self::kid_of(&o.access).as_ref() == Some(&k)) {
                        v.push(Op::RevokeSigningKey(j));
                    }
                }
            }
        }
        if self.codes.len() < self.cfg.max_codes && !self.account_expired && self.parent_logged_out.is_none() {
            for &c in &self.cfg.clients {
                v.push(Op::Authorise(c, 0));
                v.push(Op::Authorise(c, 1));
            }
        }
        for (i, c) in self.codes.iter().enumerate() {
            if c.redeemed {
                continue;
            }
            for m in [Mutation::OtherClient, Mutation::OtherRedirect, Mutation::WrongVerifier, Mutation::NoVerifier] {
                v.push(Op::Exchange(i, m));
            }
            if self.sets.len() < self.cfg.max_sets {
                v.push(Op::Exchange(i, Mutation::None));
            }
        }
        for (j, s) in self.sets.iter().enumerate() {
            if s.refresh.is_some() {
                v.push(Op::Refresh(j, 2));
                v.push(Op::RefreshOtherClient(j));
                if self.sets.len() < self.cfg.max_sets || s.rotated {
                    v.push(Op::Refresh(j, 0));
                    v.push(Op::Refresh(j, 1));
                }
            }
            if !self.dead.contains_key(&s.session) {
                v.push(Op::Revoke(j));
            }
        }
        if self.cfg.lifecycle {
            if !self.account_expired {
                v.push(Op::ExpireAccount);
            }
            if self.parent_logged_out.is_none() {
                v.push(Op::LogoutParent);
                if self.cfg.cred_replacement {
                    v.push(Op::ReplaceCredential);
                }
            }
        }
        for &t in &self.cfg.ticks {
            v.push(Op::Tick(t));
        }
        v
    }

    fn apply(&mut self, op: &Op) -> String {
        let ct = srv::t(self.now);
        let res = match op {
            Op::Authorise(c, s) => {
                let cl = self.clients[*c].clone();
                let scopes = scope_set(*s);
                let Some(uat) = self.uat.clone() else { return "machinery:no uat".into() };
                let ident = match self.idm.present(&uat, ct) {
                    Ok(i) => i,
                    Err(e) => return format!("err:ident {e:?}"),
                };
                let req = auth_request(&cl.name, &Url::parse(REDIRECT).unwrap_or_else(|_| kv_engine::ctx::machinery_exit("url")), &scopes, Pkce::S256);
                let r = self.idm.read(|r| r.check_oauth2_authorisation(Some(&ident), &req, &AuthorisationRequestContext::default(), ct));
                match r {
                    Ok(AuthoriseResponse::ConsentRequested { consent_token, .. }) => match self.idm.write(ct, |w| w.check_oauth2_authorise_permit(&ident, &consent_token, ct)) {
                        Ok(p) => {
                            self.idm.pump(ct);
                            self.codes.push(Code { code: p.code, client: *c, scopes, issued: self.now, redeemed: false });
                            "ok".to_string()
                        }
                        Err(e) => format!("err:permit {e:?}"),
                    },
                    Ok(AuthoriseResponse::Permitted(p)) => {
                        self.codes.push(Code { code: p.code, client: *c, scopes, issued: self.now, redeemed: false });
                        "ok:preconsented".to_string()
                    }
                    Ok(_) => "err:authentication required".into(),
                    Err(e) => format!("err:{e:?}"),
                }
            }
            Op::Exchange(i, m) => {
                let (code, client, scopes, issued) = {
                    let c = &self.codes[*i];
                    (c.code.clone(), c.client, c.scopes.clone(), c.issued)
                };
                let at_client = if *m == Mutation::OtherClient { if client == 1 { 0 } else { 1 } } else { client };
                let redirect = Url::parse(if *m == Mutation::OtherRedirect { OTHER_REDIRECT } else { REDIRECT }).unwrap_or_else(|_| kv_engine::ctx::machinery_exit("url"));
                let verifier = match m {
                    Mutation::WrongVerifier => Some(o2fx::OTHER_VERIFIER.to_string()),
                    Mutation::NoVerifier => None,
                    _ => Some(o2fx::VERIFIER.to_string()),
                };
                let r = self.exchange(at_client, GrantTypeReq::AuthorizationCode { code, redirect_uri: redirect, code_verifier: verifier });
                let expired = self.now > issued + 60;
                match r {
                    Ok(t) => {
                        self.idm.pump(ct);
                        let why_not = if *m != Mutation::None {
                            Some(format!("mutation {m:?}"))
                        } else if expired {
                            Some(format!("the code was issued {} s ago (lifetime 60 s)", self.now - issued))
                        } else if self.account_expired {
                            Some("the account has expired".to_string())
                        } else {
                            None
                        };
                        if let Some(w) = why_not {
                            let key = if *m != Mutation::None { format!("code_redeemed_despite:{m:?}") } else if expired { "code_redeemed_after_expiry".to_string() } else { "code_redeemed_for_expired_account".to_string() };
                            self.viol(&key, format!("an authorisation code issued to client `{}` for {scopes:?} yielded tokens at client `{}` although: {w}", self.clients[client].name, self.clients[at_client].name));
                        }
                        if !t.scope.is_subset(&scopes) {
                            self.viol("token_scopes_exceed_grant", format!("code for {scopes:?} yielded a token with {:?}", t.scope));
                        }
                        self.codes[*i].redeemed = true;
                        let idx = self.sets.len();
                        self.sets.push(TokSet { access: t.access_token, refresh: t.refresh_token, client, grant: scopes.clone(), scopes: t.scope, issued: self.now, session: idx, rotated: false });
                        "ok".to_string()
                    }
                    Err(e) => {
                        if *m == Mutation::None && !expired && !self.account_expired && self.parent_logged_out.is_none() {
                            format!("LEGIT-REFUSED:{e}")
                        } else {
                            format!("refused:{e}")
                        }
                    }
                }
            }
            Op::Refresh(j, _) | Op::RefreshOtherClient(j) => {
                let (other, how) = match op {
                    Op::RefreshOtherClient(_) => (true, 0usize),
                    Op::Refresh(_, h) => (false, *h),
                    _ => (false, 0),
                };
                let (rt, client, grant, session, rotated) = {
                    let s = &self.sets[*j];
                    (s.refresh.clone().unwrap_or_default(), s.client, s.grant.clone(), s.session, s.rotated)
                };
                let scope = match how {
                    0 => None,
                    1 => Some(scope_set(0)),
                    _ => Some(scope_set(2)),
                };
                let at = if other { if client == 1 { 0 } else { 1 } } else { client };
                let dead_before = self.must_be_dead_session(session);
                let r = self.exchange(at, GrantTypeReq::RefreshToken { refresh_token: rt, scope: scope.clone() });
                match r {
                    Ok(t) => {
                        self.idm.pump(ct);
                        if other {
                            self.viol("refresh_token_accepted_at_another_client", format!("a refresh token of client `{}` yielded tokens at client `{}`", self.clients[client].name, self.clients[at].name));
                        }
                        if rotated {
                            self.viol("rotated_refresh_token_accepted", "a refresh token that had already been used once yielded tokens again".to_string());
                        }
                        if let Some(w) = dead_before {
                            self.viol("refresh_of_dead_session", format!("a refresh token yielded tokens although {w}"));
                        }
                        if !t.scope.is_subset(&grant) {
                            self.viol("refresh_widened_scopes", format!("refresh of a grant for {grant:?} (asked {scope:?}) yielded {:?}", t.scope));
                        }
                        self.sets[*j].rotated = true;
                        self.sets.push(TokSet { access: t.access_token, refresh: t.refresh_token, client, grant, scopes: t.scope, issued: self.now, session, rotated: false });
                        "ok".to_string()
                    }
                    Err(e) => {
                        // the replay of a rotated refresh token revokes the whole session
                        if rotated && !other {
                            self.dead.entry(session).or_insert(("a rotated refresh token of the session was replayed".to_string(), self.now));
                        }
                        format!("refused:{e}")
                    }
                }
            }
            Op::Revoke(j) => {
                let (tok, session, client, issued) = {
                    let s = &self.sets[*j];
                    (s.access.clone(), s.session, s.client, s.issued)
                };
                let (_, post) = self.client_auth(client);
                let req = TokenRevokeRequest { token: tok, token_type_hint: None, client_post_auth: post.map(|p| p.into()).unwrap_or_default() };
                let r = self.idm.write(ct, |w| w.oauth2_token_revoke(&req, ct).map_err(|e| OperationError::InvalidAttribute(format!("{e:?}"))));
                // the endpoint answers an expired token with success and no effect (RFC 7009 2.2):
                // only the presentation of a token that is still in date revokes the session
                let in_date = self.now < issued + OAUTH2_ACCESS_TOKEN_EXPIRY as u64;
                if r.is_ok() && in_date {
                    self.dead.entry(session).or_insert(("the session was revoked through the revocation endpoint".to_string(), self.now));
                }
                opstr(&r)
            }
            Op::ExpireAccount => {
                let r = self.idm.write(ct, |w| w.qs_write.internal_modify_uuid(person_uuid(1), &ModifyList::new_purge_and_set(Attribute::AccountExpire, Value::new_datetime_epoch(srv::t(self.now - 1)))));
                if r.is_ok() {
                    self.account_expired = true;
                }
                opstr(&r)
            }
            Op::LogoutParent => {
                let Some(sid) = self.uat_session else { return "machinery:no session".into() };
                let r = self.idm.write(ct, |w| w.account_destroy_session_token(&DestroySessionTokenEvent { ident: identity_internal(), target: person_uuid(1), token_id: sid }));
                if r.is_ok() {
                    self.parent_logged_out = Some(self.now);
                }
                opstr(&r)
            }
            Op::ReplaceCredential => {
                let r = self.idm.replace_primary(ct, person_uuid(1), crate::idmfx::PW_NEW);
                if r.is_ok() {
                    self.parent_logged_out = Some(self.now);
                }
                opstr(&r)
            }
            Op::RevokeSigningKey(j) => {
                let (tok, client) = {
                    let s = &self.sets[*j];
                    (s.access.clone(), s.client)
                };
                let Some(kid) = Self::kid_of(&tok) else { return "machinery:token without key id".into() };
                let cu = self.clients[client].uuid;
                let r = self.idm.write(ct, |w| w.qs_write.internal_modify_uuid(cu, &ModifyList::new_append(Attribute::KeyActionRevoke, Value::HexString(kid.clone()))));
                if r.is_ok() {
                    self.revoked_kids.insert(kid);
                }
                opstr(&r)
            }
            Op::Tick(t) => {
                self.now += match t {
                    0 => 61,
                    1 => PAST_GRACE,
                    _ => OAUTH2_ACCESS_TOKEN_EXPIRY as u64 + 1,
                };
                "ok".into()
            }
        };
        self.now += 1;
        res
    }

    fn check(&mut self, last: Option<(&Op, &str)>) -> Vec<(String, String)> {
        let mut out = std::mem::take(&mut self.pending);
        if let Some((op, res)) = last {
            if let Some(e) = res.strip_prefix("LEGIT-REFUSED:") {
                out.push(("machinery:legitimate_exchange_refused".into(), format!("{op:?}: the unmodified exchange of a fresh code was refused ({e}); the world can no longer exercise anything")));
            }
        }
        for (j, s) in self.sets.iter().enumerate() {
            let Some(why) = self.must_be_dead(s) else { continue };
            match self.introspect_active(&s.access) {
                Ok(true) => out.push(("dead_token_introspects_active".into(), format!("introspection calls the access token of set {j} active although {why}"))),
                Ok(false) => {}
                Err(_) => {}
            }
            if self.userinfo_ok(s.client, &s.access) {
                out.push(("dead_token_accepted_by_userinfo".into(), format!("userinfo accepts the access token of set {j} although {why}")));
            }
        }
        // a live, young token of a session nobody touched must still work (non-vacuity of the above)
        for (j, s) in self.sets.iter().enumerate() {
            if self.must_be_dead(s).is_none() && self.parent_logged_out.is_none() && self.now < s.issued + 60 {
                if let Ok(false) = self.introspect_active(&s.access) {
                    out.push(("machinery:live_token_inactive".into(), format!("the fresh access token of set {j} introspects as inactive")));
                }
            }
        }
        if out.iter().any(|(k, _)| !k.starts_with("machinery:")) || !out.is_empty() {
            self.tainted = true;
        }
        out
    }

    fn canon(&mut self) -> u64 {
        let mut h = Fnv::new();
        h.write_str(&self.canon_string());
        h.finish()
    }
}

impl OAuthW {
    fn must_be_dead_session(&self, session: usize) -> Option<String> {
        if let Some((why, _)) = self.dead.get(&session) {
            return Some(why.clone());
        }
        if self.account_expired {
            return Some("the account has expired".into());
        }
        None
    }
}
