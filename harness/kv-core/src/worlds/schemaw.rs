//! World SCHEMA (C15): one person, one group, one service account and a menu of well-formed and
//! ill-formed requests. After every transition an independent checker validates EVERY live entry
//! of the directory against the schema in force; a refused request must leave nothing behind.

use crate::srv::{self, opstr, Srv};
use kanidmd_lib::entry::{Entry, EntryCommitted, EntryInit, EntryNew, EntrySealed};
use kanidmd_lib::prelude::*;
use kanidmd_lib::schema::SchemaTransaction;
use kanidmd_lib::verif_hooks::qs_read_verify;
use kv_engine::forkdfs::World;
use kv_engine::Fnv;
use serde::{Deserialize, Serialize};
use std::collections::BTreeSet;
use std::sync::Arc;

type SE = Arc<Entry<EntrySealed, EntryCommitted>>;

pub const NSLOTS: usize = 3;
pub const KIND: [&str; NSLOTS] = ["person", "group", "service"];
pub const NAME: [&str; NSLOTS] = ["sp", "sg", "ss"];

pub fn slot_uuid(s: usize) -> Uuid {
    Uuid::from_u128(0x5c4e_0000_0000_4000_8000_0000_0000_0300 + s as u128)
}

pub const NMODS: usize = 22;
pub const MOD_NAMES: [&str; NMODS] = [
    "add class posixaccount / posixgroup",
    "remove class person",
    "remove class object",
    "purge displayname",
    "add a second displayname",
    "mail := a plain string (wrong syntax)",
    "add member (reference)",
    "add class service_account",
    "purge name",
    "set description",
    "gidnumber := a string (wrong syntax)",
    "add class that does not exist",
    "add attribute that does not exist",
    "remove class posixaccount / posixgroup",
    "purge gidnumber",
    "add class extensibleobject",
    "remove class extensibleobject",
    "person -> service account in one request",
    "add class account (to a group)",
    "set loginshell",
    "add a second uuid",
    "purge class",
];

fn mods(s: usize, m: usize) -> ModifyList<ModifyInvalid> {
    let posix = if KIND[s] == "group" { EntryClass::PosixGroup } else { EntryClass::PosixAccount };
    let l = match m {
        0 => vec![Modify::Present(Attribute::Class, posix.to_value())],
        1 => vec![Modify::Removed(Attribute::Class, EntryClass::Person.into())],
        2 => vec![Modify::Removed(Attribute::Class, EntryClass::Object.into())],
        3 => vec![Modify::Purged(Attribute::DisplayName)],
        4 => vec![Modify::Present(Attribute::DisplayName, Value::new_utf8s("second"))],
        5 => vec![Modify::Present(Attribute::Mail, Value::new_utf8s("not-an-address-type"))],
        6 => vec![Modify::Present(Attribute::Member, Value::Refer(slot_uuid(0)))],
        7 => vec![Modify::Present(Attribute::Class, EntryClass::ServiceAccount.to_value())],
        8 => vec![Modify::Purged(Attribute::Name)],
        9 => vec![Modify::Purged(Attribute::Description), Modify::Present(Attribute::Description, Value::new_utf8s("described"))],
        10 => vec![Modify::Purged(Attribute::GidNumber), Modify::Present(Attribute::GidNumber, Value::new_utf8s("70000"))],
        11 => vec![Modify::Present(Attribute::Class, Value::new_iutf8("no_such_class"))],
        12 => vec![Modify::Present(Attribute::from("no_such_attribute"), Value::new_utf8s("x"))],
        13 => vec![Modify::Removed(Attribute::Class, posix.into())],
        14 => vec![Modify::Purged(Attribute::GidNumber)],
        15 => vec![Modify::Present(Attribute::Class, EntryClass::ExtensibleObject.to_value())],
        16 => vec![Modify::Removed(Attribute::Class, EntryClass::ExtensibleObject.into())],
        17 => vec![Modify::Removed(Attribute::Class, EntryClass::Person.into()), Modify::Present(Attribute::Class, EntryClass::ServiceAccount.to_value())],
        18 => vec![Modify::Present(Attribute::Class, EntryClass::Account.to_value())],
        19 => vec![Modify::Purged(Attribute::LoginShell), Modify::Present(Attribute::LoginShell, Value::new_iutf8("/bin/sh"))],
        20 => vec![Modify::Present(Attribute::Uuid, Value::Uuid(Uuid::from_u128(0x5c4e_0000_0000_4000_8000_0000_0000_03ee)))],
        _ => vec![Modify::Purged(Attribute::Class)],
    };
    ModifyList::new_list(l)
}

#[derive(Clone, Debug, PartialEq, Eq, Serialize, Deserialize)]
pub enum Op {
    /// create the slot: 0 well-formed, 1 without its required display name, 2 with an attribute
    /// its classes do not allow, 3 with an ill-typed value, 4 with two values on a single-valued
    /// attribute, 5 with an unknown class
    Create(usize, usize),
    Modify(usize, usize),
    Delete(usize),
}

#[derive(Clone, Debug, Default)]
pub struct Cfg {
    pub slots: Vec<usize>,
    pub precreate: Vec<usize>,
    pub pre_ops: Vec<Op>,
    pub mods: Vec<usize>,
}

pub struct SchemaW {
    pub srv: Srv,
    pub now: u64,
    pub cfg: Cfg,
    pub deleted: [bool; NSLOTS],
    pub tainted: bool,
    before: String,
}

fn mk_entry(s: usize, variant: usize) -> Entry<EntryInit, EntryNew> {
    let mut e: Entry<EntryInit, EntryNew> = Entry::new();
    e.add_ava(Attribute::Class, EntryClass::Object.to_value());
    e.add_ava(Attribute::Uuid, Value::Uuid(slot_uuid(s)));
    e.add_ava(Attribute::Name, Value::new_iname(NAME[s]));
    match KIND[s] {
        "person" => {
            e.add_ava(Attribute::Class, EntryClass::Account.to_value());
            e.add_ava(Attribute::Class, EntryClass::Person.to_value());
            if variant != 1 {
                e.add_ava(Attribute::DisplayName, Value::new_utf8s("P"));
            }
        }
        "group" => {
            e.add_ava(Attribute::Class, EntryClass::Group.to_value());
            if variant == 1 {
                // a group has no required attribute of its own beyond name: leave out the name
                e.pop_ava(Attribute::Name);
            }
        }
        _ => {
            e.add_ava(Attribute::Class, EntryClass::Account.to_value());
            e.add_ava(Attribute::Class, EntryClass::ServiceAccount.to_value());
            if variant != 1 {
                e.add_ava(Attribute::DisplayName, Value::new_utf8s("S"));
            }
        }
    }
    match variant {
        2 => e.add_ava(Attribute::OAuth2RsOrigin, Value::new_url_s("https://x.example.com/").unwrap_or_else(|| Value::new_utf8s("x"))),
        3 => e.add_ava(Attribute::Description, Value::Uint32(7)),
        4 => {
            e.add_ava(Attribute::Description, Value::new_utf8s("one"));
            e.add_ava(Attribute::Description, Value::new_utf8s("two"));
        }
        5 => e.add_ava(Attribute::Class, Value::new_iutf8("no_such_class")),
        _ => {}
    }
    e
}

impl SchemaW {
    pub fn new(cfg: Cfg) -> SchemaW {
        let mut w = SchemaW { srv: Srv::new(), now: 100, cfg, deleted: [false; NSLOTS], tainted: false, before: String::new() };
        for s in w.cfg.precreate.clone() {
            let l = w.apply(&Op::Create(s, 0));
            if l != "ok" {
                kv_engine::ctx::machinery_exit(&format!("precreate slot {s}: {l}"));
            }
        }
        for op in w.cfg.pre_ops.clone() {
            let l = w.apply(&op);
            if l != "ok" {
                kv_engine::ctx::machinery_exit(&format!("pre-op {op:?}: {l}"));
            }
        }
        w
    }

    fn live(&self) -> Vec<SE> {
        self.srv.read(|r| r.internal_search(Filter::new_ignore_hidden(f_pres(Attribute::Class))).unwrap_or_default())
    }

    fn slot_entries(&self) -> Vec<(usize, SE)> {
        self.srv.read(|r| {
            let mut out = Vec::new();
            for s in 0..NSLOTS {
                if let Ok(v) = r.internal_search(Filter::new(f_eq(Attribute::Uuid, PartialValue::Uuid(slot_uuid(s))))) {
                    for e in v {
                        out.push((s, e));
                    }
                }
            }
            out
        })
    }

    /// the whole directory, change ids included
    fn dump(&self) -> String {
        self.srv.read(|r| {
            let mut v: Vec<String> = r.internal_search(Filter::new(f_pres(Attribute::Class))).unwrap_or_default().iter().map(|e| srv::render_entry(e, &[])).collect();
            v.sort();
            v.join("\n")
        })
    }

    /// independent schema check of one live entry
    pub fn check_entry(schema: &dyn SchemaTransaction, e: &SE) -> Vec<(String, String)> {
        let mut out = Vec::new();
        let id = e.get_ava_set(Attribute::Name).and_then(|v| v.to_proto_string_clone_iter().next()).unwrap_or_else(|| e.get_uuid().to_string());
        let classes: Vec<String> = e.get_ava_set(Attribute::Class).map(|v| v.to_proto_string_clone_iter().collect()).unwrap_or_default();
        if classes.is_empty() {
            return vec![("no_class".into(), format!("{id} has no class"))];
        }
        if classes.iter().any(|c| c == "conflict") {
            return out;
        }
        let sc = schema.get_classes();
        let sa = schema.get_attributes();
        let mut known = Vec::new();
        for c in &classes {
            match sc.get(c.as_str()) {
                Some(x) => known.push(x),
                None => out.push(("unknown_class".into(), format!("{id} carries class `{c}` which the schema does not define"))),
            }
        }
        let has = |c: &str| classes.iter().any(|x| x == c);
        let supp: Vec<String> = known.iter().flat_map(|c| c.systemsupplements.iter().chain(c.supplements.iter())).map(|s| s.to_string()).collect();
        if !supp.is_empty() && !supp.iter().any(|s| has(s)) {
            out.push(("supplement_missing".into(), format!("{id} has classes {classes:?} but none of the classes they must be combined with {supp:?}")));
        }
        for x in known.iter().flat_map(|c| c.systemexcludes.iter().chain(c.excludes.iter())) {
            if has(x.as_str()) {
                out.push(("excluded_class_present".into(), format!("{id} combines classes that exclude each other ({x})")));
            }
        }
        let must: BTreeSet<Attribute> = known.iter().flat_map(|c| c.systemmust.iter().chain(c.must.iter())).cloned().collect();
        let may: BTreeSet<Attribute> = known.iter().flat_map(|c| c.systemmay.iter().chain(c.may.iter())).cloned().collect();
        for m in &must {
            if e.get_ava_set(m).is_none() {
                out.push((format!("missing_required:{m}"), format!("{id} (classes {classes:?}) lacks the required attribute {m}")));
            }
        }
        let extensible = has("extensibleobject");
        for (a, vs) in e.get_ava_iter() {
            match sa.get(a) {
                None => out.push((format!("unknown_attribute:{a}"), format!("{id} carries attribute {a} which the schema does not define"))),
                Some(def) => {
                    if extensible {
                        if def.phantom {
                            out.push((format!("phantom_attribute:{a}"), format!("{id} stores the phantom attribute {a}")));
                        }
                    } else if !must.contains(a) && !may.contains(a) {
                        out.push((format!("attribute_not_allowed:{a}"), format!("{id} (classes {classes:?}) carries {a}, which none of its classes allows")));
                    }
                    if !def.multivalue && vs.len() > 1 {
                        out.push((format!("single_valued_has_many:{a}"), format!("{id}: single-valued {a} has {} values", vs.len())));
                    }
                    if vs.syntax() != def.syntax {
                        out.push((format!("wrong_syntax:{a}"), format!("{id}: {a} holds values of syntax {:?}, the schema says {:?}", vs.syntax(), def.syntax)));
                    }
                    if vs.len() == 0 {
                        out.push((format!("empty_attribute:{a}"), format!("{id}: attribute {a} is stored without a value")));
                    }
                }
            }
        }
        out
    }

    fn canon_string(&self) -> String {
        let mut parts = Vec::new();
        let skip = [Attribute::LastModifiedCid, Attribute::CreatedAtCid];
        for (s, e) in self.slot_entries() {
            parts.push(format!("{s}:{}", srv::render_entry(&e, &skip)));
        }
        parts.sort();
        parts.push(format!("deleted={:?}", self.deleted));
        parts.join("\n")
    }
}

impl World for SchemaW {
    type Op = Op;

    fn ops(&mut self) -> Vec<Op> {
        if self.tainted {
            return Vec::new();
        }
        let ents = self.slot_entries();
        let live = |s: usize| ents.iter().any(|(x, e)| *x == s && !e.attribute_equality(Attribute::Class, &EntryClass::Recycled.into()) && !e.attribute_equality(Attribute::Class, &EntryClass::Tombstone.into()));
        let exists = |s: usize| ents.iter().any(|(x, _)| *x == s);
        let mut v = Vec::new();
        for &s in &self.cfg.slots {
            if !exists(s) && !self.deleted[s] {
                for variant in 0..6 {
                    v.push(Op::Create(s, variant));
                }
            } else if live(s) {
                for &m in &self.cfg.mods {
                    v.push(Op::Modify(s, m));
                }
                v.push(Op::Delete(s));
            }
        }
        v
    }

    fn apply(&mut self, op: &Op) -> String {
        let ct = srv::t(self.now);
        self.before = self.dump();
        let r: Result<(), OperationError> = match op {
            Op::Create(s, variant) => self.srv.write(ct, |w| w.internal_create(vec![mk_entry(*s, *variant)])),
            Op::Modify(s, m) => self.srv.write(ct, |w| w.internal_modify_uuid(slot_uuid(*s), &mods(*s, *m))),
            Op::Delete(s) => {
                let r = self.srv.write(ct, |w| w.internal_delete_uuid(slot_uuid(*s)));
                if r.is_ok() {
                    self.deleted[*s] = true;
                }
                r
            }
        };
        self.now += 1;
        opstr(&r)
    }

    fn check(&mut self, last: Option<(&Op, &str)>) -> Vec<(String, String)> {
        let mut out = Vec::new();
        if let Some((op, res)) = last {
            if res != "ok" {
                let after = self.dump();
                if after != self.before {
                    out.push(("refused_request_left_a_trace".into(), format!("{op:?} was refused ({res}) but the directory changed")));
                }
            }
        }
        let live = self.live();
        let found: Vec<(String, String)> = self.srv.read(|r| {
            let schema = r.get_schema();
            live.iter().flat_map(|e| Self::check_entry(schema, e)).collect()
        });
        out.extend(found);
        let v: Vec<String> = self.srv.read(|r| qs_read_verify(r).into_iter().filter_map(|x| x.err()).map(|e| format!("{e:?}")).collect());
        if !v.is_empty() {
            out.push(("verify_failed".into(), format!("the server's own consistency check reports {}", v.join(", ").chars().take(300).collect::<String>())));
        }
        if !out.is_empty() {
            self.tainted = true;
        }
        out
    }

    fn canon(&mut self) -> u64 {
        let mut h = Fnv::new();
        h.write_str(&self.canon_string());
        h.finish()
    }
}
