//! RESET world (C37): credential-reset links (intent tokens) on a real IdmServer.
//!
//! Operations: create link, exchange link for a session, set a password on a session, commit or
//! cancel a session, time steps (1 s, past the link's expiry). History variables: per link the
//! number of committed credential changes, whether it has expired, and which of its sessions has
//! been superseded by a later exchange.

use crate::idmfx::{person_entry, person_uuid, Idm, PW_GOOD};
use crate::srv;
use kanidmd_lib::idm::credupdatesession::{CredentialUpdateIntentToken, CredentialUpdateIntentTokenExchange, CredentialUpdateSessionToken, InitCredentialUpdateIntentEvent};
use kanidmd_lib::prelude::*;
use kv_engine::forkdfs::World;
use kv_engine::Fnv;
use serde::{Deserialize, Serialize};

pub const PWS: [&str; 2] = ["Yt4%rW8!kP1#-first-reset", "Bn6^cX2@jH9&-other-reset"];

#[derive(Clone, Debug, Serialize, Deserialize, PartialEq, Eq)]
pub enum Op {
    Link(usize),
    Exchange(usize),
    SetPw(usize, usize),
    Commit(usize),
    Cancel(usize),
    Tick(u64),
}

pub struct Link {
    pub tok: CredentialUpdateIntentToken,
    pub expires: u64,
    pub commits: u32,
}

pub struct Sess {
    pub cust: CredentialUpdateSessionToken,
    pub link: usize,
    pub pw: Option<usize>,
    /// the password in force when the session was opened: a session commits its whole view of
    /// the credentials, so a commit without a password edit puts this one (back) in force
    pub snapshot_pw: Option<usize>,
    pub superseded: bool,
    pub finished: bool,
    /// when the session was opened (sessions have a lifetime of their own)
    pub started: u64,
}

#[derive(Clone, Debug, Default)]
pub struct Cfg {
    pub links: usize,
    pub max_sessions: usize,
}

pub struct Reset {
    pub idm: Idm,
    pub cfg: Cfg,
    pub now: u64,
    pub links: Vec<Option<Link>>,
    pub sess: Vec<Sess>,
    /// password index currently in force (None = the initial one)
    pub current_pw: Option<usize>,
    pub pending: Vec<(String, String)>,
    pub tainted: bool,
}

fn secs(odt: time::OffsetDateTime) -> u64 {
    (odt.unix_timestamp() as u64).saturating_sub(srv::T0)
}

impl Reset {
    pub fn new(cfg: Cfg) -> Reset {
        let idm = Idm::new();
        let ct = srv::t(10);
        let die = |what: &str, e: OperationError| -> ! { kv_engine::ctx::machinery_exit(&format!("reset world setup: {what}: {e:?}")) };
        if let Err(e) = idm.create(ct, person_entry("p0", person_uuid(0))) {
            die("create person", e);
        }
        if let Err(e) = idm.set_primary(ct, person_uuid(0), PW_GOOD, false) {
            die("set password", e);
        }
        let links = (0..cfg.links).map(|_| None).collect();
        Reset { idm, cfg, now: 1000, links, sess: Vec::new(), current_pw: None, pending: Vec::new(), tainted: false }
    }

    fn viol(&mut self, key: &str, what: String) {
        self.pending.push((key.to_string(), what));
    }

    fn pw_in_force(&self) -> &'static str {
        match self.current_pw {
            None => PW_GOOD,
            Some(i) => PWS[i],
        }
    }
}

impl World for Reset {
    type Op = Op;

    fn ops(&mut self) -> Vec<Op> {
        if self.tainted {
            return Vec::new();
        }
        let mut v = Vec::new();
        for l in 0..self.cfg.links {
            if self.links[l].is_none() {
                v.push(Op::Link(l));
            } else if self.sess.len() < self.cfg.max_sessions {
                v.push(Op::Exchange(l));
            }
        }
        for (i, s) in self.sess.iter().enumerate() {
            // finished sessions are retried once more on purpose (commit after commit / cancel)
            if s.pw.is_none() && !s.finished {
                v.push(Op::SetPw(i, 0));
                v.push(Op::SetPw(i, 1));
            } else if !s.finished {
                v.push(Op::SetPw(i, 1 - s.pw.unwrap_or(0)));
            }
            v.push(Op::Commit(i));
            if !s.finished {
                v.push(Op::Cancel(i));
            }
        }
        v.push(Op::Tick(1));
        if let Some(exp) = self.links.iter().flatten().map(|l| l.expires).filter(|e| *e >= self.now).min() {
            v.push(Op::Tick(exp + 1 - self.now));
        }
        v
    }

    fn apply(&mut self, op: &Op) -> String {
        let ct = srv::t(self.now);
        match op {
            Op::Tick(dt) => {
                self.now += dt;
                "tick".into()
            }
            Op::Link(l) => {
                let Some(entry) = self.idm.entry(person_uuid(0)) else { return "machinery:no person".into() };
                let ident = Identity::from_impersonate_entry_readwrite(entry);
                let r = self.idm.write(ct, |w| w.init_credential_update_intent(&InitCredentialUpdateIntentEvent::new(ident, person_uuid(0), Some(Duration::from_secs(900))), ct));
                match r {
                    Ok(tok) => {
                        let expires = secs(tok.expiry_time);
                        self.links[*l] = Some(Link { tok, expires, commits: 0 });
                        "ok".into()
                    }
                    Err(e) => format!("err:{e:?}"),
                }
            }
            Op::Exchange(l) => {
                let (tok, expires, commits) = match &self.links[*l] {
                    Some(k) => (CredentialUpdateIntentTokenExchange { intent_id: k.tok.intent_id.clone() }, k.expires, k.commits),
                    None => return "machinery:no link".into(),
                };
                let r = self.idm.write(ct, |w| w.exchange_intent_credential_update(tok, ct));
                match r {
                    Ok((cust, _)) => {
                        if commits > 0 {
                            self.viol("link_exchanged_after_commit", format!("link {l} was exchanged for a new session at {} after its credential change had been committed", self.now));
                        }
                        if self.now > expires {
                            self.viol("link_exchanged_after_expiry", format!("link {l} expired at {expires} but was exchanged at {}", self.now));
                        }
                        for s in self.sess.iter_mut() {
                            if s.link == *l && !s.finished {
                                s.superseded = true;
                            }
                        }
                        self.sess.push(Sess { cust, link: *l, pw: None, snapshot_pw: self.current_pw, superseded: false, finished: false, started: self.now });
                        "ok".into()
                    }
                    Err(e) => format!("err:{e:?}"),
                }
            }
            Op::SetPw(i, p) => {
                let cust = CredentialUpdateSessionToken { token_enc: self.sess[*i].cust.token_enc.clone() };
                let r = self.idm.rt.block_on(async {
                    let cutxn = self.idm.idms.cred_update_transaction().await?;
                    cutxn.credential_primary_set_password(&cust, ct, PWS[*p]).map(|_| ())
                });
                if r.is_ok() {
                    self.sess[*i].pw = Some(*p);
                }
                srv::opstr(&r)
            }
            Op::Commit(i) => {
                let cust = CredentialUpdateSessionToken { token_enc: self.sess[*i].cust.token_enc.clone() };
                let r = self.idm.write(ct, |w| w.commit_credential_update(&cust, ct));
                let (link, superseded, finished, pw, snapshot_pw) = {
                    let s = &self.sess[*i];
                    (s.link, s.superseded, s.finished, s.pw, s.snapshot_pw)
                };
                if r.is_ok() {
                    let expires = self.links[link].as_ref().map(|l| l.expires).unwrap_or(0);
                    if superseded {
                        self.viol("superseded_session_committed", format!("session {i} of link {link} was superseded by a later exchange of the same link, yet its commit succeeded"));
                    }
                    if finished {
                        self.viol("finished_session_committed", format!("session {i} of link {link} had already been committed or cancelled, yet a commit succeeded"));
                    }
                    if let Some(l) = self.links[link].as_mut() {
                        l.commits += 1;
                        if l.commits > 1 {
                            let n = l.commits;
                            self.viol("link_committed_twice", format!("link {link} has now led to {n} committed credential changes"));
                        }
                    }
                    let _ = expires;
                    self.sess[*i].finished = true;
                    // (whether a stale session should be allowed to put an older password back is
                    // not what this property is about; the model follows the code here)
                    self.current_pw = if pw.is_some() { pw } else { snapshot_pw };
                }
                srv::opstr(&r)
            }
            Op::Cancel(i) => {
                let cust = CredentialUpdateSessionToken { token_enc: self.sess[*i].cust.token_enc.clone() };
                let r = self.idm.write(ct, |w| w.cancel_credential_update(&cust, ct));
                if r.is_ok() {
                    self.sess[*i].finished = true;
                }
                srv::opstr(&r)
            }
        }
    }

    fn check(&mut self, _last: Option<(&Op, &str)>) -> Vec<(String, String)> {
        // the password in force is the one of the last committed change (ties the history
        // variable to an observable effect); read from the stored credential so that the probe
        // itself cannot trip the soft lock
        let cred = self.idm.entry(person_uuid(0)).and_then(|e| e.get_ava_single_credential(Attribute::PrimaryCredential).cloned());
        match cred {
            None => self.viol("credential_missing", "the person has no primary credential".into()),
            Some(c) => {
                let cands: [(&str, Option<usize>); 3] = [(PW_GOOD, None), (PWS[0], Some(0)), (PWS[1], Some(1))];
                for (pw, idx) in cands {
                    let ok = c.password_ref().ok().and_then(|p| p.verify(pw).ok()).unwrap_or(false);
                    let want = idx == self.current_pw;
                    if ok && !want {
                        self.viol("uncommitted_password_in_force", format!("password {idx:?} verifies at {} although the last committed change set {:?}", self.now, self.current_pw));
                    }
                    if !ok && want {
                        self.viol("committed_password_not_in_force", format!("the password of the last committed change ({:?}) does not verify at {}", self.current_pw, self.now));
                    }
                }
            }
        }
        let out = std::mem::take(&mut self.pending);
        if !out.is_empty() {
            self.tainted = true;
        }
        out
    }

    fn canon(&mut self) -> u64 {
        let mut h = Fnv::new();
        let now = self.now;
        for l in &self.links {
            match l {
                None => h.write_str("-"),
                Some(l) => h.write_str(&format!("L{}:{}", l.commits, if now > l.expires { -1 } else { (l.expires - now) as i64 })),
            }
        }
        for s in &self.sess {
            h.write_str(&format!("S{}:{:?}:{:?}:{}:{}:{}", s.link, s.pw, s.snapshot_pw, s.superseded, s.finished, now - s.started));
        }
        h.write_str(&format!("{:?}", self.current_pw));
        h.finish()
    }
}
