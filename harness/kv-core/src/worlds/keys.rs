//! World KEYS (C34, and the replicated half of C11): two replicas of one domain, each a real
//! IdmServer. Operations rotate and revoke the domain's signing keys through the real key-action
//! attributes, log users in (the login token is signed by the domain key object), replicate in
//! either direction and let time pass — also beyond the changelog window. Every token ever issued
//! is presented to both servers after every step, and to a server restored from a backup of each
//! state.

use crate::bkp;
use crate::idmfx::{person_entry, person_uuid, Idm, PW_GOOD};
use crate::srv::{self, opstr};
use compact_jwt::traits::JwsVerifiable;
use compact_jwt::JwsCompact;
use kanidm_proto::backup::BackupCompression;
use kanidmd_lib::idm::server::IdmServer;
use kanidmd_lib::prelude::*;
use kv_engine::forkdfs::World;
use kv_engine::Fnv;
use serde::{Deserialize, Serialize};
use std::collections::BTreeSet;
use std::str::FromStr;

#[derive(Clone, Debug, PartialEq, Eq, Serialize, Deserialize)]
pub enum Op {
    /// log in on replica r
    Login(usize),
    /// rotate the domain signing key on replica r; the new key is valid from now (0) or from
    /// 300 seconds in the future (1)
    Rotate(usize, usize),
    /// revoke on replica r the i-th key (in key-id order) that r knows and has not revoked
    Revoke(usize, usize),
    /// incremental replication from -> to
    Repl(usize, usize),
    Tick,
    /// let more than the changelog window pass
    TickLong,
}

#[derive(Clone, Debug, Default)]
pub struct Cfg {
    pub login_on: Vec<usize>,
    pub rotate_on: Vec<usize>,
    pub revoke_on: Vec<usize>,
    pub long_tick: bool,
    pub max_tokens: usize,
    pub max_rotations: usize,
    pub pre_ops: Vec<Op>,
    /// also present every token to a server restored from a backup of each new state
    pub reload: bool,
}

pub struct Art {
    pub token: JwsCompact,
    pub kid: String,
    pub issued_on: usize,
    pub issued_at: u64,
}

pub struct Keys {
    pub idm: [Idm; 2],
    pub now: u64,
    pub cfg: Cfg,
    pub arts: Vec<Art>,
    /// key ids whose revocation each replica has performed or received
    pub knows_revoked: [BTreeSet<String>; 2],
    /// when (harness clock) each key id was first revoked anywhere
    pub revoked_at: std::collections::BTreeMap<String, u64>,
    pub rotations: usize,
    /// replica r has changed the key set since it last supplied the other replica
    pub unsent: [bool; 2],
    /// both replicas changed the key set without having seen each other's change (sticky)
    pub concurrent_changes: bool,
    pub tainted: bool,
    pub last_repl_ok: bool,
}

/// (kid, status, usage, valid_from) of every key of the domain key object as stored on a replica
fn stored_keys(idm: &Idm) -> Vec<(String, String, String, u64)> {
    let mut out = Vec::new();
    if let Some(e) = idm.entry(UUID_DOMAIN_INFO) {
        if let Some(vs) = e.get_ava_set(Attribute::KeyInternalData) {
            for s in vs.to_proto_string_clone_iter() {
                // "<kid>: <status> <usage> <valid_from>"
                if let Some((kid, rest)) = s.split_once(": ") {
                    let p: Vec<&str> = rest.split(' ').collect();
                    if p.len() == 3 {
                        out.push((kid.to_string(), p[0].to_string(), p[1].to_string(), p[2].parse().unwrap_or(0)));
                    }
                }
            }
        }
    }
    out.sort();
    out
}

impl Keys {
    pub fn new(cfg: Cfg) -> Keys {
        let a = Idm::new();
        let b = Idm::new();
        let mut w = Keys { idm: [a, b], now: 100, cfg, arts: Vec::new(), knows_revoked: [BTreeSet::new(), BTreeSet::new()], revoked_at: Default::default(), rotations: 0, unsent: [false; 2], concurrent_changes: false, tainted: false, last_repl_ok: false };
        // the account, on replica 0; replica 1 then joins replica 0's domain by a refresh
        let r = w.idm[0].create(srv::t(10), person_entry("alice", person_uuid(0))).and_then(|_| w.idm[0].set_primary(srv::t(11), person_uuid(0), PW_GOOD, false).map(|_| ()));
        if let Err(e) = r {
            kv_engine::ctx::machinery_exit(&format!("keys world: account: {e:?}"));
        }
        let (a, b) = (&w.idm[0], &w.idm[1]);
        let r: Result<(), OperationError> = b.rt.block_on(async {
            let mut wr = b.idms.proxy_write(srv::t(20)).await?;
            let ctx = {
                let mut rd = a.idms.proxy_read().await?;
                rd.qs_read.supplier_provide_refresh()?
            };
            wr.qs_write.consumer_apply_refresh(ctx)?;
            wr.commit()
        });
        if let Err(e) = r {
            kv_engine::ctx::machinery_exit(&format!("keys world: initial refresh: {e:?}"));
        }
        for op in w.cfg.pre_ops.clone() {
            let l = w.apply(&op);
            if l.starts_with("err") {
                kv_engine::ctx::machinery_exit(&format!("keys world: pre-op {op:?}: {l}"));
            }
        }
        w
    }

    fn repl(&mut self, from: usize, to: usize) -> String {
        let ct = srv::t(self.now);
        let (a, b) = (&self.idm[from], &self.idm[to]);
        let r: Result<String, OperationError> = b.rt.block_on(async {
            let mut wr = b.idms.proxy_write(ct).await?;
            let state = wr.qs_write.consumer_get_state()?;
            let changes = {
                let mut rd = a.idms.proxy_read().await?;
                rd.qs_read.supplier_provide_changes(state)?
            };
            let kind = crate::worlds::repl::answer_kind(&changes).to_string();
            let cs = wr.qs_write.consumer_apply_changes(changes)?;
            wr.commit()?;
            Ok(format!("{kind}:{}", match cs { kanidmd_lib::repl::proto::ConsumerState::Ok => "Ok", kanidmd_lib::repl::proto::ConsumerState::RefreshRequired => "RefreshRequired" }))
        });
        match r {
            Ok(s) => {
                self.last_repl_ok = s == "V1:Ok" || s == "NoChangesAvailable:Ok";
                if self.last_repl_ok {
                    let k = self.knows_revoked[from].clone();
                    self.knows_revoked[to].extend(k);
                    self.unsent[from] = false;
                }
                format!("ok:{s}")
            }
            Err(e) => format!("err:{e:?}"),
        }
    }

    /// the key a new signature must use according to the stored key set of replica r
    fn expected_signer(&self, r: usize) -> Option<String> {
        stored_keys(&self.idm[r]).into_iter().filter(|(_, st, us, vf)| st == "valid" && us == "jws_es256" && *vf <= srv::t(self.now).as_secs()).max_by_key(|(kid, _, _, vf)| (*vf, kid.clone())).map(|(k, _, _, _)| k)
    }

    fn accepted(idm: &Idm, token: &JwsCompact, now: u64) -> bool {
        idm.present(token, srv::t(now)).is_ok()
    }

    fn canon_string(&self) -> String {
        let mut parts = Vec::new();
        for r in 0..2 {
            parts.push(format!("keys{r}={:?}", stored_keys(&self.idm[r]).iter().map(|(k, st, us, vf)| format!("{}:{st}:{us}:{}", &k[..k.len().min(8)], vf.saturating_sub(srv::T0))).collect::<Vec<_>>()));
            parts.push(format!("knows{r}={:?}", self.knows_revoked[r]));
        }
        parts.push(format!("arts={:?}", self.arts.iter().map(|a| format!("{}@{}:{}", &a.kid[..a.kid.len().min(8)], a.issued_on, self.now - a.issued_at)).collect::<Vec<_>>()));
        parts.push(format!("rot={} unsent={:?} conc={}", self.rotations, self.unsent, self.concurrent_changes));
        parts.push(format!("revoked_ago={:?}", self.revoked_at.iter().map(|(k, t)| (k[..k.len().min(8)].to_string(), self.now - t)).collect::<Vec<_>>()));
        // pending replication: the change state of the domain object decides what the next exchange carries
        for r in 0..2 {
            let e = self.idm[r].entry(UUID_DOMAIN_INFO);
            parts.push(format!("dom{r}={}", e.map(|e| srv::render_entry(&e, &[Attribute::LastModifiedCid, Attribute::CreatedAtCid])).map(|s| kv_engine::hash_str(&s)).unwrap_or(0)));
        }
        parts.join("\n")
    }
}

impl World for Keys {
    type Op = Op;

    fn ops(&mut self) -> Vec<Op> {
        if self.tainted {
            return Vec::new();
        }
        let mut v = Vec::new();
        if self.arts.len() < self.cfg.max_tokens {
            for &r in &self.cfg.login_on {
                v.push(Op::Login(r));
            }
        }
        if self.rotations < self.cfg.max_rotations {
            for &r in &self.cfg.rotate_on {
                v.push(Op::Rotate(r, 0));
                v.push(Op::Rotate(r, 1));
            }
        }
        for &r in &self.cfg.revoke_on {
            let n = stored_keys(&self.idm[r]).iter().filter(|(_, st, us, _)| st != "revoked" && us == "jws_es256").count();
            for i in 0..n {
                v.push(Op::Revoke(r, i));
            }
        }
        v.push(Op::Repl(0, 1));
        v.push(Op::Repl(1, 0));
        v.push(Op::Tick);
        if self.cfg.long_tick {
            v.push(Op::TickLong);
        }
        v
    }

    fn apply(&mut self, op: &Op) -> String {
        let ct = srv::t(self.now);
        let res = match op {
            Op::Login(r) => {
                let want = self.expected_signer(*r);
                match self.idm[*r].login_pw("alice", PW_GOOD, false, ct) {
                    Ok(Some(tok)) => {
                        self.idm[*r].pump(ct);
                        let kid = tok.kid().unwrap_or("").to_string();
                        let label = if Some(&kid) == want.as_ref() { "ok".to_string() } else { format!("ok:SIGNER {} expected {:?}", kid, want) };
                        self.arts.push(Art { token: tok, kid, issued_on: *r, issued_at: self.now });
                        label
                    }
                    Ok(None) => "denied".into(),
                    Err(e) => format!("err:{e:?}"),
                }
            }
            Op::Rotate(r, delay) => {
                let at = srv::t(self.now + if *delay == 1 { 300 } else { 0 });
                let res = self.idm[*r].write(ct, |w| w.qs_write.internal_modify_uuid(UUID_DOMAIN_INFO, &ModifyList::new_append(Attribute::KeyActionRotate, Value::new_datetime_epoch(at))));
                if res.is_ok() {
                    self.rotations += 1;
                    self.unsent[*r] = true;
                    if self.unsent[1 - *r] {
                        self.concurrent_changes = true;
                    }
                }
                opstr(&res)
            }
            Op::Revoke(r, i) => {
                let keys: Vec<String> = stored_keys(&self.idm[*r]).into_iter().filter(|(_, st, us, _)| st != "revoked" && us == "jws_es256").map(|(k, _, _, _)| k).collect();
                match keys.get(*i) {
                    Some(kid) => {
                        let res = self.idm[*r].write(ct, |w| w.qs_write.internal_modify_uuid(UUID_DOMAIN_INFO, &ModifyList::new_append(Attribute::KeyActionRevoke, Value::HexString(kid.clone()))));
                        if res.is_ok() {
                            self.knows_revoked[*r].insert(kid.clone());
                            self.revoked_at.entry(kid.clone()).or_insert(self.now);
                            self.unsent[*r] = true;
                            if self.unsent[1 - *r] {
                                self.concurrent_changes = true;
                            }
                        }
                        opstr(&res)
                    }
                    None => "skipped".into(),
                }
            }
            Op::Repl(f, t) => self.repl(*f, *t),
            Op::Tick => {
                self.now += 400;
                "ok".into()
            }
            Op::TickLong => {
                self.now += CHANGELOG_MAX_AGE + 10;
                "ok".into()
            }
        };
        self.now += 1;
        if std::env::var("KV_DEBUG").is_ok() {
            for r in 0..2 {
                eprintln!("after {op:?} -> {res}: replica {r} keys {:?}", stored_keys(&self.idm[r]).iter().map(|(k, st, us, vf)| format!("{}:{st}:{us}:{}", &k[..6], vf.saturating_sub(srv::T0))).collect::<Vec<_>>());
            }
        }
        res
    }

    fn check(&mut self, last: Option<(&Op, &str)>) -> Vec<(String, String)> {
        let mut out = self.check_inner(last);
        if self.concurrent_changes {
            // the history contains key changes made on both replicas before either had seen the
            // other's: name that in the key (it is the precondition of one known defect)
            for (k, w) in out.iter_mut() {
                if !k.starts_with("machinery:") {
                    k.push_str(":after_concurrent_key_changes_on_both_replicas");
                    w.push_str(" [both replicas had changed the key set before they exchanged changes]");
                }
            }
        }
        if !out.is_empty() {
            self.tainted = true;
        }
        out
    }

    fn check_state(&mut self) -> Vec<(String, String)> {
        if !self.cfg.reload || self.tainted || self.arts.is_empty() {
            return Vec::new();
        }
        let mut out = Vec::new();
        for r in 0..2 {
            let bytes = self.idm[r].read(|rd| bkp::backup_bytes(&mut rd.qs_read, BackupCompression::NoCompression));
            let bytes = match bytes {
                Ok(b) => b,
                Err(e) => return vec![("machinery:backup".into(), e)],
            };
            let path = bkp::scratch_db();
            let res: Result<Vec<bool>, String> = (|| {
                bkp::restore_fresh(&path, &bytes, BackupCompression::NoCompression)?;
                let rt = srv::new_rt();
                let qs = srv::new_qs(Some(&path), 1, DOMAIN_TGT_LEVEL, srv::t(self.now), &rt).map_err(|e| format!("start: {e:?}"))?;
                let origin = Url::from_str("https://idm.example.com").map_err(|e| e.to_string())?;
                let (idms, delayed, audit) = rt.block_on(IdmServer::new(qs, &origin, true, srv::t(self.now))).map_err(|e| format!("idm: {e:?}"))?;
                let re = Idm { rt, idms, delayed, audit };
                Ok(self.arts.iter().map(|a| Self::accepted(&re, &a.token, self.now)).collect())
            })();
            bkp::remove_db(&path);
            match res {
                Ok(v) => {
                    for (a, acc) in self.arts.iter().zip(v.iter()) {
                        let live = Self::accepted(&self.idm[r], &a.token, self.now);
                        if *acc && self.knows_revoked[r].contains(&a.kid) {
                            out.push(("revoked_key_accepted:after_reload".into(), format!("a server reloaded from replica {r}'s storage accepts a token signed with the revoked key {}", a.kid)));
                        } else if *acc != live {
                            out.push(("reload_changes_acceptance".into(), format!("replica {r} {} the token signed with key {} but a server reloaded from its storage {} it", if live { "accepts" } else { "rejects" }, a.kid, if *acc { "accepts" } else { "rejects" })));
                        }
                    }
                }
                Err(e) => out.push(("machinery:reload".into(), e)),
            }
        }
        if !out.is_empty() {
            self.tainted = true;
        }
        out
    }

    fn canon(&mut self) -> u64 {
        let mut h = Fnv::new();
        h.write_str(&self.canon_string());
        h.finish()
    }
}

impl Keys {
    fn check_inner(&mut self, last: Option<(&Op, &str)>) -> Vec<(String, String)> {
        let mut out = Vec::new();
        if let Some((Op::Login(r), res)) = last {
            if let Some(rest) = res.strip_prefix("ok:SIGNER ") {
                out.push(("signed_with_wrong_key".into(), format!("the login token issued on replica {r} is signed with key {rest} (newest valid, started, non-revoked key of the stored key set)")));
            }
        }
        for a in &self.arts {
            for r in 0..2 {
                let acc = Self::accepted(&self.idm[r], &a.token, self.now);
                if acc && self.knows_revoked[r].contains(&a.kid) {
                    out.push((format!("revoked_key_accepted:{}", if r == a.issued_on { "issuing_replica" } else { "other_replica" }), format!("replica {r} accepts a token signed with key {}, whose revocation it has {}", a.kid, if r == a.issued_on { "performed or received" } else { "received or performed" })));
                }
            }
            // rotation never invalidates: on the issuing replica a token of a key nobody revoked
            // is accepted while its session is young
            let revoked_anywhere = self.knows_revoked.iter().any(|k| k.contains(&a.kid));
            let r = a.issued_on;
            if !revoked_anywhere && self.now - a.issued_at < 3000 && !Self::accepted(&self.idm[r], &a.token, self.now) {
                out.push(("unrevoked_key_rejected".into(), format!("replica {r} rejects its own token signed with key {}, which nobody revoked, {} s after issuing it", a.kid, self.now - a.issued_at)));
            }
        }
        // a revocation a replica knows is in its stored key set (or the key is gone altogether)
        for r in 0..2 {
            let keys = stored_keys(&self.idm[r]);
            for kid in &self.knows_revoked[r] {
                match keys.iter().find(|(k, _, _, _)| k == kid) {
                    Some((_, st, _, _)) if st != "revoked" => out.push(("revocation_lost:status".into(), format!("replica {r} performed or received the revocation of key {kid}, but its stored key set says `{st}`"))),
                    Some(_) => {}
                    None => {
                        // the record of a revocation may only be dropped once the revocation
                        // itself is older than the changelog window
                        let age = self.now - self.revoked_at.get(kid).copied().unwrap_or(self.now);
                        if age <= CHANGELOG_MAX_AGE {
                            out.push(("revocation_lost:record_dropped_early".into(), format!("replica {r} performed or received the revocation of key {kid} {age} s ago (changelog window {CHANGELOG_MAX_AGE} s), but its stored key set no longer has any record of the key")));
                        }
                    }
                }
            }
        }
        if !out.is_empty() {
            self.tainted = true;
        }
        out
    }
}
