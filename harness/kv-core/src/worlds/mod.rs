pub mod dir;
pub mod repl;
pub mod auth;
pub mod tokens;
pub mod reset;
pub mod refs;
pub mod schemaw;
pub mod keys;
