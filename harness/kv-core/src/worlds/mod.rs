pub mod dir;
