pub mod dir;
pub mod repl;
