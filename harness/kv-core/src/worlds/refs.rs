//! World REFS: a small directory whose entries point at each other — people, groups, a dynamic
//! group, an OAuth2 client with a scope map, entry managers. Decides
//!   C16 (no live entry references a non-live entry) and
//!   C18 (a dynamic group's members are exactly the live entries matching its filter)
//! by fork-snapshot search over every operation sequence up to a depth, on the real server.

use crate::srv::{self, opstr, Srv};
use kanidm_proto::internal::Filter as ProtoFilter;
use kanidmd_lib::entry::{Entry, EntryCommitted, EntryInit, EntryNew, EntrySealed};
use kanidmd_lib::event::ReviveRecycledEvent;
use kanidmd_lib::prelude::*;
use kanidmd_lib::verif_hooks::{identity_internal, qs_read_verify};
use kv_engine::forkdfs::World;
use kv_engine::Fnv;
use serde::{Deserialize, Serialize};
use std::collections::{BTreeMap, BTreeSet};
use std::sync::Arc;

type SE = Arc<Entry<EntrySealed, EntryCommitted>>;

pub const NSLOTS: usize = 7;
/// 0,1 people; 2,3 groups; 4 dynamic group; 5 OAuth2 client; 6 second dynamic group
pub const KIND: [&str; NSLOTS] = ["person", "person", "group", "group", "dyngroup", "oauth2", "dyngroup"];
pub const NAME: [&str; NSLOTS] = ["ua", "ub", "ga", "gb", "da", "oa", "db"];
const VALS: [&str; 2] = ["p", "q"];

pub fn slot_uuid(s: usize) -> Uuid {
    Uuid::from_u128(0x5e10_0000_0000_4000_8000_0000_0000_0200 + s as u128)
}
/// a uuid that never exists
fn ghost_uuid() -> Uuid {
    Uuid::from_u128(0x5e10_0000_0000_4000_8000_0000_0000_02ff)
}

/// dynamic group filters over the candidates' display name and class
pub fn dyn_filter(k: usize) -> ProtoFilter {
    let dn = |v: &str| ProtoFilter::Eq("displayname".into(), v.into());
    match k {
        0 => dn("p"),
        1 => dn("q"),
        2 => ProtoFilter::Eq("class".into(), "person".into()),
        3 => ProtoFilter::Or(vec![dn("p"), dn("q")]),
        4 => ProtoFilter::And(vec![ProtoFilter::Eq("class".into(), "person".into()), ProtoFilter::AndNot(Box::new(dn("p")))]),
        // matches groups — the dynamic group itself and the other dynamic group included
        _ => ProtoFilter::Eq("class".into(), "group".into()),
    }
}
pub const NFILTERS: usize = 6;

#[derive(Clone, Debug, PartialEq, Eq, Serialize, Deserialize)]
pub enum Op {
    Create(usize),
    /// create a group that already names a member (which may not exist or be in the bin)
    CreateWithMember(usize, usize),
    Delete(usize),
    Revive(usize),
    AdvRecycle,
    PurgeRecycled,
    AdvChangelog,
    PurgeTombstones,
    /// member edits; the member may be any slot in any state, or a uuid that never existed
    AddMember(usize, usize),
    AddGhostMember(usize),
    RemMember(usize, usize),
    SetManager(usize, usize),
    ClearManager(usize),
    SetScopeMap(usize),
    RemScopeMap(usize),
    /// map group g into the client's claims under TWO claim names at once
    SetClaimMaps(usize),
    /// display name of a person := p | q
    SetVal(usize, usize),
    SetFilter(usize, usize),
}

#[derive(Clone, Debug, Default)]
pub struct Cfg {
    pub slots: Vec<usize>,
    pub precreate: Vec<usize>,
    pub pre_ops: Vec<Op>,
    pub refs: bool,
    pub dynamic: bool,
    pub purge: bool,
    pub filters: Vec<usize>,
    pub props: BTreeSet<&'static str>,
}

#[derive(Clone, Copy, Debug, PartialEq, Eq)]
pub enum Life {
    Absent,
    Live,
    Recycled,
    Tombstone,
}

pub struct Refs {
    pub srv: Srv,
    pub now: u64,
    pub cfg: Cfg,
    pub deleted: [bool; NSLOTS],
    pub tainted: bool,
}

fn mk_entry(s: usize, filter: usize) -> Entry<EntryInit, EntryNew> {
    let mut e: Entry<EntryInit, EntryNew> = Entry::new();
    e.add_ava(Attribute::Class, EntryClass::Object.to_value());
    e.add_ava(Attribute::Uuid, Value::Uuid(slot_uuid(s)));
    e.add_ava(Attribute::Name, Value::new_iname(NAME[s]));
    match KIND[s] {
        "person" => {
            e.add_ava(Attribute::Class, EntryClass::Account.to_value());
            e.add_ava(Attribute::Class, EntryClass::Person.to_value());
            e.add_ava(Attribute::DisplayName, Value::new_utf8s(VALS[s % 2]));
        }
        "group" => {
            e.add_ava(Attribute::Class, EntryClass::Group.to_value());
        }
        "dyngroup" => {
            e.add_ava(Attribute::Class, EntryClass::Group.to_value());
            e.add_ava(Attribute::Class, EntryClass::DynGroup.to_value());
            e.add_ava(Attribute::DynGroupFilter, Value::JsonFilt(dyn_filter(filter)));
        }
        _ => {
            e.add_ava(Attribute::Class, EntryClass::Account.to_value());
            e.add_ava(Attribute::Class, EntryClass::OAuth2ResourceServer.to_value());
            e.add_ava(Attribute::Class, EntryClass::OAuth2ResourceServerPublic.to_value());
            e.add_ava(Attribute::DisplayName, Value::new_utf8s("client"));
            if let Some(u) = Value::new_url_s("https://client.example.com/landing") {
                e.add_ava(Attribute::OAuth2RsOriginLanding, u);
            }
            if let Some(u) = Value::new_url_s("https://client.example.com/cb") {
                e.add_ava(Attribute::OAuth2RsOrigin, u);
            }
        }
    }
    e
}

fn strs(e: &SE, a: Attribute) -> Vec<String> {
    e.get_ava_set(a).map(|v| v.to_proto_string_clone_iter().collect()).unwrap_or_default()
}

impl Refs {
    pub fn new(cfg: Cfg) -> Refs {
        let mut w = Refs { srv: Srv::new(), now: 100, cfg, deleted: [false; NSLOTS], tainted: false };
        for s in w.cfg.precreate.clone() {
            let l = w.apply(&Op::Create(s));
            if l != "ok" {
                kv_engine::ctx::machinery_exit(&format!("precreate slot {s}: {l}"));
            }
        }
        for op in w.cfg.pre_ops.clone() {
            let l = w.apply(&op);
            if l != "ok" {
                kv_engine::ctx::machinery_exit(&format!("pre-op {op:?}: {l}"));
            }
        }
        w
    }

    pub fn life_of(e: &SE) -> Life {
        if e.attribute_equality(Attribute::Class, &EntryClass::Tombstone.into()) {
            Life::Tombstone
        } else if e.attribute_equality(Attribute::Class, &EntryClass::Recycled.into()) {
            Life::Recycled
        } else {
            Life::Live
        }
    }

    /// every live entry of the directory (shipped entries included): (uuid, life, entry)
    fn all_entries(&self) -> Vec<(Uuid, Life, SE)> {
        self.srv.read(|r| r.internal_search(Filter::new_ignore_hidden(f_pres(Attribute::Class))).unwrap_or_default().into_iter().map(|e| (e.get_uuid(), Life::Live, e)).collect())
    }

    /// our slots in any state
    pub fn slot_entries(&self) -> Vec<(usize, SE)> {
        self.srv.read(|r| {
            let mut out = Vec::new();
            for s in 0..NSLOTS {
                let f = Filter::new(f_eq(Attribute::Uuid, PartialValue::Uuid(slot_uuid(s))));
                if let Ok(v) = r.internal_search(f) {
                    for e in v {
                        out.push((s, e));
                    }
                }
            }
            out
        })
    }

    pub fn lives(&self) -> [Life; NSLOTS] {
        let mut l = [Life::Absent; NSLOTS];
        for (s, e) in self.slot_entries() {
            l[s] = Self::life_of(&e);
        }
        l
    }

    fn eval(f: &ProtoFilter, e: &SE) -> bool {
        match f {
            ProtoFilter::Eq(a, v) => match a.as_str() {
                "displayname" => strs(e, Attribute::DisplayName).iter().any(|x| x == v),
                "class" => strs(e, Attribute::Class).iter().any(|x| x.eq_ignore_ascii_case(v)),
                _ => false,
            },
            ProtoFilter::Or(l) => l.iter().any(|x| Self::eval(x, e)),
            ProtoFilter::And(l) => l.iter().all(|x| Self::eval(x, e)),
            ProtoFilter::AndNot(x) => !Self::eval(x, e),
            _ => false,
        }
    }

    fn check_c16(&mut self, out: &mut Vec<(String, String)>) {
        let live = self.all_entries();
        let live_set: BTreeSet<Uuid> = live.iter().map(|(u, _, _)| *u).collect();
        for (u, _, e) in &live {
            for (attr, vs) in e.get_ava_iter() {
                if let Some(it) = vs.as_ref_uuid_iter() {
                    for t in it {
                        if !live_set.contains(&t) {
                            let who = (0..NSLOTS).find(|s| slot_uuid(*s) == *u).map(|s| NAME[s].to_string()).unwrap_or_else(|| u.to_string());
                            let tgt = (0..NSLOTS).find(|s| slot_uuid(*s) == t).map(|s| NAME[s].to_string()).unwrap_or_else(|| "a uuid that never existed".to_string());
                            out.push((format!("dangling:{attr}"), format!("live entry {who} has {attr} pointing at {tgt}, which is not a live entry")));
                        }
                    }
                }
            }
        }
        let v: Vec<String> = self.srv.read(|r| qs_read_verify(r).into_iter().filter_map(|x| x.err()).map(|e| format!("{e:?}")).collect());
        if !v.is_empty() {
            out.push(("verify_failed".into(), format!("the server's own consistency check reports {}", v.join(", ").chars().take(300).collect::<String>())));
        }
    }

    fn check_c18(&mut self, out: &mut Vec<(String, String)>) {
        let live = self.all_entries();
        let by_uuid: BTreeMap<Uuid, &SE> = live.iter().map(|(u, _, e)| (*u, e)).collect();
        let nm = |u: &Uuid| (0..NSLOTS).find(|s| slot_uuid(*s) == *u).map(|s| NAME[s].to_string()).unwrap_or_else(|| by_uuid.get(u).map(|e| strs(e, Attribute::Name).join(",")).unwrap_or_else(|| u.to_string()));
        for (u, _, e) in &live {
            if !e.attribute_equality(Attribute::Class, &EntryClass::DynGroup.into()) {
                continue;
            }
            if !(0..NSLOTS).any(|s| slot_uuid(s) == *u) {
                continue; // shipped dynamic groups are not driven by this world
            }
            let f: Option<ProtoFilter> = e.get_ava_set(Attribute::DynGroupFilter).and_then(|vs| vs.to_proto_string_clone_iter().next()).and_then(|s| serde_json::from_str(&s).ok());
            let Some(f) = f else {
                out.push(("dyngroup_without_filter".into(), format!("dynamic group {} has no readable filter", nm(u))));
                continue;
            };
            let want: BTreeSet<Uuid> = live.iter().filter(|(_, _, c)| Self::eval(&f, c)).map(|(cu, _, _)| *cu).collect();
            let got: BTreeSet<Uuid> = e.get_ava_set(Attribute::DynMember).and_then(|vs| vs.as_ref_uuid_iter().map(|i| i.collect())).unwrap_or_default();
            // a dynamic group's members are the matching entries however the membership is stored:
            // a static `member` value on a dynamic group is membership too
            let static_m: BTreeSet<Uuid> = e.get_ava_set(Attribute::Member).and_then(|vs| vs.as_ref_uuid_iter().map(|i| i.collect())).unwrap_or_default();
            let stray: Vec<String> = static_m.difference(&want).map(&nm).collect();
            if !stray.is_empty() && !self.cfg.refs {
                out.push(("static_member_outside_filter".into(), format!("dynamic group {} with filter {f:?} has static member(s) {stray:?} that do not match its filter (no operation of this world sets static members)", nm(u))));
            }
            if want != got {
                let missing: Vec<String> = want.difference(&got).map(&nm).collect();
                let extra: Vec<String> = got.difference(&want).map(&nm).collect();
                let kind = if !missing.is_empty() && !extra.is_empty() { "missing_and_extra" } else if !missing.is_empty() { "missing" } else { "extra" };
                out.push((format!("dynmember_{kind}"), format!("dynamic group {} with filter {f:?}: entries that match but are not members {missing:?}; members that do not match {extra:?}", nm(u))));
            }
        }
        // membership seen from the member's side
        for (u, _, e) in &live {
            if !(0..NSLOTS).any(|s| slot_uuid(s) == *u) {
                continue;
            }
            let want: BTreeSet<Uuid> = live
                .iter()
                .filter(|(_, _, g)| {
                    let m: BTreeSet<Uuid> = [Attribute::Member, Attribute::DynMember].into_iter().filter_map(|a| g.get_ava_set(a).and_then(|vs| vs.as_ref_uuid_iter().map(|i| i.collect::<Vec<_>>()))).flatten().collect();
                    m.contains(u)
                })
                .map(|(gu, _, _)| *gu)
                .collect();
            let got: BTreeSet<Uuid> = e.get_ava_set(Attribute::DirectMemberOf).and_then(|vs| vs.as_ref_uuid_iter().map(|i| i.collect())).unwrap_or_default();
            if want != got {
                out.push(("directmemberof_disagrees_with_dynmember".into(), format!("{}: groups that list it as member or dynamic member {:?}, its directmemberof {:?}", nm(u), want.iter().map(&nm).collect::<Vec<_>>(), got.iter().map(&nm).collect::<Vec<_>>())));
            }
        }
    }

    fn canon_string(&self) -> String {
        let mut parts = Vec::new();
        let skip = [Attribute::LastModifiedCid, Attribute::CreatedAtCid];
        for (s, e) in self.slot_entries() {
            parts.push(format!("{s}:{:?}:{}", Self::life_of(&e), srv::render_entry(&e, &skip)));
        }
        parts.sort();
        parts.push(format!("deleted={:?}", self.deleted));
        parts.join("\n")
    }
}

impl World for Refs {
    type Op = Op;

    fn ops(&mut self) -> Vec<Op> {
        if self.tainted {
            return Vec::new();
        }
        let lives = self.lives();
        let ents = self.slot_entries();
        let ent = |s: usize| ents.iter().find(|(x, _)| *x == s).map(|(_, e)| e.clone());
        let slots = self.cfg.slots.clone();
        let mut v = Vec::new();
        for &s in &slots {
            match lives[s] {
                Life::Absent if !self.deleted[s] => {
                    v.push(Op::Create(s));
                    if self.cfg.refs && KIND[s] == "group" {
                        for &m in &slots {
                            if m != s && lives[m] != Life::Live {
                                v.push(Op::CreateWithMember(s, m));
                            }
                        }
                    }
                }
                Life::Live => v.push(Op::Delete(s)),
                Life::Recycled => v.push(Op::Revive(s)),
                _ => {}
            }
        }
        if self.cfg.purge {
            if lives.iter().any(|l| *l == Life::Recycled) {
                v.push(Op::AdvRecycle);
                v.push(Op::PurgeRecycled);
            }
            if lives.iter().any(|l| *l == Life::Tombstone) {
                v.push(Op::AdvChangelog);
                v.push(Op::PurgeTombstones);
            }
        }
        if self.cfg.refs {
            for &g in &slots {
                if KIND[g] != "group" || lives[g] != Life::Live {
                    continue;
                }
                let e = ent(g);
                for &m in &slots {
                    let is_member = e.as_ref().map(|e| e.attribute_equality(Attribute::Member, &PartialValue::Refer(slot_uuid(m)))).unwrap_or(false);
                    if is_member {
                        v.push(Op::RemMember(g, m));
                    } else {
                        // also towards entries that are absent, recycled or tombstoned
                        v.push(Op::AddMember(g, m));
                    }
                }
                v.push(Op::AddGhostMember(g));
            }
            for &s in &slots {
                if lives[s] != Life::Live || !(KIND[s] == "group" || KIND[s] == "oauth2") {
                    continue;
                }
                let has = ent(s).map(|e| e.get_ava_set(Attribute::EntryManagedBy).is_some()).unwrap_or(false);
                if has {
                    v.push(Op::ClearManager(s));
                } else {
                    for &t in &slots {
                        if t != s && (KIND[t] == "person" || KIND[t] == "group") {
                            v.push(Op::SetManager(s, t));
                        }
                    }
                }
            }
            if slots.contains(&5) && lives[5] == Life::Live {
                let e = ent(5);
                for &g in &slots {
                    if KIND[g] != "group" {
                        continue;
                    }
                    let has = e.as_ref().map(|e| e.attribute_equality(Attribute::OAuth2RsScopeMap, &PartialValue::Refer(slot_uuid(g)))).unwrap_or(false);
                    v.push(if has { Op::RemScopeMap(g) } else { Op::SetScopeMap(g) });
                    let has_claim = e.as_ref().map(|e| e.get_ava_set(Attribute::OAuth2RsClaimMap).and_then(|vs| vs.as_ref_uuid_iter().map(|mut i| i.any(|u| u == slot_uuid(g)))).unwrap_or(false)).unwrap_or(false);
                    if !has_claim {
                        v.push(Op::SetClaimMaps(g));
                    }
                }
            }
        }
        if self.cfg.dynamic {
            for &s in &slots {
                if KIND[s] == "person" && lives[s] == Life::Live {
                    let cur = ent(s).map(|e| strs(&e, Attribute::DisplayName)).unwrap_or_default();
                    for (i, val) in VALS.iter().enumerate() {
                        if !cur.iter().any(|c| c == val) {
                            v.push(Op::SetVal(s, i));
                        }
                    }
                }
                if KIND[s] == "dyngroup" && lives[s] == Life::Live {
                    let cur: Option<ProtoFilter> = ent(s).and_then(|e| strs(&e, Attribute::DynGroupFilter).first().and_then(|s| serde_json::from_str(s).ok()));
                    for &k in &self.cfg.filters {
                        if cur.as_ref() != Some(&dyn_filter(k)) {
                            v.push(Op::SetFilter(s, k));
                        }
                    }
                }
            }
        }
        v
    }

    fn apply(&mut self, op: &Op) -> String {
        let ct = srv::t(self.now);
        let r: Result<(), OperationError> = match op {
            Op::Create(s) => {
                let k = self.cfg.filters.first().copied().unwrap_or(0);
                // the second dynamic group starts with another filter
                let k = if *s == 6 { self.cfg.filters.get(1).copied().unwrap_or(k) } else { k };
                self.srv.write(ct, |w| w.internal_create(vec![mk_entry(*s, k)]))
            }
            Op::CreateWithMember(s, m) => self.srv.write(ct, |w| {
                let mut e = mk_entry(*s, 0);
                e.add_ava(Attribute::Member, Value::Refer(slot_uuid(*m)));
                w.internal_create(vec![e])
            }),
            Op::Delete(s) => {
                let r = self.srv.write(ct, |w| w.internal_delete_uuid(slot_uuid(*s)));
                if r.is_ok() {
                    self.deleted[*s] = true;
                }
                r
            }
            Op::Revive(s) => self.srv.write(ct, |w| {
                let f = Filter::new_recycled(f_eq(Attribute::Uuid, PartialValue::Uuid(slot_uuid(*s)))).validate(w.get_schema()).map_err(OperationError::SchemaViolation)?;
                w.revive_recycled(&ReviveRecycledEvent { ident: identity_internal(), filter: f })
            }),
            Op::AdvRecycle => {
                self.now += RECYCLEBIN_MAX_AGE + 1;
                Ok(())
            }
            Op::AdvChangelog => {
                self.now += CHANGELOG_MAX_AGE + 1;
                Ok(())
            }
            Op::PurgeRecycled => self.srv.write(ct, |w| w.purge_recycled().map(|_| ())),
            Op::PurgeTombstones => self.srv.write(ct, |w| w.purge_tombstones().map(|_| ())),
            Op::AddMember(g, m) => self.srv.write(ct, |w| w.internal_modify_uuid(slot_uuid(*g), &ModifyList::new_list(vec![Modify::Present(Attribute::Member, Value::Refer(slot_uuid(*m)))]))),
            Op::AddGhostMember(g) => self.srv.write(ct, |w| w.internal_modify_uuid(slot_uuid(*g), &ModifyList::new_list(vec![Modify::Present(Attribute::Member, Value::Refer(ghost_uuid()))]))),
            Op::RemMember(g, m) => self.srv.write(ct, |w| w.internal_modify_uuid(slot_uuid(*g), &ModifyList::new_list(vec![Modify::Removed(Attribute::Member, PartialValue::Refer(slot_uuid(*m)))]))),
            Op::SetManager(s, t) => self.srv.write(ct, |w| w.internal_modify_uuid(slot_uuid(*s), &ModifyList::new_purge_and_set(Attribute::EntryManagedBy, Value::Refer(slot_uuid(*t))))),
            Op::ClearManager(s) => self.srv.write(ct, |w| w.internal_modify_uuid(slot_uuid(*s), &ModifyList::new_purge(Attribute::EntryManagedBy))),
            Op::SetScopeMap(g) => self.srv.write(ct, |w| {
                let v = Value::new_oauthscopemap(slot_uuid(*g), ["read".to_string()].into_iter().collect()).ok_or(OperationError::InvalidValueState)?;
                w.internal_modify_uuid(slot_uuid(5), &ModifyList::new_list(vec![Modify::Present(Attribute::OAuth2RsScopeMap, v)]))
            }),
            Op::SetClaimMaps(g) => self.srv.write(ct, |w| {
                let vals = |n: &str| Value::OauthClaimValue(n.to_string(), slot_uuid(*g), [format!("v_{n}")].into_iter().collect());
                w.internal_modify_uuid(slot_uuid(5), &ModifyList::new_list(vec![Modify::Present(Attribute::OAuth2RsClaimMap, vals("claim_a")), Modify::Present(Attribute::OAuth2RsClaimMap, vals("claim_b"))]))
            }),
            Op::RemScopeMap(g) => self.srv.write(ct, |w| w.internal_modify_uuid(slot_uuid(5), &ModifyList::new_list(vec![Modify::Removed(Attribute::OAuth2RsScopeMap, PartialValue::Refer(slot_uuid(*g)))]))),
            Op::SetVal(s, i) => self.srv.write(ct, |w| w.internal_modify_uuid(slot_uuid(*s), &ModifyList::new_purge_and_set(Attribute::DisplayName, Value::new_utf8s(VALS[*i])))),
            Op::SetFilter(s, k) => self.srv.write(ct, |w| w.internal_modify_uuid(slot_uuid(*s), &ModifyList::new_purge_and_set(Attribute::DynGroupFilter, Value::JsonFilt(dyn_filter(*k))))),
        };
        self.now += 1;
        if std::env::var("KV_DEBUG").is_ok() {
            let dm: Vec<String> = self.srv.read(|r| r.internal_search_uuid(UUID_IDM_ALL_PERSONS).map(|e| strs(&e, Attribute::DynMember)).unwrap_or_default());
            let lives = self.lives();
            eprintln!("after {op:?} -> {}: lives {lives:?}; idm_all_persons.dynmember = {dm:?}", opstr(&r));
        }
        opstr(&r)
    }

    fn check(&mut self, _last: Option<(&Op, &str)>) -> Vec<(String, String)> {
        let mut out = Vec::new();
        if self.cfg.props.contains("C16") {
            self.check_c16(&mut out);
        }
        if self.cfg.props.contains("C18") {
            self.check_c18(&mut out);
        }
        if !out.is_empty() {
            self.tainted = true;
        }
        out
    }

    fn check_state(&mut self) -> Vec<(String, String)> {
        if !self.cfg.props.contains("C13") || self.tainted {
            return Vec::new();
        }
        let uuids: Vec<Uuid> = (0..NSLOTS).map(slot_uuid).collect();
        let orig = self.srv.read(|r| crate::bkp::observe_original(r, &uuids, &NAME));
        let out = match orig {
            Ok(o) => crate::bkp::round_trip_check(&self.srv.rt, &o, srv::t(self.now), &uuids, &NAME),
            Err(e) => vec![("backup_failed".to_string(), e)],
        };
        if !out.is_empty() {
            self.tainted = true;
        }
        out
    }

    fn canon(&mut self) -> u64 {
        let mut h = Fnv::new();
        h.write_str(&self.canon_string());
        h.finish()
    }
}
