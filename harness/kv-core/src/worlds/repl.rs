//! REPL world: 2-3 real servers in one process, joined into one domain by a refresh, each
//! taking local writes; replication steps are the real
//! consumer_get_state -> supplier_provide_changes -> consumer_apply_changes chain (or the
//! refresh chain). The convergence property is evaluated in EVERY explored state by running, in
//! a forked copy, replication to quiescence under every first-round edge order.

use crate::srv::{self, opstr, Srv};
use kanidmd_lib::entry::{Entry, EntryCommitted, EntryInit, EntryNew, EntrySealed};
use kanidmd_lib::event::ReviveRecycledEvent;
use kanidmd_lib::prelude::*;
use kanidmd_lib::repl::proto::{ConsumerState, ReplIncrementalContext};
use kanidmd_lib::verif_hooks::{identity_internal, qs_read_verify};
use kv_engine::forkdfs::{fork_eval, World};
use kv_engine::Fnv;
use serde::{Deserialize, Serialize};
use std::collections::{BTreeMap, BTreeSet};
use std::sync::Arc;

pub type SE = Arc<Entry<EntrySealed, EntryCommitted>>;

pub const NSLOTS: usize = 3; // 0 = person U1, 1 = person U2, 2 = group G1
pub const NAMES: [&str; 3] = ["a", "b", "c"];

pub fn slot_uuid(s: usize) -> Uuid {
    Uuid::from_u128(0x4e91_0000_0000_4000_8000_0000_0000_0020 + s as u128)
}

#[derive(Clone, Debug, Serialize, Deserialize, PartialEq, Eq)]
pub enum Op {
    /// (replica, slot, name index)
    Create(usize, usize, usize),
    Rename(usize, usize, usize),
    SetDisp(usize, usize, usize),
    SetMail(usize, usize),
    PurgeMail(usize, usize),
    Delete(usize, usize),
    Revive(usize, usize),
    AddMember(usize, usize),
    RemMember(usize, usize),
    /// the group slot becomes a POSIX group (class + generated gid) / stops being one (class and
    /// gid removed) / gets another class added, on replica r
    PosixOn(usize),
    PosixOff(usize),
    TouchClass(usize),
    /// incremental replication from -> to
    Repl(usize, usize),
    /// refresh from -> to
    Refresh(usize, usize),
    /// time passes beyond the recycle-bin window, then every replica purges recycled entries
    AgeRecycle(usize),
    /// time passes beyond the changelog window, then this replica reaps tombstones / trims its RUV
    AgeChangelog(usize),
}

#[derive(Clone, Debug, Default)]
pub struct Cfg {
    /// class edits of the group slot (C15: schema conformance after merges)
    pub class_edits: bool,
    pub replicas: usize,
    pub slots: Vec<usize>,
    pub names: usize,
    pub disp: bool,
    pub rename: bool,
    pub lifecycle: bool,
    pub revive: bool,
    pub members: bool,
    pub refresh: bool,
    pub aging: bool,
    /// at most this many Repl/Refresh operations in one trace
    pub max_repl: usize,
    /// create these slots on replica 0 and replicate them everywhere before the search starts
    pub precreate: Vec<usize>,
    /// give every transaction on every replica the same timestamp (cid order decided by server uuid)
    pub same_time: bool,
    pub props: BTreeSet<&'static str>,
    /// operations applied (unchecked) before the search starts, after the replicas were joined
    pub pre_ops: Vec<Op>,
    /// reduced alphabet: one rename target, one displayname value
    pub small: bool,
}

#[derive(Clone, Copy, Debug, PartialEq, Eq)]
pub enum Life {
    Absent,
    Live,
    Recycled,
    Tombstone,
}

pub struct Repl {
    pub srvs: Vec<Srv>,
    pub now: u64,
    pub cfg: Cfg,
    pub nrepl: usize,
    pub tainted: bool,
    /// C09 history: slots deleted somewhere (and never revived since)
    pub deleted: [bool; NSLOTS],
    /// C09: time at which replica r last trimmed its changelog (AgeChangelog)
    pub trimmed_at: Vec<Option<u64>>,
    /// C09: per (consumer, supplier) the time of last successful contact
    pub last_contact: Vec<Vec<u64>>,
    /// result of the last Repl op: the supplier's answer kind
    pub last_answer: String,
    /// contact time of the (to, from) pair of the last Repl op, before that op
    pub prev_contact: u64,
    /// C09 monitor: replica r has held slot s in a non-live state (recycled / tombstone) since
    /// the last revive of s anywhere
    pub dead_seen: Vec<[bool; NSLOTS]>,
    /// C09 monitor: a resurrection was observed (text), reported by the next check
    pub resurrections: Vec<String>,
    /// the last convergence attempt ended with replication refused between some pair
    pub partitioned_seen: bool,
    /// replica of the last local write (search order: the OTHER replicas' operations come first,
    /// so that concurrent edits are reached before sequential ones when a time budget cuts the search)
    pub last_writer: Option<usize>,
}

fn mk_entry(slot: usize, name: &str) -> Entry<EntryInit, EntryNew> {
    let mut e: Entry<EntryInit, EntryNew> = Entry::new();
    e.add_ava(Attribute::Class, EntryClass::Object.to_value());
    e.add_ava(Attribute::Uuid, Value::Uuid(slot_uuid(slot)));
    e.add_ava(Attribute::Name, Value::new_iname(name));
    if slot < 2 {
        e.add_ava(Attribute::Class, EntryClass::Account.to_value());
        e.add_ava(Attribute::Class, EntryClass::Person.to_value());
        e.add_ava(Attribute::DisplayName, Value::new_utf8s("init"));
        // an optional attribute that exists from the start, so that "set on one replica, purged on
        // another" is a two-operation race
        if let Some(m) = Value::new_email_address_primary_s("init@mail.example") {
            e.add_ava(Attribute::Mail, m);
        }
    } else {
        e.add_ava(Attribute::Class, EntryClass::Group.to_value());
    }
    e
}

pub fn answer_kind(c: &ReplIncrementalContext) -> &'static str {
    match c {
        ReplIncrementalContext::DomainMismatch => "DomainMismatch",
        ReplIncrementalContext::NoChangesAvailable => "NoChangesAvailable",
        ReplIncrementalContext::RefreshRequired => "RefreshRequired",
        ReplIncrementalContext::UnwillingToSupply => "UnwillingToSupply",
        ReplIncrementalContext::V1 { .. } => "V1",
    }
}

impl Repl {
    pub fn new(cfg: Cfg) -> Repl {
        let n = cfg.replicas;
        let mut srvs = Vec::new();
        for _ in 0..n {
            srvs.push(Srv::new());
        }
        let mut w = Repl {
            srvs,
            now: 100,
            nrepl: 0,
            tainted: false,
            deleted: [false; NSLOTS],
            trimmed_at: vec![None; n],
            last_contact: vec![vec![0; n]; n],
            last_answer: String::new(),
            prev_contact: 0,
            dead_seen: vec![[false; NSLOTS]; n],
            resurrections: Vec::new(),
            partitioned_seen: false,
            last_writer: None,
            cfg,
        };
        // join everyone to replica 0's domain
        for i in 1..n {
            let r = w.refresh(0, i);
            if r != "ok" {
                kv_engine::ctx::machinery_exit(&format!("initial refresh 0->{i}: {r}"));
            }
        }
        let pre = w.cfg.precreate.clone();
        for s in pre {
            let l = w.apply(&Op::Create(0, s, s));
            if l != "ok" {
                kv_engine::ctx::machinery_exit(&format!("precreate {s}: {l}"));
            }
        }
        if !w.cfg.precreate.is_empty() {
            for i in 1..n {
                let l = w.repl(0, i).0;
                if !l.starts_with("ok") {
                    kv_engine::ctx::machinery_exit(&format!("initial repl 0->{i}: {l}"));
                }
            }
            for i in 1..n {
                let _ = w.repl(i, 0);
            }
        }
        let pre_ops = w.cfg.pre_ops.clone();
        for op in pre_ops {
            let l = w.apply(&op);
            if l.starts_with("err") {
                kv_engine::ctx::machinery_exit(&format!("pre-op {op:?}: {l}"));
            }
        }
        w.resurrections.clear();
        w.nrepl = 0;
        w
    }

    fn time(&mut self) -> Duration {
        let t = srv::t(self.now);
        if !self.cfg.same_time {
            self.now += 1;
        }
        t
    }

    /// incremental replication from -> to. Returns (label, supplier answer kind)
    pub fn repl(&mut self, from: usize, to: usize) -> (String, String) {
        self.prev_contact = self.last_contact[to][from];
        let ct = self.time();
        let (a, b) = (&self.srvs[from], &self.srvs[to]);
        let r: Result<(String, ConsumerState), OperationError> = b.rt.block_on(async {
            let mut w = b.qs.write(ct).await?;
            let state = w.consumer_get_state()?;
            if std::env::var("KV_RUV").is_ok() {
                eprintln!("RUV consumer {to}: {state:?}");
                let mut sw = a.qs.write(ct).await?;
                eprintln!("RUV supplier {from}: {:?}", sw.consumer_get_state()?);
            }
            let changes = {
                let mut r = a.qs.read().await?;
                r.supplier_provide_changes(state)?
            };
            let kind = answer_kind(&changes).to_string();
            let cs = w.consumer_apply_changes(changes)?;
            w.commit()?;
            Ok((kind, cs))
        });
        match r {
            Ok((kind, cs)) => {
                if kind == "V1" || kind == "NoChangesAvailable" {
                    self.last_contact[to][from] = self.now;
                }
                (format!("ok:{kind}:{}", match cs { ConsumerState::Ok => "Ok", ConsumerState::RefreshRequired => "RefreshRequired" }), kind)
            }
            Err(e) => (format!("err:{e:?}"), "error".into()),
        }
    }

    pub fn refresh(&mut self, from: usize, to: usize) -> String {
        let ct = self.time();
        let (a, b) = (&self.srvs[from], &self.srvs[to]);
        let r: Result<(), OperationError> = b.rt.block_on(async {
            let mut w = b.qs.write(ct).await?;
            let ctx = {
                let mut r = a.qs.read().await?;
                r.supplier_provide_refresh()?
            };
            w.consumer_apply_refresh(ctx)?;
            w.commit()
        });
        if r.is_ok() {
            self.last_contact[to][from] = self.now;
            // a refresh replaces the consumer's whole state by the supplier's, local changes of
            // the consumer included (that is what the property prescribes for a laggard): the
            // monitors continue from the supplier's knowledge
            self.dead_seen[to] = self.dead_seen[from];
            self.deleted = [false; NSLOTS];
        }
        opstr(&r)
    }

    /// C09 monitor step: called after every operation and after every replication step.
    pub fn observe(&mut self, why: &str) {
        let report = self.cfg.props.contains("C09");
        for r in 0..self.cfg.replicas {
            for s in 0..NSLOTS {
                match self.life(r, s) {
                    Life::Recycled | Life::Tombstone => self.dead_seen[r][s] = true,
                    Life::Live => {
                        if self.dead_seen[r][s] && report {
                            self.resurrections.push(format!("replica {r} held slot {s} as deleted, and after {why} it is live again"));
                            self.dead_seen[r][s] = false;
                        }
                    }
                    Life::Absent => {}
                }
            }
        }
    }

    pub fn slot_entry(&self, r: usize, s: usize) -> Option<SE> {
        self.srvs[r].read(|t| {
            let f = Filter::new(f_eq(Attribute::Uuid, PartialValue::Uuid(slot_uuid(s))));
            t.internal_search(f).ok().and_then(|v| v.into_iter().next())
        })
    }

    pub fn life(&self, r: usize, s: usize) -> Life {
        match self.slot_entry(r, s) {
            None => Life::Absent,
            Some(e) => {
                if e.attribute_equality(Attribute::Class, &EntryClass::Tombstone.into()) {
                    Life::Tombstone
                } else if e.attribute_equality(Attribute::Class, &EntryClass::Recycled.into()) || e.attribute_equality(Attribute::Class, &EntryClass::Conflict.into()) {
                    Life::Recycled
                } else {
                    Life::Live
                }
            }
        }
    }

    /// Full rendering of one replica: every slot entry in any state, every conflict entry, and
    /// every other non-builtin entry that mentions one of our names.
    pub fn dump(&self, r: usize, with_cids: bool) -> String {
        self.srvs[r].read(|t| {
            let mut parts: Vec<String> = Vec::new();
            let mut fs: Vec<FC> = (0..NSLOTS).map(|s| f_eq(Attribute::Uuid, PartialValue::Uuid(slot_uuid(s)))).collect();
            fs.push(f_eq(Attribute::Class, EntryClass::Conflict.into()));
            let f = Filter::new(f_or(fs));
            let ents = t.internal_search(f).unwrap_or_default();
            for e in ents {
                let skip: Vec<Attribute> = if with_cids { vec![] } else { vec![Attribute::LastModifiedCid, Attribute::CreatedAtCid] };
                let is_conflict = e.attribute_equality(Attribute::Class, &EntryClass::Conflict.into());
                let mut s = srv::render_entry(&e, &skip);
                if is_conflict {
                    // a conflict entry gets a server-generated uuid: identify it by its source
                    // uuid and content instead
                    let u = format!("{}", e.get_uuid());
                    s = s.replace(&u, "<conflict-uuid>");
                }
                parts.push(s);
            }
            parts.sort();
            parts.join("\n")
        })
    }

    /// Run replication to quiescence, first round in the given edge order; return Err(text) if it
    /// does not quiesce.
    /// Every directed edge reads its supplier BEFORE any consumer applies anything (replication
    /// runs that overlap in time): all supplier answers are computed from the pre-exchange states,
    /// then all of them are applied.
    fn exchange_all_at_once(&mut self) -> Result<(), String> {
        let n = self.cfg.replicas;
        let mut plans = Vec::new();
        for to in 0..n {
            for from in 0..n {
                if from == to {
                    continue;
                }
                let ct = self.time();
                let (a, b) = (&self.srvs[from], &self.srvs[to]);
                let r: Result<ReplIncrementalContext, OperationError> = b.rt.block_on(async {
                    let state = {
                        let mut w = b.qs.write(ct).await?;
                        w.consumer_get_state()?
                    };
                    let mut r = a.qs.read().await?;
                    r.supplier_provide_changes(state)
                });
                match r {
                    Ok(c) => plans.push((from, to, c)),
                    Err(e) => return Err(format!("overlapping exchange: supplier {from} for {to}: {e:?}")),
                }
            }
        }
        for (from, to, changes) in plans {
            let ct = self.time();
            let kind = answer_kind(&changes);
            if kind != "V1" {
                continue;
            }
            let b = &self.srvs[to];
            let r: Result<(), OperationError> = b.rt.block_on(async {
                let mut w = b.qs.write(ct).await?;
                w.consumer_apply_changes(changes)?;
                w.commit()
            });
            if let Err(e) = r {
                return Err(format!("overlapping exchange: apply {from}->{to}: {e:?}"));
            }
            self.observe(&format!("overlapping replication {from}->{to}"));
        }
        Ok(())
    }

    fn converge(&mut self, order: &[(usize, usize)]) -> Result<bool, String> {
        // an order that starts with the marker edge begins with one overlapping exchange
        let order: &[(usize, usize)] = if order.first() == Some(&(usize::MAX, usize::MAX)) {
            self.exchange_all_at_once()?;
            &order[1..]
        } else {
            order
        };
        for round in 0..8 {
            let mut any = false;
            let mut refused = false;
            for (from, to) in order {
                let (label, kind) = self.repl(*from, *to);
                self.observe(&format!("replication {from}->{to}"));
                if std::env::var("KV_DEBUG").is_ok() {
                    eprintln!("converge round {round}: {from}->{to}: {label}");
                    for r in 0..self.cfg.replicas {
                        eprintln!("   R{r}: {}", self.dump(r, true).replace('\n', "\n       "));
                    }
                }
                match kind.as_str() {
                    "V1" => any = true,
                    "NoChangesAvailable" => {}
                    "RefreshRequired" => {
                        // "including via refresh"
                        let l = self.refresh(*from, *to);
                        if l != "ok" {
                            return Err(format!("refresh {from}->{to} failed: {l}"));
                        }
                        any = true;
                    }
                    "UnwillingToSupply" => {
                        // the consumer is ahead of this supplier (the other direction will move
                        // first), or the two have lost their common history and an administrator
                        // has to refresh one of them
                        refused = true;
                    }
                    _ => return Err(format!("replication {from}->{to} failed in round {round}: {label}")),
                }
            }
            if !any {
                return Ok(refused);
            }
        }
        Err("replication did not quiesce within 8 full rounds".into())
    }

    fn edge_orders(&self) -> Vec<Vec<(usize, usize)>> {
        let n = self.cfg.replicas;
        let m = (usize::MAX, usize::MAX);
        if n == 2 {
            vec![vec![(0, 1), (1, 0)], vec![(1, 0), (0, 1)], vec![m, (0, 1), (1, 0)]]
        } else if self.cfg.same_time {
            vec![vec![(0, 1), (1, 2), (2, 1), (1, 0), (0, 2), (2, 0)], vec![m, (0, 1), (1, 2), (2, 0), (1, 0), (2, 1), (0, 2)]]
        } else {
            // chain both ways, star in/out of each hub, ring both ways
            vec![
                vec![(0, 1), (1, 2), (2, 1), (1, 0), (0, 2), (2, 0)],
                vec![(2, 1), (1, 0), (0, 1), (1, 2), (2, 0), (0, 2)],
                vec![(1, 0), (2, 0), (0, 1), (0, 2), (1, 2), (2, 1)],
                vec![(0, 1), (0, 2), (1, 0), (2, 0), (2, 1), (1, 2)],
                vec![(0, 1), (1, 2), (2, 0), (1, 0), (2, 1), (0, 2)],
                vec![(0, 2), (2, 1), (1, 0), (2, 0), (1, 2), (0, 1)],
                vec![m, (0, 1), (1, 2), (2, 0), (1, 0), (2, 1), (0, 2)],
            ]
        }
    }

    /// C08 / C19 / C09 at quiescence: evaluated in forked copies of this state, one per order.
    fn check_convergence(&mut self, out: &mut Vec<(String, String)>) {
        let orders = self.edge_orders();
        let n = self.cfg.replicas;
        let want_c19 = self.cfg.props.contains("C19");
        let want_c09 = self.cfg.props.contains("C09");
        let want_c08 = self.cfg.props.contains("C08");
        let want_c15 = self.cfg.props.contains("C15");

        for (oi, order) in orders.iter().enumerate() {
            let this: &mut Repl = self;
            let res = fork_eval(|| {
                let mut msgs: Vec<String> = Vec::new();
                let partitioned = match this.converge(order) {
                    Ok(p) => p,
                    Err(e) => return format!("not_quiescent\u{2}{e}"),
                };
                if partitioned {
                    // replication is refused for good between some pair: nothing is claimed about
                    // convergence (the property demands a refresh), but nothing may be resurrected
                    let r: Vec<String> = this.resurrections.iter().map(|t| format!("resurrected\u{2}{t}")).collect();
                    return if r.is_empty() { "\u{4}partitioned".to_string() } else { r.join("\u{3}") };
                }
                for t in &this.resurrections {
                    msgs.push(format!("resurrected\u{2}{t}"));
                }
                let dumps: Vec<String> = (0..n).map(|r| this.dump(r, true)).collect();
                if want_c08 {
                    for r in 1..n {
                        if dumps[r] != dumps[0] {
                            if std::env::var("KV_DUMPS").is_ok() {
                                eprintln!("--- replica 0\n{}\n--- replica {r}\n{}", dumps[0].replace(';', "\n    "), dumps[r].replace(';', "\n    "));
                            }
                            for (k, what) in diff_dumps(&dumps[0], &dumps[r]) {
                                msgs.push(format!("diverged:{k}\u{2}replica 0 and replica {r} differ after quiescence: {what}"));
                            }
                            break;
                        }
                    }
                }
                if want_c19 {
                    for r in 0..n {
                        let mut seen: BTreeMap<String, usize> = BTreeMap::new();
                        for s in 0..NSLOTS {
                            if this.life(r, s) == Life::Live {
                                if let Some(e) = this.slot_entry(r, s) {
                                    for attr in [Attribute::Name, Attribute::Spn] {
                                        for v in e.get_ava_set(&attr).map(|v| v.to_proto_string_clone_iter().collect::<Vec<_>>()).unwrap_or_default() {
                                            if let Some(o) = seen.insert(format!("{}={v}", attr.as_str()), s) {
                                                msgs.push(format!("duplicate_after_quiescence\u{2}replica {r}: live slots {o} and {s} share {}={v}", attr.as_str()));
                                            }
                                        }
                                    }
                                }
                            }
                        }
                    }
                }
                if want_c09 {
                    for s in 0..NSLOTS {
                        if this.deleted[s] {
                            for r in 0..n {
                                if this.life(r, s) == Life::Live {
                                    msgs.push(format!("resurrected\u{2}slot {s} was deleted but is live on replica {r} after quiescence"));
                                }
                            }
                        }
                    }
                }
                if want_c15 {
                    for r in 0..n {
                        for s in 0..NSLOTS {
                            if this.life(r, s) == Life::Live {
                                if let Some(e) = this.slot_entry(r, s) {
                                    let found: Vec<(String, String)> = this.srvs[r].read(|t| crate::worlds::schemaw::SchemaW::check_entry(t.get_schema(), &e));
                                    for (k, w) in found {
                                        msgs.push(format!("schema_invalid_after_merge:{k}\u{2}replica {r} after quiescence: {w}"));
                                    }
                                }
                            }
                        }
                    }
                }
                // derived attributes must agree with what they are derived from on every replica
                for r in 0..n {
                    let dom = this.srvs[r].read(|t| t.get_domain_name().to_string());
                    for s in 0..NSLOTS {
                        if this.life(r, s) == Life::Live {
                            if let Some(e) = this.slot_entry(r, s) {
                                let name = e.get_ava_set(Attribute::Name).and_then(|v| v.to_proto_string_clone_iter().next()).unwrap_or_default();
                                let spn: Vec<String> = e.get_ava_set(Attribute::Spn).map(|v| v.to_proto_string_clone_iter().collect()).unwrap_or_default();
                                if spn != vec![format!("{name}@{dom}")] {
                                    msgs.push(format!("spn_mismatch_after_replication\u{2}replica {r} slot {s}: name {name:?} but spn {spn:?} after quiescence"));
                                }
                            }
                        }
                    }
                }
                if !msgs.is_empty() {
                    return msgs.join("\u{3}");
                }
                // the server's own consistency check on every replica
                for r in 0..n {
                    let v: Vec<String> = this.srvs[r].read(|t| qs_read_verify(t).into_iter().filter_map(|x| x.err()).map(|e| format!("{e:?}")).collect());
                    if !v.is_empty() {
                        msgs.push(format!("verify_failed\u{2}replica {r} fails its consistency check after quiescence: {v:?}"));
                    }
                }
                msgs.join("\u{3}")
            });
            match res {
                Ok(s) if s.is_empty() => {}
                Ok(s) if s == "\u{4}partitioned" => {
                    self.partitioned_seen = true;
                }
                Ok(s) => {
                    for m in s.split('\u{3}') {
                        let (k, what) = m.split_once('\u{2}').unwrap_or(("?", m));
                        out.push((k.to_string(), format!("[first-round order #{oi} {order:?}] {what}")));
                    }
                    return;
                }
                Err(e) => {
                    out.push(("machinery:converge".into(), e));
                    return;
                }
            }
        }
    }

    pub fn canon_string(&mut self) -> String {
        let n = self.cfg.replicas;
        let mut parts = Vec::new();
        for r in 0..n {
            parts.push(format!("R{r}:{}", self.dump(r, false)));
            // which attribute was changed last where matters for merges: relative order of the
            // change cids across replicas, rendered as ranks
        }
        // relative order of all last-modified cids across replicas (merge decisions depend on it)
        let mut cids: Vec<(String, usize, usize)> = Vec::new();
        for r in 0..n {
            for s in 0..NSLOTS {
                if let Some(e) = self.slot_entry(r, s) {
                    for (attr, cid) in changes_of(&e) {
                        cids.push((format!("{cid}"), r * 100 + s, attr));
                    }
                }
            }
        }
        let mut uniq: Vec<String> = cids.iter().map(|c| c.0.clone()).collect();
        uniq.sort();
        uniq.dedup();
        let mut ranks: Vec<String> = cids.iter().map(|(c, who, attr)| format!("{who}.{attr}={}", uniq.iter().position(|u| u == c).unwrap_or(0))).collect();
        ranks.sort();
        parts.push(ranks.join(","));
        parts.push(format!("nrepl={}", self.nrepl));
        // pending-ness: does each edge still have something to send? (captured by dumps + ranks)
        parts.push(format!("dead={:?}", self.dead_seen));
        // lagging classes: is consumer `to` out of contact with `from` for longer than the window
        // before from's last trim?
        let lag: Vec<Vec<bool>> = (0..n).map(|to| (0..n).map(|from| self.trimmed_at[from].map(|t| self.last_contact[to][from] + CHANGELOG_MAX_AGE < t).unwrap_or(false)).collect()).collect();
        parts.push(format!("lag={lag:?}"));
        parts.push(format!("del={:?} trim={:?}", self.deleted, self.trimmed_at.iter().map(|t| t.is_some()).collect::<Vec<_>>()));
        parts.join("\n")
    }
}

/// (attribute index, cid string) for each attribute change id of an entry, from the
/// last_modified_cid ... we use the Debug rendering of the change state.
fn changes_of(e: &SE) -> Vec<(usize, String)> {
    let s = format!("{:?}", e.get_changestate());
    // Debug output contains `attr: cid` pairs; we only need a stable multiset of cids
    let mut out = Vec::new();
    let mut idx = 0;
    for tok in s.split(|c: char| !(c.is_ascii_hexdigit() || c == '-')) {
        // a cid renders as 32 digits '-' uuid
        if tok.len() > 40 && tok.as_bytes().get(32) == Some(&b'-') {
            out.push((idx, tok.to_string()));
            idx += 1;
        }
    }
    out
}

/// Compare two replica dumps entry by entry. Entries are identified by uuid (conflict entries,
/// whose uuid is generated, by their source uuid and rank among the conflicts of that source).
/// Returns one `(kind:attr, text)` per differing attribute; kind is live / recycled / tombstone /
/// conflict / missing-entry.
fn diff_dumps(a: &str, b: &str) -> Vec<(String, String)> {
    type Ent = BTreeMap<String, String>;
    let parse = |d: &str| -> BTreeMap<String, Ent> {
        let mut out: BTreeMap<String, Ent> = BTreeMap::new();
        let mut lines: Vec<&str> = d.lines().collect();
        lines.sort();
        for l in lines {
            let m: Ent = l.split(';').filter_map(|kv| kv.split_once('=')).map(|(k, v)| (k.to_string(), v.to_string())).collect();
            let class = m.get("class").cloned().unwrap_or_default();
            let classes: Vec<&str> = class.split('|').collect();
            let base = if classes.contains(&"conflict") {
                format!("conflict:{}", m.get("source_uuid").or(m.get("uuid")).cloned().unwrap_or_default())
            } else if classes.contains(&"tombstone") {
                format!("tombstone:{}", m.get("uuid").cloned().unwrap_or_default())
            } else if classes.contains(&"recycled") {
                format!("recycled:{}", m.get("uuid").cloned().unwrap_or_default())
            } else {
                format!("live:{}", m.get("uuid").cloned().unwrap_or_default())
            };
            let mut k = 0;
            while out.contains_key(&format!("{base}#{k}")) {
                k += 1;
            }
            out.insert(format!("{base}#{k}"), m);
        }
        out
    };
    let (ma, mb) = (parse(a), parse(b));
    let mut res = Vec::new();
    let keys: BTreeSet<&String> = ma.keys().chain(mb.keys()).collect();
    let cut = |o: Option<&String>| o.map(|v| v.chars().take(160).collect::<String>()).unwrap_or_else(|| "<absent>".into());
    for k in keys {
        let kind = k.split(':').next().unwrap_or("?");
        match (ma.get(k), mb.get(k)) {
            (Some(x), Some(y)) => {
                let attrs: BTreeSet<&String> = x.keys().chain(y.keys()).collect();
                for at in attrs {
                    if x.get(at) != y.get(at) {
                        res.push((format!("{kind}:{at}"), format!("{k}: {at} = `{}` vs `{}`", cut(x.get(at)), cut(y.get(at)))));
                    }
                }
            }
            _ => res.push((format!("{kind}:entry_missing"), format!("{k} exists on only one of the replicas (present on first: {})", ma.contains_key(k)))),
        }
    }
    if res.is_empty() {
        res.push(("unclassified".into(), "dumps differ but no per-entry difference was found".into()));
    }
    res
}

impl Repl {
    fn apply_inner(&mut self, op: &Op) -> String {
        self.last_answer.clear();
        match op {
            Op::Repl(from, to) => {
                self.nrepl += 1;
                let (l, k) = self.repl(*from, *to);
                self.last_answer = k;
                return l;
            }
            Op::Refresh(from, to) => {
                self.nrepl += 1;
                return self.refresh(*from, *to);
            }
            Op::AgeRecycle(_) => {
                self.now += RECYCLEBIN_MAX_AGE + 1;
                let mut labels = Vec::new();
                for r in 0..self.cfg.replicas {
                    let ct = self.time();
                    labels.push(opstr(&self.srvs[r].write(ct, |w| w.purge_recycled().map(|_| ()))));
                }
                return labels.join(",");
            }
            Op::AgeChangelog(r) => {
                self.now += CHANGELOG_MAX_AGE + 1;
                let ct = self.time();
                self.trimmed_at[*r] = Some(self.now);
                return opstr(&self.srvs[*r].write(ct, |w| w.purge_tombstones().map(|_| ())));
            }
            _ => {}
        }
        let ct = self.time();
        let r: Result<(), OperationError> = match op {
            Op::Create(r, s, n) => self.srvs[*r].write(ct, |w| w.internal_create(vec![mk_entry(*s, NAMES[*n])])),
            Op::Rename(r, s, n) => self.srvs[*r].write(ct, |w| w.internal_modify_uuid(slot_uuid(*s), &ModifyList::new_purge_and_set(Attribute::Name, Value::new_iname(NAMES[*n])))),
            Op::SetDisp(r, s, v) => self.srvs[*r].write(ct, |w| w.internal_modify_uuid(slot_uuid(*s), &ModifyList::new_purge_and_set(Attribute::DisplayName, Value::new_utf8s(["x", "y"][*v])))),
            Op::SetMail(r, s) => self.srvs[*r].write(ct, |w| {
                let v = Value::new_email_address_primary_s(&format!("m{r}@mail.example")).unwrap_or_else(|| Value::new_utf8s("x"));
                w.internal_modify_uuid(slot_uuid(*s), &ModifyList::new_purge_and_set(Attribute::Mail, v))
            }),
            Op::PurgeMail(r, s) => self.srvs[*r].write(ct, |w| w.internal_modify_uuid(slot_uuid(*s), &ModifyList::new_list(vec![Modify::Purged(Attribute::Mail)]))),
            Op::Delete(r, s) => {
                let x = self.srvs[*r].write(ct, |w| w.internal_delete_uuid(slot_uuid(*s)));
                if x.is_ok() {
                    self.deleted[*s] = true;
                }
                x
            }
            Op::Revive(r, s) => {
                let x = self.srvs[*r].write(ct, |w| {
                    let f = Filter::new_recycled(f_eq(Attribute::Uuid, PartialValue::Uuid(slot_uuid(*s))))
                        .validate(w.get_schema())
                        .map_err(OperationError::SchemaViolation)?;
                    w.revive_recycled(&ReviveRecycledEvent { ident: identity_internal(), filter: f })
                });
                if x.is_ok() {
                    self.deleted[*s] = false;
                }
                x
            }
            Op::AddMember(r, s) => self.srvs[*r].write(ct, |w| w.internal_modify_uuid(slot_uuid(2), &ModifyList::new_list(vec![Modify::Present(Attribute::Member, Value::Refer(slot_uuid(*s)))]))),
            Op::RemMember(r, s) => self.srvs[*r].write(ct, |w| w.internal_modify_uuid(slot_uuid(2), &ModifyList::new_list(vec![Modify::Removed(Attribute::Member, PartialValue::Refer(slot_uuid(*s)))]))),
            Op::PosixOn(r) => self.srvs[*r].write(ct, |w| w.internal_modify_uuid(slot_uuid(2), &ModifyList::new_list(vec![Modify::Present(Attribute::Class, EntryClass::PosixGroup.to_value())]))),
            Op::PosixOff(r) => self.srvs[*r].write(ct, |w| w.internal_modify_uuid(slot_uuid(2), &ModifyList::new_list(vec![Modify::Removed(Attribute::Class, EntryClass::PosixGroup.into()), Modify::Purged(Attribute::GidNumber)]))),
            Op::TouchClass(r) => self.srvs[*r].write(ct, |w| w.internal_modify_uuid(slot_uuid(2), &ModifyList::new_list(vec![Modify::Present(Attribute::Class, EntryClass::ExtensibleObject.to_value())]))),
            _ => Ok(()),
        };
        opstr(&r)
    }
}

impl World for Repl {
    type Op = Op;

    fn ops(&mut self) -> Vec<Op> {
        if self.tainted {
            return Vec::new();
        }
        let n = self.cfg.replicas;
        let slots = self.cfg.slots.clone();
        let mut v = Vec::new();
        let order: Vec<usize> = match self.last_writer {
            Some(l) => (0..n).filter(|r| *r != l).chain(std::iter::once(l)).collect(),
            None => (0..n).collect(),
        };
        for r in order {
            for &s in &slots {
                let life = self.life(r, s);
                match life {
                    Life::Absent => {
                        // a replica that has never held the entry as deleted may create it (again):
                        // the same uuid created after a deletion elsewhere is a legal history
                        if !self.dead_seen[r][s] {
                            for nm in 0..self.cfg.names {
                                if self.cfg.small && nm > 0 {
                                    continue;
                                }
                                v.push(Op::Create(r, s, nm));
                            }
                        }
                    }
                    Life::Live => {
                        if self.cfg.rename {
                            for nm in 0..self.cfg.names {
                                if self.cfg.small && nm != 1 {
                                    continue;
                                }
                                v.push(Op::Rename(r, s, nm));
                            }
                        }
                        if self.cfg.disp && s < 2 {
                            v.push(Op::SetDisp(r, s, 0));
                            if !self.cfg.small {
                                v.push(Op::SetDisp(r, s, 1));
                            }
                            v.push(Op::SetMail(r, s));
                            v.push(Op::PurgeMail(r, s));
                        }
                        if self.cfg.class_edits && s == 2 {
                            let posix = self.slot_entry(r, 2).map(|g| g.attribute_equality(Attribute::Class, &EntryClass::PosixGroup.into())).unwrap_or(false);
                            v.push(if posix { Op::PosixOff(r) } else { Op::PosixOn(r) });
                            v.push(Op::TouchClass(r));
                        }
                        if self.cfg.lifecycle {
                            v.push(Op::Delete(r, s));
                        }
                        if self.cfg.members && s != 2 && self.life(r, 2) == Life::Live {
                            let is_m = self.slot_entry(r, 2).map(|g| g.attribute_equality(Attribute::Member, &PartialValue::Refer(slot_uuid(s)))).unwrap_or(false);
                            v.push(if is_m { Op::RemMember(r, s) } else { Op::AddMember(r, s) });
                        }
                    }
                    Life::Recycled => {
                        if self.cfg.revive {
                            v.push(Op::Revive(r, s));
                        }
                    }
                    Life::Tombstone => {}
                }
            }
        }
        if self.nrepl < self.cfg.max_repl {
            for from in 0..n {
                for to in 0..n {
                    if from != to {
                        v.push(Op::Repl(from, to));
                        if self.cfg.refresh {
                            v.push(Op::Refresh(from, to));
                        }
                    }
                }
            }
        }
        if self.cfg.aging {
            v.push(Op::AgeRecycle(0));
            for r in 0..n {
                v.push(Op::AgeChangelog(r));
            }
        }
        v
    }

    fn apply(&mut self, op: &Op) -> String {
        let l = self.apply_inner(op);
        match op {
            Op::Create(r, ..) | Op::Rename(r, ..) | Op::SetDisp(r, ..) | Op::SetMail(r, ..) | Op::PurgeMail(r, ..) | Op::Delete(r, ..) | Op::Revive(r, ..) | Op::AddMember(r, ..) | Op::RemMember(r, ..) | Op::PosixOn(r) | Op::PosixOff(r) | Op::TouchClass(r) => self.last_writer = Some(*r),
            _ => {}
        }
        if let (Op::Revive(_, s), "ok") = (op, l.as_str()) {
            for d in self.dead_seen.iter_mut() {
                d[*s] = false;
            }
        }
        self.observe(&format!("{op:?}"));
        l
    }

    fn check(&mut self, last: Option<(&Op, &str)>) -> Vec<(String, String)> {
        let mut out = Vec::new();
        for t in std::mem::take(&mut self.resurrections) {
            out.push(("resurrected".to_string(), t));
        }
        // C15: after every step, each live entry of each replica conforms to the schema in force
        if self.cfg.props.contains("C15") {
            for r in 0..self.cfg.replicas {
                for s in 0..NSLOTS {
                    if self.life(r, s) == Life::Live {
                        if let Some(e) = self.slot_entry(r, s) {
                            let found: Vec<(String, String)> = self.srvs[r].read(|t| crate::worlds::schemaw::SchemaW::check_entry(t.get_schema(), &e));
                            for (k, w) in found {
                                out.push((format!("schema_invalid_after_merge:{k}"), format!("replica {r}: {w}")));
                            }
                        }
                    }
                }
            }
        }
        // C09: a replica that has been out of contact for longer than the changelog window, talking
        // to a supplier that has trimmed since, must not be supplied incrementally
        if self.cfg.props.contains("C09") {
            if let Some((Op::Repl(from, to), _)) = last {
                if let Some(t) = self.trimmed_at[*from] {
                    let _ = to;
                    let last_c = self.prev_contact;
                    if last_c + CHANGELOG_MAX_AGE < t && self.last_answer == "V1" {
                        out.push(("lagging_consumer_supplied".into(), format!("replica {to} last heard from {from} at t={last_c}; {from} trimmed its changelog at t={t} (> window later) yet supplied an incremental update")));
                    }
                }
            }
            // local: a deleted slot is never live again on any replica that holds the deletion
            for s in 0..NSLOTS {
                if self.deleted[s] {
                    for r in 0..self.cfg.replicas {
                        let _ = r;
                    }
                }
            }
        }
        if !out.is_empty() {
            self.tainted = true;
        }
        out
    }

    fn check_state(&mut self) -> Vec<(String, String)> {
        let mut out = Vec::new();
        self.check_convergence(&mut out);
        if !out.is_empty() {
            self.tainted = true;
        }
        out
    }

    fn canon(&mut self) -> u64 {
        let mut h = Fnv::new();
        h.write_str(&self.canon_string());
        h.finish()
    }
}

