//! DIR world: a small directory (2 people, 2 groups, 1 service account) on one real server,
//! driven by create / rename / mail / delete / revive / purge / time-jump / reindex /
//! clear-cache / membership / domain-rename operations. Several properties evaluate their own
//! invariant on every reachable state of this world.

use crate::srv::{self, opstr, Srv};
use kanidmd_lib::entry::{Entry, EntryCommitted, EntryInit, EntryNew, EntrySealed};
use kanidmd_lib::event::ReviveRecycledEvent;
use kanidmd_lib::prelude::*;
use kanidmd_lib::verif_hooks::{identity_internal, qs_read_verify};
use kv_engine::forkdfs::{fork_eval, World};
use kv_engine::Fnv;
use serde::{Deserialize, Serialize};
use std::collections::{BTreeMap, BTreeSet};
use std::sync::Arc;

pub type SE = Arc<Entry<EntrySealed, EntryCommitted>>;

pub const NSLOTS: usize = 5;
pub const KIND: [&str; NSLOTS] = ["person", "person", "group", "group", "service"];
pub const NAMES: [&str; 5] = ["a", "b", "c", "d", "e"];
pub const DOMAINS: [&str; 3] = ["example.com", "d1.example", "d2.example"];
pub const EXTIDS: [&str; 2] = ["uid=x0,ou=src", "uid=x1,ou=src"];

pub fn slot_uuid(s: usize) -> Uuid {
    Uuid::from_u128(0xd1d1_0000_0000_4000_8000_0000_0000_0010 + s as u128)
}

#[derive(Clone, Debug, Serialize, Deserialize, PartialEq, Eq)]
pub enum Op {
    Create(usize, usize),
    Rename(usize, usize),
    SetMail(usize, usize),
    Delete(usize),
    Revive(usize),
    AddMember(usize, usize),
    RemMember(usize, usize),
    DomainRename(usize),
    AdvRecycle,
    PurgeRecycled,
    AdvChangelog,
    PurgeTombstones,
    Reindex,
    ClearCache,
    /// set the synchronisation external id of a slot to one of two values
    SetExtId(usize, usize),
    /// revive every recycled slot with ONE revive request
    ReviveAll,
}

#[derive(Clone, Debug, Default)]
pub struct Cfg {
    pub slots: Vec<usize>,
    pub names: usize,
    pub mail: bool,
    pub members: bool,
    pub domain_rename: bool,
    pub lifecycle: bool,
    pub purge: bool,
    pub maint: bool,
    /// slots created (with their fixed names) before the search starts, and memberships
    pub precreate: Vec<usize>,
    pub premembers: Vec<(usize, usize)>,
    pub props: BTreeSet<&'static str>,
    /// external-id edits (C03) on service-account slots
    pub extid: bool,
    /// offer one revive request covering all recycled slots (C26)
    pub revive_all: bool,
}

#[derive(Clone, Copy, Debug, PartialEq, Eq)]
pub enum Life {
    Absent,
    Live,
    Recycled,
    Tombstone,
}

pub struct Dir {
    pub srv: Srv,
    pub now: u64,
    pub last_maint: u8,
    pub cfg: Cfg,
    /// history variables for the lifecycle property (C26): per slot the time it was deleted, the
    /// groups it was a direct member of at that moment
    pub deleted_at: [Option<u64>; NSLOTS],
    pub tomb_at: [Option<u64>; NSLOTS],
    pub dmo_at_delete: [Vec<usize>; NSLOTS],
    /// lifecycle states just before the last operation
    pub before: [Life; NSLOTS],
    /// an invariant was violated in this state: it is reported once and not expanded further
    /// (everything below it would only restate the same violation)
    pub tainted: bool,
}

fn mk_entry(slot: usize, name: &str) -> Entry<EntryInit, EntryNew> {
    let mut e: Entry<EntryInit, EntryNew> = Entry::new();
    e.add_ava(Attribute::Class, EntryClass::Object.to_value());
    e.add_ava(Attribute::Uuid, Value::Uuid(slot_uuid(slot)));
    e.add_ava(Attribute::Name, Value::new_iname(name));
    match KIND[slot] {
        "person" => {
            e.add_ava(Attribute::Class, EntryClass::Account.to_value());
            e.add_ava(Attribute::Class, EntryClass::Person.to_value());
            e.add_ava(Attribute::DisplayName, Value::new_utf8s(&format!("P {slot}")));
        }
        "group" => {
            e.add_ava(Attribute::Class, EntryClass::Group.to_value());
        }
        _ => {
            e.add_ava(Attribute::Class, EntryClass::Account.to_value());
            e.add_ava(Attribute::Class, EntryClass::ServiceAccount.to_value());
            e.add_ava(Attribute::Class, EntryClass::ExtensibleObject.to_value());
            e.add_ava(Attribute::DisplayName, Value::new_utf8s(&format!("S {slot}")));
        }
    }
    e
}

impl Dir {
    pub fn new(cfg: Cfg) -> Dir {
        let mut d = Self::new_empty(cfg);
        let pre = d.cfg.precreate.clone();
        for s in pre {
            let l = d.apply(&Op::Create(s, s));
            if l != "ok" {
                kv_engine::ctx::machinery_exit(&format!("precreate slot {s}: {l}"));
            }
        }
        let pm = d.cfg.premembers.clone();
        for (g, m) in pm {
            let l = d.apply(&Op::AddMember(g, m));
            if l != "ok" {
                kv_engine::ctx::machinery_exit(&format!("premember {g} {m}: {l}"));
            }
        }
        d
    }

    fn new_empty(cfg: Cfg) -> Dir {
        Dir {
            srv: Srv::new(),
            now: 100,
            last_maint: 0,
            cfg,
            deleted_at: Default::default(),
            tomb_at: Default::default(),
            dmo_at_delete: Default::default(),
            before: [Life::Absent; NSLOTS],
            tainted: false,
        }
    }

    /// every stored entry of our slots, in any lifecycle state
    pub fn slot_entries(&self) -> Vec<(usize, SE)> {
        self.srv.read(|r| {
            let mut out = Vec::new();
            for s in 0..NSLOTS {
                let f = Filter::new(f_eq(Attribute::Uuid, PartialValue::Uuid(slot_uuid(s))));
                if let Ok(v) = r.internal_search(f) {
                    for e in v {
                        out.push((s, e));
                    }
                }
            }
            out
        })
    }

    pub fn life_of(e: &SE) -> Life {
        if e.attribute_equality(Attribute::Class, &EntryClass::Tombstone.into()) {
            Life::Tombstone
        } else if e.attribute_equality(Attribute::Class, &EntryClass::Recycled.into()) {
            Life::Recycled
        } else {
            Life::Live
        }
    }

    pub fn lives(&self) -> [Life; NSLOTS] {
        let mut l = [Life::Absent; NSLOTS];
        for (s, e) in self.slot_entries() {
            l[s] = Self::life_of(&e);
        }
        l
    }

    pub fn domain(&self) -> String {
        self.srv.read(|r| r.get_domain_name().to_string())
    }

    fn name_of(e: &SE) -> Option<String> {
        e.get_ava_set(Attribute::Name).and_then(|v| v.to_proto_string_clone_iter().next())
    }

    /// dump of every index table and of the name lookups over the world's name alphabet
    pub fn index_dump(&self) -> String {
        self.srv.read(|r| {
            let mut out = String::new();
            let be = r.get_be_txn();
            let mut names = be.list_indexes().unwrap_or_default();
            names.sort();
            for n in names {
                let mut rows: Vec<String> = Vec::new();
                if let Ok(content) = be.list_index_content(&n) {
                    for (k, idl) in content {
                        let ids: Vec<u64> = (&idl).into_iter().collect();
                        if !ids.is_empty() {
                            rows.push(format!("{k}={ids:?}"));
                        }
                    }
                }
                rows.sort();
                out.push_str(&format!("{n}:{}\n", rows.join(",")));
            }
            // lookups
            let mut alphabet: Vec<String> = Vec::new();
            for n in NAMES {
                alphabet.push(n.to_string());
                for d in DOMAINS {
                    alphabet.push(format!("{n}@{d}"));
                }
            }
            for n in &alphabet {
                out.push_str(&format!("n2u {n} -> {:?}\n", r.name_to_uuid(n).ok()));
            }
            for x in EXTIDS {
                out.push_str(&format!("x2u {x} -> {:?}\n", r.sync_external_id_to_uuid(x).ok().flatten()));
            }
            for s in 0..NSLOTS {
                let u = slot_uuid(s);
                out.push_str(&format!("u2s {s} -> {:?}\n", r.uuid_to_spn(u).ok().flatten().map(|v| match v { Value::Spn(n, d) => format!("{n}@{d}"), other => format!("{other:?}") })));
                out.push_str(&format!("u2r {s} -> {:?}\n", r.uuid_to_rdn(u).ok()));
            }
            out
        })
    }

    fn first_diff(a: &str, b: &str) -> String {
        for (x, y) in a.lines().zip(b.lines()) {
            if x != y {
                let cut = |s: &str| s.chars().take(300).collect::<String>();
                return format!("`{}` vs `{}`", cut(x), cut(y));
            }
        }
        format!("line counts {} vs {}", a.lines().count(), b.lines().count())
    }

    // ------------------------------------------------------------------ invariants

    fn check_c03(&mut self, out: &mut Vec<(String, String)>) {
        let warm = self.index_dump();
        // server's own consistency check
        let v: Vec<String> = self.srv.read(|r| qs_read_verify(r).into_iter().filter_map(|x| x.err()).map(|e| format!("{e:?}")).collect());
        if !v.is_empty() {
            out.push(("verify_failed".into(), format!("the server's own consistency check reports {v:?}")));
        }
        // truth from a scan of the live entries
        let dom = self.domain();
        let ents = self.slot_entries();
        let truth: BTreeMap<String, usize> = {
            let mut m = BTreeMap::new();
            for (s, e) in &ents {
                if Self::life_of(e) == Life::Live {
                    if let Some(n) = Self::name_of(e) {
                        m.insert(n.clone(), *s);
                        m.insert(format!("{n}@{dom}"), *s);
                    }
                }
            }
            m
        };
        for line in warm.lines() {
            if let Some(rest) = line.strip_prefix("n2u ") {
                let (n, got) = rest.split_once(" -> ").unwrap_or(("", ""));
                let want = truth.get(n).map(|s| format!("Some({})", slot_uuid(*s))).unwrap_or_else(|| "None".into());
                if got != want {
                    out.push(("name2uuid_wrong".into(), format!("name_to_uuid({n}) = {got}, a scan of live entries says {want}")));
                }
            }
            if let Some(rest) = line.strip_prefix("x2u ") {
                let (x, got) = rest.split_once(" -> ").unwrap_or(("", ""));
                // truth: the live entry (if any) that carries this external id
                let owner = ents.iter().find(|(_, e)| Self::life_of(e) == Life::Live && e.get_ava_set(Attribute::SyncExternalId).map(|v| v.to_proto_string_clone_iter().any(|s| s == x)).unwrap_or(false)).map(|(s, _)| *s);
                let want = owner.map(|s| format!("Some({})", slot_uuid(s))).unwrap_or_else(|| "None".into());
                if got != want {
                    out.push(("externalid2uuid_wrong".into(), format!("sync_external_id_to_uuid({x}) = {got}, a scan of live entries says {want}")));
                }
            }
            if let Some(rest) = line.strip_prefix("u2s ") {
                let (s, got) = rest.split_once(" -> ").unwrap_or(("", ""));
                let s: usize = s.parse().unwrap_or(0);
                let want = ents
                    .iter()
                    .find(|(x, e)| *x == s && Self::life_of(e) == Life::Live)
                    .and_then(|(_, e)| e.get_ava_set(Attribute::Spn).and_then(|v| v.to_proto_string_clone_iter().next()))
                    .map(|v| format!("Some({v:?})"))
                    .unwrap_or_else(|| "None".into());
                if got != want {
                    out.push(("uuid2spn_wrong".into(), format!("uuid_to_spn(slot {s}) = {got}, the stored live entry says {want}")));
                }
            }
        }
        // cold cache must give the same tables and lookups; a full reindex of the same entries
        // must give the same tables and lookups
        let srv = &self.srv;
        let now = self.now;
        let this: &Dir = self;
        let cold = fork_eval(|| {
            let _ = srv.write(srv::t(now), |w| w.clear_cache());
            this.index_dump()
        });
        match cold {
            Ok(c) if c == warm => {}
            Ok(c) => out.push(("cold_cache_differs".into(), format!("index tables / lookups differ between warm cache and cold cache: {}", Self::first_diff(&warm, &c)))),
            Err(e) => out.push(("machinery:cold".into(), e)),
        }
        let re = fork_eval(|| {
            let _ = srv.write(srv::t(now), |w| w.reindex(true));
            this.index_dump()
        });
        match re {
            Ok(c) if c == warm => {}
            Ok(c) => out.push(("reindex_differs".into(), format!("index tables / lookups differ from what a full reindex of the same entries produces: {}", Self::first_diff(&warm, &c)))),
            Err(e) => out.push(("machinery:reindex".into(), e)),
        }
    }

    fn check_c22(&mut self, out: &mut Vec<(String, String)>) {
        let dom = self.domain();
        for (s, e) in self.slot_entries() {
            if Self::life_of(&e) != Life::Live {
                continue;
            }
            let name = Self::name_of(&e).unwrap_or_default();
            let spns: Vec<String> = e.get_ava_set(Attribute::Spn).map(|v| v.to_proto_string_clone_iter().collect()).unwrap_or_default();
            let want = format!("{name}@{dom}");
            if spns.len() != 1 || spns[0] != want {
                out.push((format!("spn_wrong:{}", KIND[s]), format!("{} slot {s} named {name:?} in domain {dom} has spn {spns:?}, expected exactly [{want:?}]", KIND[s])));
            }
        }
    }

    fn check_c19(&mut self, out: &mut Vec<(String, String)>) {
        let ents = self.slot_entries();
        let mut seen: BTreeMap<(String, String), usize> = BTreeMap::new();
        let mut uu: BTreeSet<Uuid> = BTreeSet::new();
        for (s, e) in &ents {
            if Self::life_of(e) != Life::Live {
                continue;
            }
            if !uu.insert(e.get_uuid()) {
                out.push(("duplicate_uuid".into(), format!("two live entries share uuid {}", e.get_uuid())));
            }
            for attr in [Attribute::Name, Attribute::Spn] {
                for v in e.get_ava_set(&attr).map(|v| v.to_proto_string_clone_iter().collect::<Vec<_>>()).unwrap_or_default() {
                    if let Some(other) = seen.insert((attr.as_str().to_string(), v.clone()), *s) {
                        out.push((format!("duplicate_{}", attr.as_str()), format!("live slots {other} and {s} share {} = {v}", attr.as_str())));
                    }
                }
            }
        }
    }

    fn check_c26(&mut self, last: Option<(&Op, &str)>, out: &mut Vec<(String, String)>) {
        let lives = self.lives();
        let ents = self.slot_entries();
        let rb = RECYCLEBIN_MAX_AGE;
        let cl = CHANGELOG_MAX_AGE;
        // normal searches never show recycled / tombstoned entries; recycle searches find recycled ones
        let (normal, recycled): (Vec<Uuid>, Vec<Uuid>) = self.srv.read(|r| {
            let n = r
                .internal_search(Filter::new_ignore_hidden(f_pres(Attribute::Uuid)))
                .map(|v| v.iter().map(|e| e.get_uuid()).collect())
                .unwrap_or_default();
            let rec = r
                .internal_search(Filter::new_recycled(f_pres(Attribute::Uuid)))
                .map(|v| v.iter().map(|e| e.get_uuid()).collect())
                .unwrap_or_default();
            (n, rec)
        });
        // the lookups by uuid that front ends use (internal, impersonated, impersonated + reduced)
        let by_uuid: Vec<[bool; 3]> = self.srv.read(|r| {
            let id = kanidmd_lib::verif_hooks::identity_internal();
            // the reduced lookup needs an identity that access profiles apply to: the built-in
            // admin (a recycle-bin administrator)
            let adm = r.internal_search_uuid(UUID_ADMIN).map(Identity::from_impersonate_entry_readwrite);
            (0..NSLOTS).map(|s| [r.internal_search_uuid(slot_uuid(s)).is_ok(), r.impersonate_search_uuid(slot_uuid(s), &id).is_ok(), adm.as_ref().map(|a| r.impersonate_search_ext_uuid(slot_uuid(s), a).is_ok()).unwrap_or(false)]).collect()
        });
        for s in 0..NSLOTS {
            let found = by_uuid[s];
            let names = ["internal_search_uuid", "impersonate_search_uuid", "impersonate_search_ext_uuid"];
            for (k, f) in found.iter().enumerate() {
                match (lives[s], *f) {
                    (Life::Live, false) if self.cfg.slots.contains(&s) && k < 2 => out.push((format!("live_not_found_by_uuid:{}", names[k]), format!("live slot {s} is not found by {}", names[k]))),
                    (Life::Recycled | Life::Tombstone | Life::Absent, true) => out.push((format!("deleted_entry_found_by_uuid:{}", names[k]), format!("slot {s} ({:?}) is returned by the normal lookup {}", lives[s], names[k]))),
                    _ => {}
                }
            }
        }
        for s in 0..NSLOTS {
            let u = slot_uuid(s);
            match lives[s] {
                Life::Live => {
                    if !normal.contains(&u) {
                        out.push(("live_not_found".into(), format!("live slot {s} missing from a normal search")));
                    }
                }
                Life::Recycled => {
                    if normal.contains(&u) {
                        out.push(("recycled_in_normal_search".into(), format!("recycled slot {s} appears in a normal search")));
                    }
                    if !recycled.contains(&u) {
                        out.push(("recycled_not_in_recycle_search".into(), format!("recycled slot {s} is not found by a recycle-bin search")));
                    }
                }
                Life::Tombstone | Life::Absent => {
                    if normal.contains(&u) || recycled.contains(&u) {
                        out.push(("dead_entry_visible".into(), format!("slot {s} ({:?}) appears in a search", lives[s])));
                    }
                }
            }
            // retention
            if let (Life::Tombstone, Some(d)) = (lives[s], self.deleted_at[s]) {
                if let Some(t) = self.tomb_at[s] {
                    if t < d + rb {
                        out.push(("tombstoned_before_retention".into(), format!("slot {s} deleted at {d} became a tombstone at {t}, before the retention period {rb}s had passed")));
                    }
                }
            }
            if let (Life::Absent, Some(t)) = (lives[s], self.tomb_at[s]) {
                // removed for good: only after the changelog window counted from tombstoning
                if self.now < t + cl {
                    out.push(("tombstone_reaped_early".into(), format!("slot {s} tombstoned at {t} was removed for good at {} before the changelog window {cl}s", self.now)));
                }
            }
        }
        // op-specific expectations
        if let Some((op, label)) = last {
            match op {
                Op::Revive(s) if self.before[*s] == Life::Tombstone => {
                    if lives[*s] != Life::Tombstone {
                        out.push(("tombstone_revived".into(), format!("revive on tombstoned slot {s} ({label}) left it {:?}", lives[*s])));
                    }
                }
                Op::Revive(s) => {
                    // on recycled entries: must succeed and restore the entry with
                    // its direct memberships of groups that still exist
                    if label.starts_with("err:AttributeUniqueness") {
                        // its name was taken while it was in the bin: refusing is correct
                    } else if label != "ok" {
                        out.push(("revive_refused".into(), format!("revive of recycled slot {s} failed: {label}")));
                    } else if lives[*s] != Life::Live {
                        out.push(("revive_no_effect".into(), format!("revive of slot {s} reported ok but the entry is {:?}", lives[*s])));
                    } else {
                        for g in &self.dmo_at_delete[*s] {
                            // a group's membership of itself is not "a group that still exists" at
                            // the time it is deleted: no claim
                            if g != s && lives[*g] == Life::Live {
                                let member = ents
                                    .iter()
                                    .find(|(x, _)| x == g)
                                    .map(|(_, e)| e.attribute_equality(Attribute::Member, &PartialValue::Refer(slot_uuid(*s))))
                                    .unwrap_or(false);
                                if !member {
                                    out.push(("revive_lost_membership".into(), format!("slot {s} was a direct member of live group slot {g} when deleted; after revive it is not")));
                                }
                            }
                        }
                    }
                }
                Op::ReviveAll => {
                    if label == "ok" {
                        for s in 0..NSLOTS {
                            if self.before[s] != Life::Recycled {
                                continue;
                            }
                            if lives[s] != Life::Live {
                                out.push(("revive_no_effect".into(), format!("one revive request covering slot {s} reported ok but the entry is {:?}", lives[s])));
                                continue;
                            }
                            for g in &self.dmo_at_delete[s] {
                                if *g != s && lives[*g] == Life::Live && self.before[*g] == Life::Live {
                                    let member = ents.iter().find(|(x, _)| x == g).map(|(_, e)| e.attribute_equality(Attribute::Member, &PartialValue::Refer(slot_uuid(s)))).unwrap_or(false);
                                    if !member {
                                        out.push(("revive_lost_membership".into(), format!("slot {s} was a direct member of live group slot {g} when deleted; after a revive request covering several entries it is not")));
                                    }
                                }
                            }
                        }
                    } else if !label.starts_with("err:AttributeUniqueness") {
                        out.push(("revive_refused".into(), format!("revive of all recycled slots failed: {label}")));
                    }
                }
                Op::PurgeRecycled => {}
                _ => {}
            }
        }
    }

    /// C17: memberof / directmemberof are exactly the closure / direct predecessors over the
    /// member links between LIVE groups.
    fn check_c17(&mut self, out: &mut Vec<(String, String)>) {
        let ents = self.slot_entries();
        let live: Vec<(usize, &SE)> = ents.iter().filter(|(_, e)| Self::life_of(e) == Life::Live).map(|(s, e)| (*s, e)).collect();
        let slot_of = |u: Uuid| (0..NSLOTS).find(|s| slot_uuid(*s) == u);
        // edges g -> m for live groups g and live members m
        let mut members: BTreeMap<usize, BTreeSet<usize>> = BTreeMap::new();
        for (g, e) in &live {
            if KIND[*g] != "group" {
                continue;
            }
            let mut set = BTreeSet::new();
            for attr in [Attribute::Member, Attribute::DynMember] {
                if let Some(it) = e.get_ava_as_refuuid(&attr) {
                    for u in it {
                        if let Some(m) = slot_of(u) {
                            if live.iter().any(|(s, _)| *s == m) {
                                set.insert(m);
                            }
                        }
                    }
                }
            }
            members.insert(*g, set);
        }
        for (s, e) in &live {
            // direct: groups listing s
            let direct: BTreeSet<usize> = members.iter().filter(|(_, ms)| ms.contains(s)).map(|(g, _)| *g).collect();
            // closure: groups from which s is reachable through one or more member links
            let mut reach: BTreeSet<usize> = direct.clone();
            let mut frontier: Vec<usize> = direct.iter().copied().collect();
            while let Some(x) = frontier.pop() {
                for (g, ms) in &members {
                    if ms.contains(&x) && reach.insert(*g) {
                        frontier.push(*g);
                    }
                }
            }
            // is this entry on a member cycle, or below a group that is on one?
            let on_cycle = |x: usize| -> bool {
                let mut seen: BTreeSet<usize> = BTreeSet::new();
                let mut fr: Vec<usize> = members.iter().filter(|(_, ms)| ms.contains(&x)).map(|(g, _)| *g).collect();
                while let Some(y) = fr.pop() {
                    if y == x {
                        return true;
                    }
                    if seen.insert(y) {
                        fr.extend(members.iter().filter(|(_, ms)| ms.contains(&y)).map(|(g, _)| *g));
                    }
                }
                false
            };
            let cyc = if on_cycle(*s) || reach.iter().any(|g| on_cycle(*g)) { ":cycle" } else { "" };
            let got = |attr: Attribute| -> BTreeSet<usize> { e.get_ava_as_refuuid(&attr).map(|it| it.filter_map(slot_of).collect()).unwrap_or_default() };
            let got_mo = got(Attribute::MemberOf);
            let got_dmo = got(Attribute::DirectMemberOf);
            if got_mo != reach {
                let kind = if got_mo.is_subset(&reach) { "missing" } else if reach.is_subset(&got_mo) { "stale" } else { "wrong" };
                out.push((format!("memberof_{kind}{cyc}"), format!("slot {s}: memberof = {got_mo:?} but the member links between live groups give {reach:?} (member lists: {members:?})")));
            }
            if got_dmo != direct {
                let kind = if got_dmo.is_subset(&direct) { "missing" } else if direct.is_subset(&got_dmo) { "stale" } else { "wrong" };
                out.push((format!("directmemberof_{kind}{cyc}"), format!("slot {s}: directmemberof = {got_dmo:?} but it is listed directly by {direct:?}")));
            }
        }
    }

    pub fn canon_string(&mut self) -> String {
        let mut parts: Vec<String> = Vec::new();
        let rb = RECYCLEBIN_MAX_AGE;
        let cl = CHANGELOG_MAX_AGE;
        for (s, e) in self.slot_entries() {
            let life = Self::life_of(&e);
            // age class: does the retention / changelog window already allow the next step?
            let age = match life {
                Life::Recycled => self.deleted_at[s].map(|d| self.now > d + rb).unwrap_or(false),
                Life::Tombstone => self.tomb_at[s].map(|d| self.now > d + cl).unwrap_or(false),
                _ => false,
            };
            let skip = [Attribute::LastModifiedCid, Attribute::CreatedAtCid];
            // name_history values carry the change id of each rename (time + server uuid), which no
            // later behaviour of a single server depends on: keep the names in their order only
            let rendered: String = srv::render_entry(&e, &skip)
                .split(';')
                .map(|seg| match seg.strip_prefix("name_history=") {
                    Some(v) => format!("name_history={}", v.split('|').map(|x| if x.len() > 70 && x.is_char_boundary(70) { &x[70..] } else { x }).collect::<Vec<_>>().join("|")),
                    None => seg.to_string(),
                })
                .collect::<Vec<_>>()
                .join(";");
            parts.push(format!("{s}:{life:?}:{age}:{rendered}"));
        }
        parts.sort();
        parts.push(format!("dom={}", self.domain()));
        parts.push(format!("maint={}", self.last_maint));
        if self.cfg.props.contains("C26") {
            parts.push(format!("dmo={:?}", self.dmo_at_delete));
        }
        parts.join("\n")
    }
}

impl World for Dir {
    type Op = Op;

    fn ops(&mut self) -> Vec<Op> {
        if self.tainted {
            return Vec::new();
        }
        let lives = self.lives();
        let ents = self.slot_entries();
        let mut v = Vec::new();
        let slots = self.cfg.slots.clone();
        for &s in &slots {
            if lives[s] == Life::Absent && self.deleted_at[s].is_none() {
                if self.cfg.names == 0 {
                    // one fixed, distinct name per slot
                    v.push(Op::Create(s, s));
                }
                for n in 0..self.cfg.names {
                    v.push(Op::Create(s, n));
                }
            }
        }
        for &s in &slots {
            if lives[s] == Life::Live {
                for n in 0..self.cfg.names {
                    v.push(Op::Rename(s, n));
                }
                if self.cfg.mail && KIND[s] == "person" {
                    v.push(Op::SetMail(s, 0));
                    v.push(Op::SetMail(s, 1));
                }
            }
        }
        if self.cfg.members {
            for &g in &slots {
                if KIND[g] != "group" || lives[g] != Life::Live {
                    continue;
                }
                for &m in &slots {
                    if lives[m] != Life::Live {
                        continue;
                    }
                    let is_member = ents
                        .iter()
                        .find(|(x, _)| *x == g)
                        .map(|(_, e)| e.attribute_equality(Attribute::Member, &PartialValue::Refer(slot_uuid(m))))
                        .unwrap_or(false);
                    if is_member {
                        v.push(Op::RemMember(g, m));
                    } else {
                        v.push(Op::AddMember(g, m));
                    }
                }
            }
        }
        if self.cfg.lifecycle {
            for &s in &slots {
                match lives[s] {
                    Life::Live => v.push(Op::Delete(s)),
                    Life::Recycled => v.push(Op::Revive(s)),
                    // reviving a tombstone must be impossible
                    Life::Tombstone if self.cfg.purge => v.push(Op::Revive(s)),
                    _ => {}
                }
            }
        }
        if self.cfg.extid {
            for &s in &slots {
                if KIND[s] == "service" && lives[s] == Life::Live {
                    v.push(Op::SetExtId(s, 0));
                    v.push(Op::SetExtId(s, 1));
                }
            }
        }
        if self.cfg.revive_all && lives.iter().filter(|l| **l == Life::Recycled).count() >= 2 {
            v.push(Op::ReviveAll);
        }
        if self.cfg.domain_rename {
            let d = self.domain();
            for (i, dn) in DOMAINS.iter().enumerate() {
                if *dn != d {
                    v.push(Op::DomainRename(i));
                }
            }
        }
        if self.cfg.purge {
            if lives.iter().any(|l| *l == Life::Recycled) {
                v.push(Op::AdvRecycle);
                v.push(Op::PurgeRecycled);
            }
            if lives.iter().any(|l| *l == Life::Tombstone) {
                v.push(Op::AdvChangelog);
                v.push(Op::PurgeTombstones);
            }
        }
        if self.cfg.maint && self.last_maint == 0 {
            v.push(Op::Reindex);
            v.push(Op::ClearCache);
        }
        v
    }

    fn apply(&mut self, op: &Op) -> String {
        let ct = srv::t(self.now);
        let before = self.lives();
        self.before = before;
        self.last_maint = 0;
        let r: Result<(), OperationError> = match op {
            Op::Create(s, n) => self.srv.write(ct, |w| w.internal_create(vec![mk_entry(*s, NAMES[*n])])),
            Op::Rename(s, n) => self.srv.write(ct, |w| {
                let ml = ModifyList::new_purge_and_set(Attribute::Name, Value::new_iname(NAMES[*n]));
                w.internal_modify_uuid(slot_uuid(*s), &ml)
            }),
            Op::SetMail(s, m) => self.srv.write(ct, |w| {
                let addr = ["x@mail.example", "y@mail.example"][*m];
                let ml = ModifyList::new_purge_and_set(Attribute::Mail, Value::new_email_address_primary_s(addr).unwrap_or_else(|| Value::new_utf8s("x")));
                w.internal_modify_uuid(slot_uuid(*s), &ml)
            }),
            Op::Delete(s) => {
                // remember direct memberships for the lifecycle property
                let dmo: Vec<usize> = self
                    .slot_entries()
                    .iter()
                    .filter(|(g, e)| KIND[*g] == "group" && Self::life_of(e) == Life::Live && e.attribute_equality(Attribute::Member, &PartialValue::Refer(slot_uuid(*s))))
                    .map(|(g, _)| *g)
                    .collect();
                let r = self.srv.write(ct, |w| w.internal_delete_uuid(slot_uuid(*s)));
                if r.is_ok() {
                    self.deleted_at[*s] = Some(self.now);
                    self.dmo_at_delete[*s] = dmo;
                    // deleting a group severs the memberships recorded for entries already in the
                    // bin ("groups that still exist" = groups that existed continuously)
                    for l in self.dmo_at_delete.iter_mut() {
                        l.retain(|g| g != s);
                    }
                }
                r
            }
            Op::Revive(s) => {
                let r = self.srv.write(ct, |w| {
                    let f = Filter::new_recycled(f_eq(Attribute::Uuid, PartialValue::Uuid(slot_uuid(*s))))
                        .validate(w.get_schema())
                        .map_err(OperationError::SchemaViolation)?;
                    let re = ReviveRecycledEvent { ident: identity_internal(), filter: f };
                    w.revive_recycled(&re)
                });
                if r.is_ok() {
                    self.deleted_at[*s] = None;
                }
                r
            }
            Op::SetExtId(s, x) => self.srv.write(ct, |w| w.internal_modify_uuid(slot_uuid(*s), &ModifyList::new_purge_and_set(Attribute::SyncExternalId, Value::new_iutf8(EXTIDS[*x])))),
            Op::ReviveAll => {
                let rec: Vec<usize> = (0..NSLOTS).filter(|s| before[*s] == Life::Recycled).collect();
                let r = self.srv.write(ct, |w| {
                    let f = Filter::new_recycled(f_or(rec.iter().map(|s| f_eq(Attribute::Uuid, PartialValue::Uuid(slot_uuid(*s)))).collect()))
                        .validate(w.get_schema())
                        .map_err(OperationError::SchemaViolation)?;
                    w.revive_recycled(&ReviveRecycledEvent { ident: identity_internal(), filter: f })
                });
                if r.is_ok() {
                    for s in &rec {
                        self.deleted_at[*s] = None;
                    }
                }
                r
            }
            Op::AddMember(g, m) => self.srv.write(ct, |w| {
                let ml = ModifyList::new_list(vec![Modify::Present(Attribute::Member, Value::Refer(slot_uuid(*m)))]);
                w.internal_modify_uuid(slot_uuid(*g), &ml)
            }),
            Op::RemMember(g, m) => self.srv.write(ct, |w| {
                let ml = ModifyList::new_list(vec![Modify::Removed(Attribute::Member, PartialValue::Refer(slot_uuid(*m)))]);
                w.internal_modify_uuid(slot_uuid(*g), &ml)
            }),
            Op::DomainRename(d) => self.srv.write(ct, |w| w.danger_domain_rename(DOMAINS[*d])),
            Op::AdvRecycle => {
                self.now += RECYCLEBIN_MAX_AGE + 1;
                Ok(())
            }
            Op::AdvChangelog => {
                self.now += CHANGELOG_MAX_AGE + 1;
                Ok(())
            }
            Op::PurgeRecycled => self.srv.write(ct, |w| w.purge_recycled().map(|_| ())),
            Op::PurgeTombstones => self.srv.write(ct, |w| w.purge_tombstones().map(|_| ())),
            Op::Reindex => {
                self.last_maint = 1;
                self.srv.write(ct, |w| w.reindex(true))
            }
            Op::ClearCache => {
                self.last_maint = 2;
                self.srv.write(ct, |w| w.clear_cache())
            }
        };
        self.now += 1;
        // history: tombstoning / reaping times
        let after = self.lives();
        for s in 0..NSLOTS {
            if before[s] == Life::Recycled && after[s] == Life::Tombstone {
                self.tomb_at[s] = Some(self.now - 1);
            }
        }
        opstr(&r)
    }

    fn check(&mut self, last: Option<(&Op, &str)>) -> Vec<(String, String)> {
        let mut out = Vec::new();
        if self.cfg.props.contains("C03") {
            self.check_c03(&mut out);
        }
        if self.cfg.props.contains("C22") {
            self.check_c22(&mut out);
        }
        if self.cfg.props.contains("C19") {
            self.check_c19(&mut out);
        }
        if self.cfg.props.contains("C26") {
            self.check_c26(last, &mut out);
        }
        if self.cfg.props.contains("C17") {
            self.check_c17(&mut out);
        }
        if !out.is_empty() {
            self.tainted = true;
        }
        out
    }

    fn canon(&mut self) -> u64 {
        let mut h = Fnv::new();
        let c = self.canon_string();
        if std::env::var_os("KV_DUMP_CANON").is_some() {
            eprintln!("CANON-BEGIN\n{c}\nCANON-END");
        }
        h.write_str(&c);
        h.finish()
    }
}
