//! Client for oracles/pw_oracle.py (independent password hash implementations).

use serde_json::{json, Value};
use std::io::Write;

pub const FORMATS: [&str; 17] = [
    "django",
    "oldap-pbkdf2",
    "oldap-pbkdf2-sha1",
    "oldap-pbkdf2-sha256",
    "oldap-pbkdf2-sha512",
    "sha",
    "ssha",
    "sha256",
    "ssha256",
    "sha512",
    "ssha512",
    "ipanthash",
    "sambant",
    "crypt-md5",
    "crypt-sha256",
    "crypt-sha512",
    "argon2",
];

pub fn call(verif_dir: &std::path::Path, reqs: &[Value]) -> Vec<Value> {
    let path = verif_dir.join("oracles/pw_oracle.py");
    let mut child = std::process::Command::new("python3")
        .arg(&path)
        .stdin(std::process::Stdio::piped())
        .stdout(std::process::Stdio::piped())
        .spawn()
        .unwrap_or_else(|e| kv_engine::ctx::machinery_exit(&format!("cannot start pw oracle: {e}")));
    {
        let mut stdin = child.stdin.take().unwrap_or_else(|| kv_engine::ctx::machinery_exit("no stdin"));
        stdin
            .write_all(serde_json::to_string(reqs).unwrap_or_default().as_bytes())
            .unwrap_or_else(|e| kv_engine::ctx::machinery_exit(&format!("oracle stdin: {e}")));
    }
    let out = child
        .wait_with_output()
        .unwrap_or_else(|e| kv_engine::ctx::machinery_exit(&format!("oracle wait: {e}")));
    if !out.status.success() {
        kv_engine::ctx::machinery_exit("pw oracle failed (self-test or input)");
    }
    serde_json::from_slice(&out.stdout).unwrap_or_else(|e| kv_engine::ctx::machinery_exit(&format!("oracle output: {e}")))
}

/// cost parameter appropriate for a format (two levels)
pub fn cost(fmt: &str, level: usize) -> u64 {
    match fmt {
        "django" | "oldap-pbkdf2" | "oldap-pbkdf2-sha1" | "oldap-pbkdf2-sha256" | "oldap-pbkdf2-sha512" => [1000, 4096][level],
        "crypt-sha256" | "crypt-sha512" => [0, 5001][level], // 0 = default rounds (5000, implicit)
        "argon2" => [64, 1024][level],
        _ => 0,
    }
}

pub fn candidates(clear: &str) -> Vec<String> {
    let mut flipped: String = clear
        .chars()
        .map(|c| if c.is_lowercase() { c.to_uppercase().next().unwrap_or(c) } else { c.to_lowercase().next().unwrap_or(c) })
        .collect();
    if flipped == clear {
        flipped.push('Z');
    }
    let mut trunc: String = clear.to_string();
    trunc.pop();
    vec![clear.to_string(), "wrong".to_string(), flipped, trunc, format!("{clear}x"), String::new()]
}

pub fn cleartexts() -> Vec<String> {
    vec![
        "a".to_string(),
        "pässwörd".to_string(),
        "x".repeat(72),
        "y".repeat(73),
        "Zz9-".repeat(50),
        "a\tb\u{1}c d".to_string(),
        "pw🔐emoji".to_string(),
    ]
}

pub fn make_req(fmt: &str, clear: &str, salt: &[u8], cost: u64) -> Value {
    json!({"op": "make", "fmt": fmt, "clear": clear, "salt_hex": hex::encode(salt), "cost": cost, "cands": candidates(clear)})
}
