//! kv-core: property checks that drive kanidmd_lib / kanidm_proto / kanidm_lib_crypto.
//! usage: kv-core <Cnn> [--tier quick|thorough] [--replay file] [--opt k=v]

#[macro_use]
extern crate tracing;

#[allow(dead_code)]
mod acpfx;
mod bkp;
mod checks;
mod edge;
mod fixtures;
#[allow(dead_code)]
mod idmfx;
mod o2fx;
mod pw;
#[allow(dead_code)]
mod srv;
#[allow(dead_code)]
mod worlds;

fn main() {
    let args: Vec<String> = std::env::args().collect();
    let Some(id) = args.get(1).cloned() else {
        eprintln!("usage: kv-core <Cnn> [--tier quick|thorough] [--replay file]");
        std::process::exit(2);
    };
    if id == "bench" { checks::bench(); return; }
    if id == "bench2" { checks::bench2(); return; }
    if let Ok(f) = std::env::var("KV_TRACE") {
        // debugging aid: the library's own log, e.g. KV_TRACE=warn
        let _ = tracing_subscriber::fmt().with_env_filter(tracing_subscriber::EnvFilter::new(f)).with_writer(std::io::stderr).try_init();
    }
    let rest = &args[2..];
    checks::dispatch(&id, rest);
}
