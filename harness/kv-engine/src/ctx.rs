//! Run context: tier, seed, evidence, violations, known findings.

use serde_json::{json, Map, Value};
use std::collections::BTreeMap;
use std::path::PathBuf;
use std::time::Instant;

#[derive(Clone, Copy, PartialEq, Eq, Debug)]
pub enum Tier {
    Quick,
    Thorough,
}

#[derive(Clone, Copy, PartialEq, Eq, Debug)]
pub enum Level {
    Exploration,
    FaultEnumeration,
    ModelChecking,
}

impl Level {
    fn as_str(self) -> &'static str {
        match self {
            Level::Exploration => "exploration",
            Level::FaultEnumeration => "fault_enumeration",
            Level::ModelChecking => "model_checking",
        }
    }
}

#[derive(Clone, Debug)]
pub struct Viol {
    pub key: String,
    pub what: String,
    pub replay: Value,
}

pub struct Ctx {
    pub id: String,
    pub tier: Tier,
    pub seed: u64,
    pub level: Level,
    /// `--replay <file>`: the parsed replay artefact; the check re-executes only that case.
    pub replay: Option<Value>,
    /// extra `--opt k=v` arguments
    pub opts: BTreeMap<String, String>,
    start: Instant,
    coverage: Map<String, Value>,
    samples: Vec<Value>,
    assumptions: Vec<String>,
    violations: Vec<Viol>,
    violations_total: u64,
    known: Vec<(String, String)>, // (key, what) for this property
    known_hits: BTreeMap<String, u64>,
    machinery_errors: Vec<String>,
    verif_dir: PathBuf,
    seen_keys: std::collections::BTreeSet<String>,
}

pub const MAX_SAMPLES: usize = 12;
const MAX_REPLAYS: usize = 10;

impl Ctx {
    /// Parse `<bin> <id> [--tier quick|thorough] [--replay file] [--opt k=v]...`
    /// (the id has already been consumed by the caller).
    pub fn new(id: &str, level: Level, args: &[String]) -> Ctx {
        let verif_dir = PathBuf::from(std::env::var("VERIF_DIR").unwrap_or_else(|_| "/verif".into()));
        let mut tier = match std::env::var("VERIF_TIER").ok().as_deref() {
            Some("thorough") => Tier::Thorough,
            _ => Tier::Quick,
        };
        let seed = std::env::var("VERIF_SEED")
            .ok()
            .and_then(|s| s.parse::<u64>().ok())
            .unwrap_or(0);
        let mut replay = None;
        let mut opts = BTreeMap::new();
        let mut i = 0;
        while i < args.len() {
            match args[i].as_str() {
                "--tier" => {
                    i += 1;
                    tier = match args.get(i).map(|s| s.as_str()) {
                        Some("thorough") => Tier::Thorough,
                        Some("quick") => Tier::Quick,
                        other => machinery_exit(&format!("bad --tier {other:?}")),
                    };
                }
                "--replay" => {
                    i += 1;
                    let p = args.get(i).unwrap_or_else(|| machinery_exit("--replay needs a path"));
                    let txt = std::fs::read_to_string(p)
                        .unwrap_or_else(|e| machinery_exit(&format!("cannot read replay {p}: {e}")));
                    let v: Value = serde_json::from_str(&txt)
                        .unwrap_or_else(|e| machinery_exit(&format!("bad replay json {p}: {e}")));
                    replay = Some(v);
                }
                "--opt" => {
                    i += 1;
                    if let Some((k, v)) = args.get(i).and_then(|s| s.split_once('=')) {
                        opts.insert(k.to_string(), v.to_string());
                    }
                }
                other => machinery_exit(&format!("unknown argument {other}")),
            }
            i += 1;
        }

        // known findings for this property
        let mut known = Vec::new();
        let kf = verif_dir.join("known_findings.json");
        if let Ok(txt) = std::fs::read_to_string(&kf) {
            match serde_json::from_str::<Value>(&txt) {
                Ok(v) => {
                    if let Some(arr) = v.get("findings").and_then(|f| f.as_array()) {
                        for f in arr {
                            if f.get("property").and_then(|p| p.as_str()) == Some(id) {
                                let key = f.get("key").and_then(|k| k.as_str()).unwrap_or("").to_string();
                                let what = f.get("what").and_then(|k| k.as_str()).unwrap_or("").to_string();
                                known.push((key, what));
                            }
                        }
                    }
                }
                Err(e) => machinery_exit(&format!("known_findings.json does not parse: {e}")),
            }
        }

        Ctx {
            id: id.to_string(),
            tier,
            seed,
            level,
            replay,
            opts,
            start: Instant::now(),
            coverage: Map::new(),
            samples: Vec::new(),
            assumptions: Vec::new(),
            violations: Vec::new(),
            violations_total: 0,
            known,
            known_hits: BTreeMap::new(),
            machinery_errors: Vec::new(),
            verif_dir,
            seen_keys: Default::default(),
        }
    }

    pub fn quick(&self) -> bool {
        self.tier == Tier::Quick
    }
    pub fn thorough(&self) -> bool {
        self.tier == Tier::Thorough
    }
    /// pick by tier
    pub fn pick<T>(&self, quick: T, thorough: T) -> T {
        if self.quick() {
            quick
        } else {
            thorough
        }
    }
    pub fn opt_u64(&self, k: &str) -> Option<u64> {
        self.opts.get(k).and_then(|v| v.parse().ok())
    }
    pub fn elapsed_s(&self) -> f64 {
        self.start.elapsed().as_secs_f64()
    }
    pub fn verif_dir(&self) -> &PathBuf {
        &self.verif_dir
    }
    pub fn scratch_dir(&self) -> PathBuf {
        let d = self.verif_dir.join("scratch").join(format!("{}-{}", self.id, std::process::id()));
        let _ = std::fs::create_dir_all(&d);
        d
    }
    /// Scratch directory for database files that many worker processes write concurrently: on
    /// the memory file system when there is one (fsync on the shared disk serialises the
    /// workers), else under /verif/scratch. Created by the check, removed by the check.
    pub fn scratch_dir_fast(&self) -> PathBuf {
        let shm = PathBuf::from("/dev/shm");
        if std::env::var("KV_NO_SHM").is_err() && shm.is_dir() {
            let d = shm.join(format!("kv-{}-{}", self.id, std::process::id()));
            if std::fs::create_dir_all(&d).is_ok() {
                return d;
            }
        }
        self.scratch_dir()
    }

    pub fn set(&mut self, k: &str, v: impl Into<Value>) {
        self.coverage.insert(k.to_string(), v.into());
    }
    pub fn add(&mut self, k: &str, n: u64) {
        let cur = self.coverage.get(k).and_then(|v| v.as_u64()).unwrap_or(0);
        self.coverage.insert(k.to_string(), json!(cur + n));
    }
    pub fn get_u64(&self, k: &str) -> u64 {
        self.coverage.get(k).and_then(|v| v.as_u64()).unwrap_or(0)
    }
    pub fn sample(&mut self, v: impl Into<Value>) {
        if self.samples.len() < MAX_SAMPLES {
            self.samples.push(v.into());
        }
    }
    pub fn samples_len(&self) -> usize {
        self.samples.len()
    }
    pub fn assume(&mut self, s: &str) {
        if !self.assumptions.iter().any(|a| a == s) {
            self.assumptions.push(s.to_string());
        }
    }
    pub fn machinery_error(&mut self, s: String) {
        eprintln!("MACHINERY-ERROR property={} {}", self.id, s);
        if self.machinery_errors.len() < 20 {
            self.machinery_errors.push(s);
        }
    }

    /// Report a property violation. `key` is the canonical class of the failing input /
    /// history / call site; if `known_findings.json` lists that key for this property it is a
    /// KNOWN-FINDING, otherwise a VIOLATION.
    pub fn violation(&mut self, key: &str, what: &str, replay: Value) {
        if self.known.iter().any(|(k, _)| k == key) {
            *self.known_hits.entry(key.to_string()).or_insert(0) += 1;
            return;
        }
        self.violations_total += 1;
        if std::env::var("KV_ALLKEYS").is_ok() && self.seen_keys.insert(key.to_string()) {
            eprintln!("KEY {key}");
        }
        if self.violations.len() < MAX_REPLAYS && !self.violations.iter().any(|v| v.key == key) {
            self.violations.push(Viol {
                key: key.to_string(),
                what: what.to_string(),
                replay,
            });
        }
    }
    pub fn is_known(&self, key: &str) -> bool {
        self.known.iter().any(|(k, _)| k == key)
    }
    pub fn violations_total(&self) -> u64 {
        self.violations_total
    }

    /// Write evidence, print verdict lines, exit.
    pub fn finish(mut self) -> ! {
        let wall = self.start.elapsed().as_secs_f64();
        if self.replay.is_some() {
            // replay mode: no evidence rewrite
            for v in &self.violations {
                println!("REPLAY-VIOLATION property={} key={} {}", self.id, v.key, v.what);
            }
            for (k, n) in &self.known_hits {
                println!("REPLAY-KNOWN-FINDING property={} key={} hits={}", self.id, k, n);
            }
            if !self.machinery_errors.is_empty() {
                std::process::exit(2);
            }
            std::process::exit(if self.violations.is_empty() { 0 } else { 1 });
        }

        let mut cov = std::mem::take(&mut self.coverage);
        cov.insert("samples".into(), Value::Array(self.samples.clone()));
        if !self.known_hits.is_empty() {
            cov.insert(
                "known_finding_hits".into(),
                Value::Object(self.known_hits.iter().map(|(k, n)| (k.clone(), json!(n))).collect()),
            );
        }
        if !self.machinery_errors.is_empty() {
            cov.insert("machinery_errors".into(), json!(self.machinery_errors));
        }
        let ev = json!({
            "property_id": self.id,
            "tier": if self.tier == Tier::Quick { "quick" } else { "thorough" },
            "seed": self.seed,
            "level": self.level.as_str(),
            "coverage": Value::Object(cov),
            "assumptions": self.assumptions,
            "wall_s": (wall * 1000.0).round() / 1000.0,
            "violations": self.violations_total,
        });
        let evdir = self.verif_dir.join("evidence");
        let _ = std::fs::create_dir_all(&evdir);
        let evpath = evdir.join(format!("{}.json", self.id));
        if let Err(e) = std::fs::write(&evpath, serde_json::to_string_pretty(&ev).unwrap_or_default() + "\n") {
            eprintln!("cannot write evidence {evpath:?}: {e}");
            std::process::exit(2);
        }

        for (k, what) in &self.known {
            if let Some(n) = self.known_hits.get(k) {
                println!("KNOWN-FINDING: property={} {} [key={} hits={}]", self.id, what, k, n);
            }
        }
        if !self.machinery_errors.is_empty() {
            eprintln!("property={} machinery errors: {}", self.id, self.machinery_errors.len());
            std::process::exit(2);
        }
        if self.violations.is_empty() {
            println!(
                "OK property={} tier={:?} wall={:.1}s evidence={}",
                self.id,
                self.tier,
                wall,
                evpath.display()
            );
            std::process::exit(0);
        }
        let rdir = self.verif_dir.join("replays").join(&self.id);
        let _ = std::fs::create_dir_all(&rdir);
        for v in &self.violations {
            let name = format!("{:016x}.json", crate::hash_str(&v.key));
            let path = rdir.join(name);
            let body = json!({"property": self.id, "key": v.key, "what": v.what, "case": v.replay});
            let _ = std::fs::write(&path, serde_json::to_string_pretty(&body).unwrap_or_default() + "\n");
            println!("VIOLATION property={} replay={}", self.id, path.display());
            println!("  key={} what={}", v.key, v.what);
        }
        println!("property={} total violating cases: {}", self.id, self.violations_total);
        std::process::exit(1);
    }
}

pub fn machinery_exit(msg: &str) -> ! {
    eprintln!("MACHINERY-ERROR {msg}");
    std::process::exit(2);
}
