//! E3: baton-passing controlled scheduler (filled in by the C06 / C47 checks).
