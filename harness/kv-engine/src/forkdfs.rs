//! E2: fork-snapshot explicit-state search.
//!
//! The process image (real server on an in-memory database, caches, schema, key material) *is*
//! the state. `fork()` gives an exact copy-on-write snapshot, so depth-first search with
//! backtracking needs no undo logic: the child applies one operation through the public API,
//! checks the invariants, hashes the canonical state, consults the shared depth-aware visited
//! table and recurses; the parent moves on to the next operation.
//!
//! Pruning is sound for bounded search: a state is pruned only if it was already expanded with
//! at least the same remaining depth.

use crate::shm::{Counters, Visit, Visited};
use serde::{de::DeserializeOwned, Serialize};
use serde_json::{json, Value};
use std::collections::BTreeMap;
use std::fmt::Debug;
use std::io::Write;
use std::panic::{catch_unwind, AssertUnwindSafe};
use std::time::Instant;

pub trait World {
    type Op: Clone + Debug + Serialize + DeserializeOwned;
    /// Operations enabled in the current state, simplest first.
    fn ops(&mut self) -> Vec<Self::Op>;
    /// Apply `op` to the real system. Returns a short outcome label ("ok", "err:…").
    fn apply(&mut self, op: &Self::Op) -> String;
    /// Evaluate the invariants in the current state. `(key, what)` per violation.
    fn check(&mut self, last: Option<(&Self::Op, &str)>) -> Vec<(String, String)>;
    /// Invariants whose verdict is a function of the canonical state alone (no dependence on
    /// the last operation or on anything `canon` leaves out): evaluated only the first time a
    /// canonical state is reached, so expensive oracles are not repeated on revisits.
    fn check_state(&mut self) -> Vec<(String, String)> {
        Vec::new()
    }
    /// Canonical hash of the current state.
    fn canon(&mut self) -> u64;
}

/// `KV_DEADLINE_SCALE` (default 1) scales every wall-clock budget of the search (used to take a
/// shorter look at the thorough tier; a cut search says so in its evidence).
pub fn deadline_scale() -> f64 {
    std::env::var("KV_DEADLINE_SCALE").ok().and_then(|v| v.parse::<f64>().ok()).filter(|v| *v > 0.0).unwrap_or(1.0)
}

#[derive(Clone, Debug)]
pub struct Opts {
    pub depth: u8,
    pub procs: usize,
    pub deadline_s: f64,
    pub log2_slots: u32,
    pub dedup: bool,
    pub max_samples: u64,
    /// siblings are explored in parallel only at trace depth < par_depth
    pub par_depth: usize,
}

impl Default for Opts {
    fn default() -> Self {
        Opts {
            depth: 3,
            procs: 16,
            deadline_s: 45.0,
            log2_slots: 22,
            dedup: true,
            max_samples: 6,
            par_depth: 2,
        }
    }
}

#[derive(Debug, Default)]
pub struct Report {
    pub states: u64,
    pub transitions: u64,
    pub leaves: u64,
    pub pruned: u64,
    pub max_depth: u64,
    pub capped: bool,
    pub depth: u8,
    pub outcomes: BTreeMap<String, u64>,
    pub violations: Vec<(String, String, Value)>,
    pub violations_total: u64,
    pub samples: Vec<Value>,
    pub machinery: Vec<String>,
    pub wall_s: f64,
}

const C_STATES: usize = 0;
const C_TRANS: usize = 1;
const C_LEAVES: usize = 2;
const C_PRUNED: usize = 3;
const C_MAXDEPTH: usize = 4;
const C_CAPPED: usize = 5;
const C_RUNNING: usize = 6;
const C_VIOLS: usize = 7;
const C_SAMPLES: usize = 8;
const C_MACH: usize = 9;

struct Globals {
    counters: Counters,
    visited: Visited,
    outcomes: Visited,
    viol_keys: Visited,
    opts: Opts,
    start: Instant,
    log_path: std::path::PathBuf,
}

impl Globals {
    fn log(&self, v: &Value) {
        let mut line = serde_json::to_vec(v).unwrap_or_default();
        line.push(b'\n');
        if let Ok(mut f) = std::fs::OpenOptions::new().append(true).create(true).open(&self.log_path) {
            let _ = f.write_all(&line);
        }
    }
}

/// Explore every operation sequence of length ≤ `opts.depth` from the current state of `w`.
/// The root state itself is checked first.
pub fn explore<W: World>(w: &mut W, opts: &Opts, scratch: &std::path::Path) -> Report {
    let g = Globals {
        counters: Counters::new(32),
        visited: Visited::new(opts.log2_slots),
        outcomes: Visited::new(14),
        viol_keys: Visited::new(12),
        opts: opts.clone(),
        start: Instant::now(),
        log_path: scratch.join(format!("forkdfs-{}.log", std::process::id())),
    };
    let _ = std::fs::remove_file(&g.log_path);

    // root
    let mut root_viol = w.check(None);
    root_viol.extend(w.check_state());
    for (k, what) in root_viol {
        g.counters.add(C_VIOLS, 1);
        g.log(&json!({"t":"viol","key":k,"what":what,"trace":[]}));
    }
    let h = w.canon();
    g.visited.visit(h, opts.depth);
    g.counters.add(C_STATES, 1);
    g.counters.add(C_RUNNING, 1);

    let mut trace: Vec<W::Op> = Vec::new();
    expand(w, &mut trace, opts.depth, &g);

    let mut rep = Report {
        states: g.counters.get(C_STATES),
        transitions: g.counters.get(C_TRANS),
        leaves: g.counters.get(C_LEAVES),
        pruned: g.counters.get(C_PRUNED),
        max_depth: g.counters.get(C_MAXDEPTH),
        capped: g.counters.get(C_CAPPED) != 0,
        depth: opts.depth,
        violations_total: g.counters.get(C_VIOLS),
        wall_s: g.start.elapsed().as_secs_f64(),
        ..Default::default()
    };
    if let Ok(txt) = std::fs::read_to_string(&g.log_path) {
        for line in txt.lines() {
            let Ok(v) = serde_json::from_str::<Value>(line) else {
                rep.machinery.push(format!("unparsable log line: {line}"));
                continue;
            };
            match v.get("t").and_then(|t| t.as_str()) {
                Some("viol") => {
                    let key = v["key"].as_str().unwrap_or("").to_string();
                    let what = v["what"].as_str().unwrap_or("").to_string();
                    rep.violations.push((key, what, v["trace"].clone()));
                }
                Some("sample") => rep.samples.push(v["trace"].clone()),
                Some("mach") => rep.machinery.push(v["msg"].as_str().unwrap_or("").to_string()),
                Some("outcome") => {
                    rep.outcomes.insert(v["label"].as_str().unwrap_or("").to_string(), 1);
                }
                _ => {}
            }
        }
    }
    if g.counters.get(C_MACH) != 0 && rep.machinery.is_empty() {
        rep.machinery.push("child process failed (no detail logged)".into());
    }
    let _ = std::fs::remove_file(&g.log_path);
    rep
}

fn expand<W: World>(w: &mut W, trace: &mut Vec<W::Op>, remaining: u8, g: &Globals) {
    g.counters.max(C_MAXDEPTH, trace.len() as u64);
    if remaining == 0 {
        g.counters.add(C_LEAVES, 1);
        return;
    }
    if g.start.elapsed().as_secs_f64() > g.opts.deadline_s * deadline_scale() {
        g.counters.set(C_CAPPED, 1);
        return;
    }
    let ops = match catch_unwind(AssertUnwindSafe(|| w.ops())) {
        Ok(o) => o,
        Err(_) => {
            g.counters.add(C_MACH, 1);
            g.log(&json!({"t":"mach","msg":format!("panic in ops() after {:?}", trace)}));
            return;
        }
    };
    if ops.is_empty() {
        g.counters.add(C_LEAVES, 1);
        return;
    }
    let mut pending: Vec<libc::pid_t> = Vec::new();
    for op in ops {
        // siblings run concurrently only near the root: many processes copy-on-write faulting the
        // same parent's pages contend in the kernel, deeper levels are explored sequentially
        let run_async = trace.len() < g.opts.par_depth && (g.counters.get(C_RUNNING) as usize) < g.opts.procs;
        if run_async {
            g.counters.add(C_RUNNING, 1);
        }
        let pid = unsafe { libc::fork() };
        if pid < 0 {
            g.counters.add(C_MACH, 1);
            g.log(&json!({"t":"mach","msg":"fork failed"}));
            if run_async {
                g.counters.sub(C_RUNNING, 1);
            }
            continue;
        }
        if pid == 0 {
            let code = child(w, trace, op, remaining, g);
            if run_async {
                g.counters.sub(C_RUNNING, 1);
            }
            unsafe { libc::_exit(code) };
        }
        if run_async {
            pending.push(pid);
        } else {
            reap(pid, g, trace);
        }
    }
    if !pending.is_empty() {
        // we block while waiting: give our slot back
        g.counters.sub(C_RUNNING, 1);
        for pid in pending {
            reap(pid, g, trace);
        }
        g.counters.add(C_RUNNING, 1);
    }
}

fn reap<O: Debug>(pid: libc::pid_t, g: &Globals, trace: &[O]) {
    let mut status: libc::c_int = 0;
    let r = unsafe { libc::waitpid(pid, &mut status, 0) };
    if r < 0 {
        return;
    }
    let ok = libc::WIFEXITED(status) && libc::WEXITSTATUS(status) == 0;
    if !ok {
        g.counters.add(C_MACH, 1);
        g.log(&json!({"t":"mach","msg":format!("child of {:?} ended abnormally (status {status:#x})", trace)}));
    }
}

fn child<W: World>(w: &mut W, trace: &mut Vec<W::Op>, op: W::Op, remaining: u8, g: &Globals) -> i32 {
    let timing = std::env::var("KV_TIMING").is_ok();
    let t_start = Instant::now();
    let r = catch_unwind(AssertUnwindSafe(|| {
        let label = w.apply(&op);
        let t_apply = t_start.elapsed();
        g.counters.add(C_TRANS, 1);
        trace.push(op.clone());
        if g.outcomes.insert(crate::hash_str(&label)) {
            g.log(&json!({"t":"outcome","label":label}));
        }
        let viols = w.check(Some((&op, &label)));
        for (k, what) in viols {
            g.counters.add(C_VIOLS, 1);
            // one logged trace per distinct key (the first found; DFS order is simplest-first)
            if g.viol_keys.insert(crate::hash_str(&k)) {
                g.log(&json!({"t":"viol","key":k,"what":what,"trace":trace}));
            }
        }
        let t_check = t_start.elapsed();
        let h = w.canon();
        if timing {
            eprintln!("timing depth={} apply={:?} check={:?} canon={:?}", trace.len(), t_apply, t_check - t_apply, t_start.elapsed() - t_check);
        }
        let rem = remaining - 1;
        let v = if g.opts.dedup {
            g.visited.visit(h, rem)
        } else {
            match g.visited.visit(h, 0) {
                Visit::New => Visit::New,
                _ => Visit::Deeper,
            }
        };
        if std::env::var_os("KV_DUMP_NODES").is_some() {
            eprintln!("NODE {h:016x} {} rem={rem} dedup={} {}", match v { Visit::New => "new", Visit::Deeper => "deeper", Visit::Seen => "seen" }, g.opts.dedup, serde_json::to_string(&trace).unwrap_or_default());
        }
        if matches!(v, Visit::New) {
            for (k, what) in w.check_state() {
                g.counters.add(C_VIOLS, 1);
                if g.viol_keys.insert(crate::hash_str(&k)) {
                    g.log(&json!({"t":"viol","key":k,"what":what,"trace":trace}));
                }
            }
        }
        match v {
            Visit::New => {
                let n = g.counters.add(C_STATES, 1);
                // sample a few traces spread over the run: every state whose ordinal is a power of 4
                if g.counters.get(C_SAMPLES) < g.opts.max_samples && (n & (n - 1)) == 0 && n.trailing_zeros() % 2 == 0 {
                    g.counters.add(C_SAMPLES, 1);
                    g.log(&json!({"t":"sample","trace":trace}));
                }
                expand(w, trace, rem, g);
            }
            Visit::Deeper => expand(w, trace, rem, g),
            Visit::Seen => {
                g.counters.add(C_PRUNED, 1);
                g.counters.add(C_LEAVES, 1);
            }
        }
    }));
    match r {
        Ok(()) => 0,
        Err(e) => {
            let msg = e
                .downcast_ref::<String>()
                .cloned()
                .or_else(|| e.downcast_ref::<&str>().map(|s| s.to_string()))
                .unwrap_or_else(|| "?".into());
            g.counters.add(C_MACH, 1);
            g.log(&json!({"t":"mach","msg":format!("panic after {:?}: {msg}", trace)}));
            3
        }
    }
}

/// Re-execute one trace (from a replay artefact) without the explorer.
pub fn replay<W: World>(w: &mut W, trace: &Value) -> Result<Vec<(String, String)>, String> {
    let ops: Vec<W::Op> = serde_json::from_value(trace.clone()).map_err(|e| format!("bad trace: {e}"))?;
    let mut out = w.check(None);
    out.extend(w.check_state());
    for op in ops {
        let label = w.apply(&op);
        eprintln!("replay: {op:?} -> {label}");
        out.extend(w.check(Some((&op, &label))));
        out.extend(w.check_state());
        eprintln!("replay: state {:016x}", w.canon());
    }
    Ok(out)
}

/// Common glue: run `explore`, fold the report into the context.
pub fn run_into_ctx<W: World>(ctx: &mut crate::Ctx, w: &mut W, opts: &Opts, prefix: &str) -> Report {
    let scratch = ctx.scratch_dir();
    let rep = explore(w, opts, &scratch);
    let _ = std::fs::remove_dir_all(&scratch);
    ctx.add("states", rep.states);
    ctx.add("transitions", rep.transitions);
    ctx.add("traces_validated_against_impl", rep.leaves);
    ctx.add("pruned_revisits", rep.pruned);
    let md = std::cmp::max(ctx.get_u64("max_depth"), rep.max_depth);
    ctx.set("max_depth", md);
    for s in &rep.samples {
        ctx.sample(json!({"world": prefix, "trace": s}));
    }
    for m in &rep.machinery {
        ctx.machinery_error(format!("[{prefix}] {m}"));
    }
    for (k, what, trace) in &rep.violations {
        if k.starts_with("machinery:") {
            // the harness itself failed while evaluating an oracle: never a verdict
            ctx.machinery_error(format!("[{prefix}] {k}: {what} after {trace}"));
            continue;
        }
        ctx.violation(k, what, json!({"world": prefix, "trace": trace}));
    }
    rep
}

/// Run `f` in a forked copy of this process and return the string it produces. The parent's
/// state is untouched whatever `f` does (differential oracles: "what would a reindex / a cold
/// cache / a restart give from exactly this state?").
pub fn fork_eval(f: impl FnOnce() -> String) -> Result<String, String> {
    match fork_eval_code(f)? {
        (s, 0) => Ok(s),
        (_, code) => Err(format!("forked evaluation ended abnormally (exit code {code})")),
    }
}

/// Like `fork_eval`, but a child that ends through `_exit(code)` on its own (a simulated process
/// death) is reported as `(whatever it had written, code)` instead of as an error.
pub fn fork_eval_code(f: impl FnOnce() -> String) -> Result<(String, i32), String> {
    let mut fds = [0i32; 2];
    if unsafe { libc::pipe(fds.as_mut_ptr()) } != 0 {
        return Err("pipe failed".into());
    }
    let pid = unsafe { libc::fork() };
    if pid < 0 {
        return Err("fork failed".into());
    }
    if pid == 0 {
        unsafe { libc::close(fds[0]) };
        let out = match catch_unwind(AssertUnwindSafe(f)) {
            Ok(s) => s,
            Err(_) => "\u{1}PANIC".to_string(),
        };
        let bytes = out.as_bytes();
        let mut off = 0;
        while off < bytes.len() {
            let n = unsafe { libc::write(fds[1], bytes[off..].as_ptr() as *const libc::c_void, bytes.len() - off) };
            if n <= 0 {
                break;
            }
            off += n as usize;
        }
        unsafe {
            libc::close(fds[1]);
            libc::_exit(0)
        };
    }
    unsafe { libc::close(fds[1]) };
    let mut buf = Vec::new();
    let mut chunk = [0u8; 65536];
    loop {
        let n = unsafe { libc::read(fds[0], chunk.as_mut_ptr() as *mut libc::c_void, chunk.len()) };
        if n <= 0 {
            break;
        }
        buf.extend_from_slice(&chunk[..n as usize]);
    }
    unsafe { libc::close(fds[0]) };
    let mut status = 0;
    unsafe { libc::waitpid(pid, &mut status, 0) };
    if !libc::WIFEXITED(status) {
        return Err(format!("forked evaluation ended abnormally (status {status:#x})"));
    }
    let s = String::from_utf8_lossy(&buf).to_string();
    if s == "\u{1}PANIC" {
        return Err("forked evaluation panicked".into());
    }
    Ok((s, libc::WEXITSTATUS(status)))
}

/// Evaluate `f(i)` for every `i in 0..n` in `workers` forked worker processes (item `i` goes to
/// worker `i % workers`) and return the results in item order. Each worker is a forked copy of
/// the calling process, so `f` may fork again (`fork_eval`) and may use process-global state.
/// Must be called while the process is single-threaded.
pub fn fork_map(workers: usize, n: usize, f: impl Fn(usize) -> String) -> Result<Vec<String>, String> {
    let workers = workers.max(1).min(n.max(1));
    let mut kids = Vec::new();
    for w in 0..workers {
        let mut fds = [0i32; 2];
        if unsafe { libc::pipe(fds.as_mut_ptr()) } != 0 {
            return Err("pipe failed".into());
        }
        let pid = unsafe { libc::fork() };
        if pid < 0 {
            return Err("fork failed".into());
        }
        if pid == 0 {
            unsafe { libc::close(fds[0]) };
            let mut i = w;
            while i < n {
                let out = match catch_unwind(AssertUnwindSafe(|| f(i))) {
                    Ok(s) => s,
                    Err(_) => "\u{1}PANIC".to_string(),
                };
                let mut msg = format!("{i} {}\n", out.len()).into_bytes();
                msg.extend_from_slice(out.as_bytes());
                let mut off = 0;
                while off < msg.len() {
                    let k = unsafe { libc::write(fds[1], msg[off..].as_ptr() as *const libc::c_void, msg.len() - off) };
                    if k <= 0 {
                        unsafe { libc::_exit(3) };
                    }
                    off += k as usize;
                }
                i += workers;
            }
            unsafe {
                libc::close(fds[1]);
                libc::_exit(0)
            };
        }
        unsafe { libc::close(fds[1]) };
        kids.push((pid, fds[0]));
    }
    // drain every pipe concurrently (a worker blocks once its pipe is full)
    let mut bufs: Vec<Vec<u8>> = vec![Vec::new(); kids.len()];
    let mut open: Vec<bool> = vec![true; kids.len()];
    let mut chunk = [0u8; 65536];
    while open.iter().any(|o| *o) {
        let mut pfds: Vec<libc::pollfd> = kids.iter().zip(open.iter()).filter(|(_, o)| **o).map(|((_, fd), _)| libc::pollfd { fd: *fd, events: libc::POLLIN, revents: 0 }).collect();
        let r = unsafe { libc::poll(pfds.as_mut_ptr(), pfds.len() as libc::nfds_t, -1) };
        if r < 0 {
            continue;
        }
        for p in pfds.iter().filter(|p| p.revents != 0) {
            let idx = kids.iter().position(|(_, fd)| *fd == p.fd).unwrap_or(0);
            let k = unsafe { libc::read(p.fd, chunk.as_mut_ptr() as *mut libc::c_void, chunk.len()) };
            if k <= 0 {
                open[idx] = false;
                unsafe { libc::close(p.fd) };
            } else {
                bufs[idx].extend_from_slice(&chunk[..k as usize]);
            }
        }
    }
    let mut out: Vec<Option<String>> = vec![None; n];
    for ((pid, _), buf) in kids.iter().zip(bufs.iter()) {
        let mut status = 0;
        unsafe { libc::waitpid(*pid, &mut status, 0) };
        if !(libc::WIFEXITED(status) && libc::WEXITSTATUS(status) == 0) {
            return Err(format!("a worker process ended abnormally (status {status:#x})"));
        }
        let mut pos = 0;
        while pos < buf.len() {
            let nl = buf[pos..].iter().position(|b| *b == b'\n').ok_or("worker framing")? + pos;
            let head = String::from_utf8_lossy(&buf[pos..nl]).to_string();
            let (i, len) = head.split_once(' ').ok_or("worker framing")?;
            let (i, len): (usize, usize) = (i.parse().map_err(|_| "worker framing")?, len.parse().map_err(|_| "worker framing")?);
            let body = String::from_utf8_lossy(&buf[nl + 1..nl + 1 + len]).to_string();
            if body == "\u{1}PANIC" {
                return Err(format!("item {i} panicked"));
            }
            out[i] = Some(body);
            pos = nl + 1 + len;
        }
    }
    out.into_iter().enumerate().map(|(i, o)| o.ok_or(format!("no result for item {i}"))).collect()
}
