//! Anonymous MAP_SHARED memory visible to every forked descendant.

use std::sync::atomic::{AtomicU64, Ordering};

pub struct Shared {
    ptr: *mut u8,
    len: usize,
}

unsafe impl Send for Shared {}
unsafe impl Sync for Shared {}

impl Shared {
    pub fn new(len: usize) -> Shared {
        let ptr = unsafe {
            libc::mmap(
                std::ptr::null_mut(),
                len,
                libc::PROT_READ | libc::PROT_WRITE,
                libc::MAP_SHARED | libc::MAP_ANONYMOUS,
                -1,
                0,
            )
        };
        if ptr == libc::MAP_FAILED {
            crate::ctx::machinery_exit("mmap failed");
        }
        Shared {
            ptr: ptr as *mut u8,
            len,
        }
    }
    pub fn atomics(&self) -> &[AtomicU64] {
        // mmap memory is page aligned and zero initialised; AtomicU64 has the layout of u64.
        unsafe { std::slice::from_raw_parts(self.ptr as *const AtomicU64, self.len / 8) }
    }
}

impl Drop for Shared {
    fn drop(&mut self) {
        unsafe {
            libc::munmap(self.ptr as *mut libc::c_void, self.len);
        }
    }
}

/// Depth-aware visited table. Each slot: upper 56 bits = state hash tag (never 0), low 8 bits
/// = largest remaining depth with which the state has been expanded.
pub struct Visited {
    mem: Shared,
    mask: usize,
}

pub enum Visit {
    /// first time this state is seen
    New,
    /// seen before, but only with a smaller remaining depth: must be re-expanded
    Deeper,
    /// already expanded with at least this remaining depth: prune
    Seen,
}

impl Visited {
    pub fn new(log2_slots: u32) -> Visited {
        let slots = 1usize << log2_slots;
        Visited {
            mem: Shared::new(slots * 8),
            mask: slots - 1,
        }
    }

    pub fn visit(&self, hash: u64, remaining: u8) -> Visit {
        let slots = self.mem.atomics();
        let mut tag = hash & !0xff;
        if tag == 0 {
            tag = 0x100;
        }
        let mut idx = (hash.rotate_left(17) as usize) & self.mask;
        let mut probes = 0usize;
        loop {
            let cur = slots[idx].load(Ordering::Acquire);
            if cur == 0 {
                match slots[idx].compare_exchange(0, tag | u64::from(remaining), Ordering::AcqRel, Ordering::Acquire) {
                    Ok(_) => return Visit::New,
                    Err(_) => continue, // re-read this slot
                }
            }
            if cur & !0xff == tag {
                let have = (cur & 0xff) as u8;
                if have >= remaining {
                    return Visit::Seen;
                }
                match slots[idx].compare_exchange(cur, tag | u64::from(remaining), Ordering::AcqRel, Ordering::Acquire) {
                    Ok(_) => return Visit::Deeper,
                    Err(_) => continue,
                }
            }
            idx = (idx + 1) & self.mask;
            probes += 1;
            if probes > self.mask {
                crate::ctx::machinery_exit("visited table full");
            }
        }
    }

    /// insert-only set semantics (remaining depth ignored): returns true if new
    pub fn insert(&self, hash: u64) -> bool {
        matches!(self.visit(hash, 0), Visit::New)
    }
}

/// A handful of named counters in shared memory.
pub struct Counters {
    mem: Shared,
}

impl Counters {
    pub fn new(n: usize) -> Counters {
        Counters {
            mem: Shared::new(std::cmp::max(n * 8, 4096)),
        }
    }
    pub fn add(&self, i: usize, n: u64) -> u64 {
        self.mem.atomics()[i].fetch_add(n, Ordering::AcqRel)
    }
    pub fn sub(&self, i: usize, n: u64) -> u64 {
        self.mem.atomics()[i].fetch_sub(n, Ordering::AcqRel)
    }
    pub fn get(&self, i: usize) -> u64 {
        self.mem.atomics()[i].load(Ordering::Acquire)
    }
    pub fn set(&self, i: usize, v: u64) {
        self.mem.atomics()[i].store(v, Ordering::Release)
    }
    pub fn max(&self, i: usize, v: u64) {
        self.mem.atomics()[i].fetch_max(v, Ordering::AcqRel);
    }
}
